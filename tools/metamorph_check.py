#!/usr/bin/env python3-vt
"""
Metamorphic robustness check of the machinery itself (not a registered property check):
  metamorph_check.py check [--props C05,C06] [--variants flip-if,...]   every property on every whole-tree variant, in-process overlay
  metamorph_check.py materialise <variant> <dir>                       write the variant into a scratch worktree (to run the tests)
"""
import multiprocessing, os, sys, traceback
VERIF = os.path.dirname(os.path.dirname(os.path.abspath(__file__)))
sys.path.insert(0, VERIF)
from jfsa import cli, metamorph  # noqa: E402
from jfsa.core import AnalysisError, Source  # noqa: E402


def one(args):
    pid, variant = args
    base = Source("/repo")
    ov = metamorph.variant_overlay(base, variant)
    src = Source("/repo", ov)
    try:
        _, reports = cli.analyse_findings(pid, src)
        fs = [f for r in reports for f in r.findings]
        und = [u for r in reports for u in r.undecided]
        return pid, variant, "silent" if not fs else "ALARM", [f"{f.rule} {f.loc}: {f.construct}"[:230] for f in fs][:4], len(und)
    except AnalysisError as e:
        return pid, variant, "ANALYSIS-ERROR", [str(e)[:300]], 0
    except Exception:
        return pid, variant, "INTERNAL", [traceback.format_exc()[-600:]], 0
    finally:
        src.close()


def main():
    if sys.argv[1] == "materialise":
        variant, d = sys.argv[2], sys.argv[3]
        ov = metamorph.variant_overlay(Source(d), variant)
        for rel, text in ov.items():
            with open(os.path.join(d, rel), "w") as f:
                f.write(text)
        print(f"{len(ov)} files rewritten in {d}")
        return 0
    props = cli.PROPS
    variants = list(metamorph.TRANSFORMS)
    for a in sys.argv[2:]:
        if a.startswith("--props="):
            props = a.split("=", 1)[1].split(",")
        if a.startswith("--variants="):
            variants = a.split("=", 1)[1].split(",")
    tasks = [(p, v) for v in variants for p in props]
    with multiprocessing.get_context("fork").Pool(16) as pool:
        res = pool.map(one, tasks, chunksize=1)
    bad = 0
    for pid, variant, status, details, und in res:
        if status != "silent":
            bad += 1
            print(f"{variant:14s} {pid}: {status}")
            for d in details:
                print("      " + d)
        elif und:
            print(f"{variant:14s} {pid}: silent, {und} undecided")
    print(f"TOTAL not-silent: {bad} of {len(res)}")
    return 1 if bad else 0


sys.exit(main())
