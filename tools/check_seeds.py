#!/usr/bin/env python3
"""Quick regression over the kept seeded changes: apply each /verif/seeded/*/patch.diff to /repo, run the own property's quick
check (static: nothing is built or executed), revert.  Prints one line per seed; exit 1 if a seed recorded as detected is no
longer reported."""
import glob, json, os, subprocess, sys
VERIF = os.path.dirname(os.path.dirname(os.path.abspath(__file__)))
def sh(cmd, cwd=None):
    p = subprocess.run(cmd, shell=True, cwd=cwd, capture_output=True, text=True, timeout=900)
    return p.returncode, p.stdout + p.stderr
def scratch_run(jobs: int) -> int:
    """the same regression on scratch worktrees of /repo's HEAD (outside /repo and /verif), `jobs` seeds at a time"""
    import tempfile, shutil
    from concurrent.futures import ThreadPoolExecutor
    import queue
    base = tempfile.mkdtemp(prefix="jfsa_seeds_")
    pool: "queue.Queue[str]" = queue.Queue()
    for i in range(jobs):
        wt = os.path.join(base, f"w{i}")
        rc, o = sh(f"git -C /repo worktree add --detach -f {wt} HEAD -q")
        assert rc == 0, o
        pool.put(wt)
    seeds = sorted(glob.glob(os.path.join(VERIF, "seeded", "*")))

    def one(d: str):
        name = os.path.basename(d)
        pid = name.split("_")[0]
        meta = json.load(open(os.path.join(d, "meta.json")))
        expected = meta.get("detected_by_own_property_check", True)
        wt = pool.get()
        try:
            rc, o = sh(f"git apply {d}/patch.diff", wt)
            if rc != 0:
                return name, f"{name} patch does not apply: {o.strip()[:100]}", False
            rc, o = sh(f"./check {pid} --tier quick --no-evidence --repo {wt}", VERIF)
        finally:
            sh("git checkout -q -- . && git clean -fdq", wt)
            pool.put(wt)
        rules = sorted({l.split("]")[1].split()[0] for l in o.splitlines() if " VIOLATED at " in l})
        status = "VIOLATION" if rc == 1 else ("ANALYSIS-ERROR" if rc == 2 else "silent")
        changed = (rc == 1) != bool(expected)
        flag = "   <-- CHANGED (recorded detected=%s)" % expected if changed else ""
        return name, f"{name}: {status} {rules[:4]}{flag}", bool(changed and expected)
    bad_ = 0
    try:
        with ThreadPoolExecutor(jobs) as ex:
            for name, line, is_bad in ex.map(one, seeds):
                print(line, flush=True)
                bad_ += 1 if is_bad else 0
    finally:
        while not pool.empty():
            sh(f"git -C /repo worktree remove --force {pool.get()}")
        shutil.rmtree(base, ignore_errors=True)
        sh("git -C /repo worktree prune")
    return bad_


if len(sys.argv) > 2 and sys.argv[1] == "--scratch":
    sys.exit(1 if scratch_run(int(sys.argv[2])) else 0)
assert not sh("git status --porcelain", "/repo")[1].strip(), "repo dirty"
bad = 0
for d in sorted(glob.glob(os.path.join(VERIF, "seeded", "*"))):
    name = os.path.basename(d)
    pid = name.split("_")[0]
    meta = json.load(open(os.path.join(d, "meta.json")))
    expected = meta.get("detected_by_own_property_check", True)
    rc, o = sh(f"git apply {d}/patch.diff", "/repo")
    if rc != 0:
        print(name, "patch does not apply:", o.strip()[:100]); sh("git checkout -- .", "/repo"); continue
    try:
        rc, o = sh(f"./check {pid} --tier quick --no-evidence", VERIF)
    finally:
        sh("git checkout -- .", "/repo")
    rules = sorted({l.split("]")[1].split()[0] for l in o.splitlines() if " VIOLATED at " in l})
    status = "VIOLATION" if rc == 1 else ("ANALYSIS-ERROR" if rc == 2 else "silent")
    flag = "" if (rc == 1) == bool(expected) else "   <-- CHANGED (recorded detected=%s)" % expected
    if flag and expected:
        bad += 1
    print(f"{name}: {status} {rules[:4]}{flag}")
sys.exit(1 if bad else 0)
