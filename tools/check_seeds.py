#!/usr/bin/env python3
"""Quick regression over the kept seeded changes: apply each /verif/seeded/*/patch.diff to /repo, run the own property's quick
check (static: nothing is built or executed), revert.  Prints one line per seed; exit 1 if a seed recorded as detected is no
longer reported."""
import glob, json, os, subprocess, sys
VERIF = os.path.dirname(os.path.dirname(os.path.abspath(__file__)))
def sh(cmd, cwd=None):
    p = subprocess.run(cmd, shell=True, cwd=cwd, capture_output=True, text=True, timeout=900)
    return p.returncode, p.stdout + p.stderr
assert not sh("git status --porcelain", "/repo")[1].strip(), "repo dirty"
bad = 0
for d in sorted(glob.glob(os.path.join(VERIF, "seeded", "*"))):
    name = os.path.basename(d)
    pid = name.split("_")[0]
    meta = json.load(open(os.path.join(d, "meta.json")))
    expected = meta.get("detected_by_own_property_check", True)
    rc, o = sh(f"git apply {d}/patch.diff", "/repo")
    if rc != 0:
        print(name, "patch does not apply:", o.strip()[:100]); sh("git checkout -- .", "/repo"); continue
    try:
        rc, o = sh(f"./check {pid} --tier quick --no-evidence", VERIF)
    finally:
        sh("git checkout -- .", "/repo")
    rules = sorted({l.split("]")[1].split()[0] for l in o.splitlines() if " VIOLATED at " in l})
    status = "VIOLATION" if rc == 1 else ("ANALYSIS-ERROR" if rc == 2 else "silent")
    flag = "" if (rc == 1) == bool(expected) else "   <-- CHANGED (recorded detected=%s)" % expected
    if flag and expected:
        bad += 1
    print(f"{name}: {status} {rules[:4]}{flag}")
sys.exit(1 if bad else 0)
