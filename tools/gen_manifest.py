#!/usr/bin/env python3
"""Regenerate /verif/MANIFEST.json from the table below (only properties whose check module exists are claimed)."""
import json
import os
import sys

HERE = os.path.dirname(os.path.dirname(os.path.abspath(__file__)))

# id -> (technique, level text, level note, design ref)
NORMAL_FORM_NOTE = (". All Python rules read the front-end normal form of the source (jfsa/normalize.py: guard clauses nested, negated "
                    "tests flipped, x = x + y as +=, append loops as comprehensions, pure single-assignment locals propagated; private "
                    "helpers and generator helpers inlined where a rule judges a whole routine) and compare expressions after resolving "
                    "locals by reaching definitions (jfsa/resolve.py), so a verdict does not depend on variable names, helper boundaries "
                    "or the way a test is written; the thorough tier replays a corpus of behaviour-preserving refactorings and nine "
                    "whole-tree metamorphic rewrites as silent twins")

# rule families added after the plan was written (appended to the technique text)
EXTRA_TECH = {
    "C01": "; plus the rule set of C06 (scheduler order and lazy deletion)",
    "C03": "; parity abstract interpretation of the C derivative (zero / even / odd / mixed / unknown per reflection, symmetric "
           "lattice sums re-indexed); homogeneity degrees in the separations to derive the unit order of the multi-body tuple, checked "
           "against the separations option of every shipped configuration",
    "C04": "; statement-order rule: a rate evaluated on the stored in-state comes after the time slice of that state",
    "C05": "; abstract reading of the selection walk over index / rate / identifier / prefix-sum streams; linear bookkeeping of the "
           "pairwise derivatives (net coefficients +1 / -1); path-wise insertion-order rule for two composite objects",
    "C06": "; three-valued reachability for the finite-time filter and the empty-heap raise; byte-count restart rule for rebuilt heaps; "
           "expansion of C helper functions and pointer aliases in the zone analysis",
    "C07": "; extraction-copy rule (shared with C13); scheduler protocol rules (shared with C06); commit routine of the induced "
           "velocities (shared with C12)",
    "C08": "; scheduler lazy-deletion protocol (shared with C06) and activator pool accounting (shared with C09); path rule: every "
           "path through the mediators' trash loops calls scheduler.trash_event",
    "C09": "; one symbolic iteration of the trash loop over list values with alias tracking; pool writers inside the creation routines; "
           "idempotence (read / write disjointness) of the tagger switch; scheduler lazy-deletion protocol (shared with C06); tagger algebra "
           "of the cell taggers (shared with C10); trash-loop path rule and single call site of get_succeeding_event per run-loop iteration",
    "C10": "; may-dependence (data and control) of the active cell on the configured cell level; tagger-pool reachability of every "
           "shipped configuration: no candidate of a cell family survives a cell crossing; memo-key completeness; the rule set of C18 (far "
           "cells are reached through the cell-veto proposal only)",
    "C11": "; truth tables of the placement tests and of the relevance predicate over the sign of the charge; abstract execution of the "
           "boundary loop for both signs of the velocity; loop-exit postcondition for the stored cell corners; class-level containers that "
           "are changed in place are shared state",
    "C12": "; extraction-copy and insertion rules (shared with C13); tagger-pool reachability (shared with C08)",
    "C13": "; setters store the given value (identity-like expression of the parameter)",
    "C14": "; no arithmetic on quotient / remainder in comparison code (Python and heap.c); every writer of the representation writes "
           "all fields the constructor sets",
    "C17": "; insertion rule (shared with C13); self-clocked taggers are never deactivated; trash-loop path rule and single call site "
           "of get_succeeding_event",
    "C19": "; strict-order truth tables of the heap comparisons (shared with C06: the dump replays the array order)",
    "C18": "; all comparisons after resolving locals and inlining helpers (no rule names a variable); may-dependence of the offset origin "
           "on the cell level; tagger-pool reachability: no cell-veto candidate survives a cell crossing",
    "C20": "; path-wise abstract interpretation of the parent run loop over the stage machine (stage sets refined by tests, event "
           "sequences parsed into legal steps); abstract execution of the worker loop under every event valuation; interval "
           "evaluation of semaphore permits over the domain the constructor admits",
}

CLAIMS = {
    "C01": (
        "provenance / single-use dataflow rule on every Exp(beta) draw; mirror-closure and label resolution of factor files; "
        "cross-file agreement of model parameters over the statically resolved object graphs of the shipped .ini families; "
        "plus the rule sets of C03 (degree analysis), C04 (confirmation normal form) and C05 (lifting tables)",
        "Does NOT decide the property proper (convergence of sampled observables to exp(-beta U)), which is statistical. "
        "Decides necessary structural conditions whose violation makes the sampled distribution wrong for some configuration: "
        "every candidate event spends one fresh Exp(setting.beta) budget; every factor listed in a factor file acts on both "
        "partners and every tagger finds its factor; all shipped variants of one model define the same energy, temperature, "
        "charges and composition; rates are homogeneous in speed and charges; thinned events are confirmed with the exact "
        "ratio; lifting moves are balanced by construction.",
        "Trusted: the frozen list of Ewald convergence knobs and of the two by-design exceptions in jfsa/props/c01.py; "
        "jfsa/inifront.py as a model of the factory; everything trusted by C03 / C04 / C05.",
        "DESIGN.md section 3, C01"),
    "C03": (
        "abstract interpretation in the domain of homogeneity degrees (speed, charge_one, charge_two) over Python potentials "
        "(through MRO, attribute sub-potentials) and the cffi C functions (clang AST); units-of-measure inference (linear "
        "constraints over exponent vectors with coefficients in Q(power), incremental Gaussian elimination) over the Python "
        "and C potentials linked at the cffi call sites; permutation-table check; linear-form zero-sum check of the "
        "multi-body derivative tuple",
        "Decides for all inputs the clause 'scaled linearly by speed and charge product' (derivative has degree exactly 1 in "
        "speed and each charge for all 7 concrete potentials with a derivative, displacement degree -1 in speed), that the "
        "axis permutation feeding the C x-derivative is the cyclic one for the direction of motion at every call, and that the "
        "per-unit derivatives of the multi-body potential sum to zero identically (translation invariance); and that all "
        "potential code (about 730 constraints, Python and C, including the Ewald constructor / copy and the periodic 1/r "
        "displacement) is dimensionally consistent with the API contract, with exponents symbolic in the configured power "
        "(this catches wrong exponents, norm vs squared norm, a dropped box length or speed, a potential added to a length, "
        "a constructor fed a parameter of the wrong dimension). Dimensionally consistent errors (a wrong dimensionless factor, "
        "a sign), hence equality of the "
        "reported rate with dE/dx, convergence / alpha-independence / periodicity / oddness of the lattice sum are numerical "
        "and not decided.",
        "Trusted: the degree algebra of jfsa/degree.py (sqrt halves, transcendental functions need degree 0, zero / infinity "
        "literals are polymorphic); parameter roles by name (charge_one, charge_two, velocity, *separation*, "
        "potential_change, *length*), as the repository's own signature inspection does; numeric literals other than 0 are "
        "dimensionless; the frozen dimension contract in jfsa/dims_front.py.",
        "DESIGN.md section 3, C03"),
    "C18": (
        "dataflow / structural rules on the alias-table construction (mass moved = mass removed, refiling, flushing), the "
        "sampling coin, and the cell-veto proposal (paired choice of walker and bound component, candidate-time formula)",
        "Decides the structural part of exact proportional sampling: the reported total is the sum of the rates and the "
        "mean is total/n; every two-entry row moves exactly mean - small.rate from a large item, which is refiled by "
        "comparison with the mean; leftovers of both lists get full rows; sampling is a uniform row plus one coin against "
        "the first entry; the cell-veto handler proposes at total x charge factor x speed, picks walker and bound component "
        "in the same charge-sign branch and confirms against the bound of the sampled cell and direction. Exactness of the "
        "table on concrete float vectors and the measure-zero draw 0.0 for zero-rate cells are not decided.",
        "Trusted: the enumerated idioms of Walker._build_table / sample_cell (one pairing loop, two flush loops).",
        "DESIGN.md section 3, C18"),
    "C04": (
        "normal-form extraction of every confirmation test (uniform draw vs rate) in the out-state closure of the thinning "
        "handlers; backward slices (reaching definitions across helpers and attributes) classifying each side as "
        "true-potential or bounding; control-dependence of velocity-changing calls on the accepting edge",
        "Decides for all 9 thinning handler classes and every value of the uniform draw that a proposed event is confirmed "
        "exactly when draw in [0, B) is strictly below R, with R the true potential's rate and B the rate the event was "
        "proposed with (never mixed, evaluated at the same velocity and separation), i.e. with probability max(0,R)/B when "
        "B >= R; that a non-positive true rate never accepts; and that on every rejecting path no velocity is changed. That "
        "the bounding rate dominates the true rate over the minimum-image cube (the constant 1.5837) and is positive where "
        "the true rate is positive is numerical and not decided.",
        "Trusted: classification of origins in jfsa/props/c04.py (self._potential.derivative = true rate; "
        "*bounding_potential*.derivative, bound tables and rate attributes stored while the candidate time is computed = "
        "bounding rate).",
        "DESIGN.md section 3, C04"),
    "C05": (
        "exhaustive abstract evaluation of Lifting.insert over its finite guard domain into per-cell effect sets; path "
        "counting for the lock-step of the parallel lists; sibling agreement of the three selection walks in a normal form; "
        "must-dataflow typestate reset -> insert* -> get at the use sites; pairing rule for the derivative tables; purity",
        "Decides the structure from which global balance follows for every table that sums to zero: positive rates are "
        "stacked on one interval exactly as the stacking table says for all guard combinations, non-positive ones are "
        "recorded negated with their identifier in lock-step, every scheme walks the cumulative negative rates with a "
        "position that is the recorded one, its reflection or a fresh uniform, handlers reset before filling, fill before "
        "selecting, mark exactly the active unit, pair rate and identifier of the same unit, and build the table "
        "antisymmetrically (so it sums to zero by construction); the choice depends only on the table and the draw. The "
        "balance identity itself (an integral over the uniform variable) is not decided.",
        "Trusted: role identification of the five lifting attributes; the three allowed position forms as the oracle.",
        "DESIGN.md section 3, C05"),
    "C10": (
        "set-algebra abstraction of the cell taggers' comprehensions and of the far-field table loops (domain terms over "
        "AllCells / Nearby / Occ / Surplus compared as sets); per-config family-completeness rule over all shipped .ini; "
        "mirror-closure and label-resolution checks on factor files; structural rules on the factor-map generators",
        "Decides the set-algebraic skeleton of 'each partner exactly once': the nearby-cell domain of the explicit pair "
        "tagger and the domain of the cell-bounding tagger / cell-veto walker / cell-bound tables are complements built from "
        "the same nearby_cells of the same cell system, surplus units are all treated, the veto target is the occupant list "
        "of the translated sampled cell in the tagger's own occupancy; every cell system of every shipped configuration has "
        "exactly one explicit tagger, one boundary tagger, a surplus tagger iff occupants are limited and one far-field "
        "tagger unless the potential is hard-core; factor files are mirror-closed, labels resolve, and the factor-map "
        "generators instantiate an index set once per other object (inter) or once (intra), de-duplicated. The partition on "
        "concrete float positions (cell membership) is not decided.",
        "Trusted: role identification of occupant / surplus tables from __getitem__ / yield_surplus; nearby_cells of one "
        "PeriodicCells instance is a fixed symmetric relation (C16, not decided here).",
        "DESIGN.md section 3, C10"),
    "C11": (
        "move-only (linear) accounting rules on SingleActiveCellOccupancy: cap-guarded placement sites with sibling "
        "agreement, removal pairing through the try/except idiom, reaching-definition order for the recorded cell; landing "
        "table and def-use component consistency of the cell-boundary handler; ordering rule in TagActivator",
        "Decides the bookkeeping skeleton of 'recorded exactly once in the right list': every filing is cap-guarded and "
        "identical in initialize and update, a new active unit leaves exactly one list, the previous one is re-filed once "
        "under the cell recorded for it, irrelevant units are recorded nowhere, the active cell is always recomputed from "
        "the position (also after a crossing), the boundary event lands on the neighbour's facing boundary in the same "
        "direction after a full time-slice, image shifts use the right component, and the occupancy is updated before any "
        "tagger reads it. Whether position_to_cell(position) equals the recorded cell on floats, and that no cell is left "
        "without a boundary event (event ordering), are not decided.",
        "Trusted: role identification of the occupancy tables; the accepted placement idiom `len(occupants[c]) < max or "
        "unbounded`.",
        "DESIGN.md section 3, C11"),
    "C20": (
        "must-dataflow over both run loops (sibling agreement on the component-API order); block-level typestate of the "
        "pipe protocol against a frozen stage-transition table, with guard propagation; duality rules between parent "
        "sends and worker receives; pairing rules for pre-computation, discard and drain; process lifecycle rule",
        "Decides necessary structural conditions of 'multi-process commits the same events': both mediators execute the "
        "commit protocol in the same order on every path; every pipe operation of the parent performs exactly one legal "
        "stage transition under the matching stage, the parent sends exactly when the worker's wrapper receives and the "
        "worker loop is the dual automaton; out-states are pre-computed only for argument-free handlers, a trashed "
        "handler's stored out-state is deleted and its running computation drained; the committed out-state is the one of "
        "the scheduler's handler; every worker process is registered, terminated and joined. Schedule independence and "
        "deadlock freedom as wholes (interleavings) are not decided by this family.",
        "Trusted: the stage-transition table PATTERNS in jfsa/props/c20.py and the REQUIRES table of "
        "jfsa/mediator_rules.py (frozen oracles read off the protocol); role identification of the stage table and the "
        "start / continue event tables from the Process arguments.",
        "DESIGN.md section 3, C20"),
    "C19": (
        "table agreement between __getstate__ and __setstate__ (set comparison of removed / re-created attributes and "
        "keys); ownership rule for cffi data; writer/reader agreement of the dump payload; package-wide source "
        "discipline lints for randomness, set iteration and module-level state; purity (effect) check of dumping events; "
        "config rule on dumping taggers",
        "Decides necessary structural conditions of 'resume = never interrupted': every attribute a class drops from its "
        "pickle is rebuilt (C heap, C potential with the constructor arguments of __init__, handles), no cffi data is "
        "pickled, the dumped list and the resumed tuple agree item by item and everything is restored before run(), "
        "all randomness flows through the dumped module-level generator, no set-iteration order that can differ between "
        "processes reaches the commit path, no run-time module state lives outside the dumped modules, and dumping events "
        "are pure and isolated in every shipped .ini. Bit-equality of the resumed trajectory (dill, heap layout after "
        "re-insertion, file handles) is not decided.",
        "Trusted: the frozen tables SET_ITERATION_OK / GLOBAL_OK_* in jfsa/props/c19.py (each entry confirmed by reading, "
        "one reason per line); dill pickles the setting and uuid modules as the repository relies on.",
        "DESIGN.md section 3, C19"),
    "C06": (
        "abstract interpretation of heap.c in the zone (difference-bound) domain over the clang JSON AST under a "
        "data-structure invariant; exhaustive comparison truth tables over the finite ordering domain for the C sift "
        "conditions and Time.__lt__; protocol / pairing rules on heap_scheduler.py; three-way interface agreement "
        "(cffi cdef, heap.h, heap.c) through clang",
        "Decides for every history of heap operations (any number of inserts, lazy deletions, growth across 64, 128, ...) "
        "that every heap_entries[e] access is within the allocation, no unsigned counter underflows and the invariant "
        "(size=0,length=0) or (1<=length, length+1<=size) is restored at every exit -- the clause 'the C code performs no "
        "invalid memory access'; that all time comparisons in the heap and in Time.__lt__ are exactly the strict "
        "lexicographic (quotient, remainder) order on all 9 orderings; that an event is stored with its handler's current "
        "counter, trashing increments exactly that counter, the root is discarded iff current > stored, overflow deletes "
        "before resetting, empty schedulers raise SchedulerError, pickling keeps every field and counter, and cffi sees "
        "the same signatures and struct layout as the C code. That the sift loops maintain heap order (so the returned "
        "entry is the minimum) and agreement of the schedulers on concrete histories are not decided.",
        "Trusted: clang 14 as parser; the zone transfer functions of jfsa/heapzone.py (halving <= operand, doubling >= "
        "operand + its lower bound, no wrap-around); realloc/calloc succeed; role of struct fields by position (first "
        "double = quotient, second = remainder).",
        "DESIGN.md section 3, C06"),
    "C07": (
        "must-dataflow (typestate STORED/TIME/SLICED) over send_event_time;send_out_state of all 19 handler classes with "
        "MRO-resolved helper inlining; package-wide who-may-write inventory with receiver provenance; value-provenance "
        "classification of every velocity write; shape check of the time-slice routine and of _get_new_velocity",
        "Decides on every path of every handler that a velocity is cleared, replaced or changed only after the stored "
        "state was time-sliced to the event time, and granted only with the event time as stamp (so a new trajectory "
        "starts where the old one ended); that positions are written only by constructors, the global-state setter, the "
        "role-identified time-slice routine p + v (T - t) (wrapped, guarded, stamping) and the cell-boundary snap after a "
        "full slice; that identifiers and charges are never written; that every velocity value is None, a moved/copied "
        "unit velocity, a zero vector, the configured initial velocity or a norm-preserving rotation / relocation of one; "
        "and that candidate times are built through Time.__add__ from a unit's time stamp. Monotonicity of committed "
        "times, float equality of positions and the dynamic count of moving chains are not decided.",
        "Trusted: role identification (jfsa/protocol.py Roles, jfsa/handlers.py is_time_slice_routine); the enumerated "
        "velocity provenances; loops over leaf collections run at least once (register rule only).",
        "DESIGN.md section 3, C07"),
    "C12": (
        "must-dataflow over the out-state routines of all LeavesEventHandler subclasses (facts CLEAN / REG_OK, same-block "
        "cnode pairing); structural rules on the role-identified register / commit routines; co-write rule; "
        "exhaustiveness of the getattr mode dispatch",
        "Decides on every path that a leaf velocity write is registered (for the same cnode where syntactically visible) "
        "and committed to the ancestors before the out-state is returned; that the commit time-slices a moving composite "
        "object before changing its velocity in place, stamps one that starts to move with the event time, applies each "
        "weight once and walks all ancestors and children; that velocity and time stamp become None together; and that "
        "every aim mode of the switcher has its out-state routine. Barycentre / velocity equalities on floats over "
        "histories and the random creators' geometry are not decided.",
        "Trusted: role identification of register/commit by the pending-changes dictionary; the assumption that leaf "
        "collections are non-empty.",
        "DESIGN.md section 3, C12"),
    "C13": (
        "escape/alias analysis of the extraction path (Unit constructor arguments, copy_method binding through the call "
        "graph); effect check (no writes through parameter-derived receivers) on consumers of the uncopied state; "
        "who-may-write / who-may-call chains for the global stores; completeness of insertion; move-or-copy rule",
        "Decides that every branch handed out for an identifier consists of freshly copied positions, velocities and "
        "time stamps for the node, its ancestors and all descendants; that the only consumers of the uncopied full state "
        "never write through it; that global positions and lifting dictionaries are changed only by the state setters, "
        "these only by insert_into_global_state, and that only by the commit step of the run loops; that insertion stores "
        "every field of every cnode unconditionally and recurses into all children; that handlers never mutate a stale "
        "(post-commit, aliased) state; that a velocity object is moved or copied, never shared; and the shape of the "
        "independent-active rule. Non-interference over arbitrary dynamic operation sequences is not decided.",
        "Trusted: parameter taint seeded by Node/Unit/Any annotations (jfsa/writers.py); identifiers and charges may be "
        "aliased because nothing writes them (R7.3).",
        "DESIGN.md section 3, C13"),
    "C17": (
        "must-dataflow (typestate) over the sampling / end-of-run handlers and over both mediator run loops with helper "
        "inlining; reflection-dispatch resolution table; config-graph rule on self-clocked taggers; syntactic clock rules",
        "Decides for all histories that what a sample sees is a fully time-sliced post-commit state: the sampling and "
        "end-of-run out-states store and slice the whole active state they are given, that state is exactly the extracted "
        "active global state, both run loops commit the out-state before trashing and before the mediating method on "
        "every path, the mediating methods write a fresh global state and end-of-run always raises; that the fixed-"
        "interval clocks advance by exactly one configured interval per candidate through Time.__add__ and the run ends "
        "at Time.from_float(configured end time); that the reflective get_arguments_*/mediate_* dispatch resolves "
        "uniquely with matching arity for all 19 handler classes; and that in all 19 shipped .ini files a self-clocked "
        "tagger is re-created only by itself. The number of samples and the growth of rounding are not decided.",
        "Trusted: role identification of store / time-slice routines (jfsa/protocol.py Roles); REQUIRES table of "
        "jfsa/mediator_rules.py as the oracle for the commit order; jfsa/inifront.py as a model of the factory.",
        "DESIGN.md section 3, C17"),
    "C08": (
        "abstract reachability over the tagger wiring of every shipped .ini (finite (activated, pending) state space, "
        "exhaustive) with handler facts derived by effect inference over method closures; must-dataflow (typestate) over "
        "send_event_time;send_out_state of every concrete handler",
        "Decides for all event histories of all 19 shipped configurations (any pending tagger may commit next) that no "
        "candidate of a handler that computes its time from positions/velocities survives a commit that writes a "
        "velocity, snaps a unit across a cell of its cell system, or switches the motion mode it depends on -- the "
        "property's 'no candidate survives after another event changed the motion of a unit it depends on' at tagger "
        "granularity -- and that handlers only ever mutate an in-state stored for the current event. Float equality of "
        "trajectories in concrete runs and harness-generated configurations are not decided.",
        "Trusted: the static re-implementation of base/factory.py (jfsa/inifront.py); derived handler facts (a handler is "
        "kinematics-sensitive iff send_event_time's closure reads .position/.velocity outside asserts/log calls); every "
        "sensitive in-state contains the active unit.",
        "DESIGN.md section 3, C08/C09"),
    "C09": (
        "abstract reachability over the tagger wiring of every shipped .ini (exhaustive); exact pool-demand computation "
        "from factor files; linear (move-only) resource accounting and statement-order rules on TagActivator",
        "Decides for all event histories of the 19 shipped configurations, at tagger granularity, that pending = fresh: "
        "every committing tagger trashes itself, nothing is created twice, no deactivated tagger keeps events, every "
        "activated tagger is pending after every commit, interaction taggers are re-created whenever the velocity is "
        "handed over, every tagger is reachable; that each factor-map tagger owns at least as many handlers as its "
        "factor file and the system composition can demand; and that TagActivator moves each handler exactly once "
        "between its pools, in the order activate/deactivate < internal-state update < create. Multiset equality of "
        "in-state tuples inside one tagger on concrete states is not decided.",
        "Trusted: jfsa/inifront.py as a model of the factory; the leaf-mode / root-mode demand formula of jfsa/pools.py "
        "(root mode iff the handler derives from CompositeObjectsLifting); cell-based taggers' pool sizes are left to "
        "the runtime TagActivatorError.",
        "DESIGN.md section 3, C08/C09"),
    "C14": (
        "exhaustive truth tables over the finite ordering domain (9 cells x 6 comparisons) by abstract evaluation of "
        "the comparison methods; magnitude-kind abstract interpretation of Time.__add__/from_float/__sub__/update; "
        "who-constructs / who-reads checks over the whole package",
        "Decides for all pairs of normalised times that the six comparisons equal the lexicographic (= exact rational) "
        "order; that addition routes the displacement only through remainder + displacement -> divmod(., 1.0) (finite "
        "operands only), so the result is normalised and its resolution is independent of the size of the quotient; "
        "that subtraction forms the quotient difference first; that the infinity branches return (inf, inf); and that "
        "no code outside time.py builds an unnormalised Time or does arithmetic on the parts. The ulp-level constants "
        "of the bounds are not decided.",
        "Trusted: the kind algebra in jfsa/props/c14.py (INTQ/FRAC/DISP/SMALL/DQ/ELAPSED/LOSSY) as a model of float "
        "magnitude classes; divmod(x, 1.0) returns (integer-valued, [0,1)) for finite x >= 0.",
        "DESIGN.md section 3, C14"),
    "C15": (
        "abstract interpretation (interval x congruence domain) over the AST of the boundary methods; who-may-write "
        "check on the box-length globals; sibling agreement",
        "Decides, for every float input and every positive box length, the modular-arithmetic shape of the six "
        "periodic-boundary methods of both settings: result range ([0,L) closed-open for positions, [-L/2,L/2] for "
        "separations, under sound float semantics where x % L may return L), congruence to the input modulo L, "
        "componentwise mapping with matching indices, target-minus-reference, cubic/cuboid agreement, and that every "
        "writer of the box-length globals is guarded positive and stores half = length/2. Rounding magnitudes are not "
        "decided. Found the genuine defect fixed in /repo (correct_position_entry(-1e-20) == L).",
        "Trusted: CPython float_rem semantics as modelled (result in closed [0,L], congruent to the left operand); the "
        "abstract interpreter in jfsa/ivcong.py; the enumerated idioms of the vector methods.",
        "DESIGN.md section 3, C15"),
}

NOT_APPLICABLE = {
    "C02": "numerical inverse-function identity, first-contact times and float totality over continuous inputs: no "
           "clause is visible in the shape of the code; the only structural shadow (dimensional consistency of the "
           "displacement code) is reported under C03 and would miss a wrong branch or sign (DESIGN.md C02)",
    "C16": "partition of [0,L) by float stepping and midpoint-based torus maps is a statement about float division at "
           "specific values; a static restatement of the integer index arithmetic would be a frozen fragment, not a "
           "decision of the property (DESIGN.md C16)",
}

NOT_BUILT = "check planned in DESIGN.md but not built/self-tested yet; not claimed until it is"

ALL = [f"C{i:02d}" for i in range(1, 21)]


def main() -> int:
    checks = []
    na = []
    for pid in ALL:
        have = os.path.exists(os.path.join(HERE, "jfsa", "props", pid.lower() + ".py"))
        if pid in CLAIMS and have:
            tech, text, note, ref = CLAIMS[pid]
            checks.append({
                "property_id": pid,
                "quick_cmd": f"./check {pid} --tier quick",
                "thorough_cmd": f"./check {pid} --tier thorough",
                "evidence_file": f"evidence/{pid}.json",
                "replay_cmd_template": f"./check {pid} --replay {{path}}",
                "engine": "jfsa",
                "level_claimed": {"category": "other", "text": text, "design_ref": ref},
                "level_note": note,
                "technique": "static analysis: " + tech + EXTRA_TECH.get(pid, "") + NORMAL_FORM_NOTE,
            })
        elif pid in NOT_APPLICABLE:
            na.append({"property_id": pid, "reason": NOT_APPLICABLE[pid]})
        else:
            na.append({"property_id": pid, "reason": NOT_BUILT})
    manifest = {
        "version": 1,
        "setup_cmd": "true",
        "hooks": {
            "guard": "JELLYFYSH_VERIF",
            "enable": "no hooks: the checks only read /repo's source (ast, clang -fsyntax-only, configparser); "
                      "nothing in /repo is built or run",
            "baseline_off_cmd": "cd /repo && /venv/bin/python -m pytest -ra -q -p no:cacheprovider --timeout=900 "
                                "--continue-on-collection-errors",
            "source_commits": [],
            "add_only": True,
        },
        "engines": [{
            "name": "jfsa",
            "path": "jfsa/",
            "serves_properties": [c["property_id"] for c in checks],
            "kind_free_text": "repository-specific static analysis: Python ast front end with class table / MRO / "
                              "call resolution, statement-level path and effect analyses, abstract domains (orderings, "
                              "interval x congruence, magnitude kinds, zones), .ini config-graph reachability, clang "
                              "JSON AST front end for the C sources",
        }],
        "checks": checks,
        "notes": "Technique family: static analysis only. Every check parses /repo's current working tree on each run; "
                 "nothing from /repo is imported or executed. Exit 0 = all obligations discharged, 1 = VIOLATION, "
                 "2 = ANALYSIS-ERROR (analyser cannot decide: anchor vanished / instance count below the confirmed "
                 "minimum). Thorough tier = quick tier + self-test (seeded single-edit mutants must be reported, "
                 "behaviour-preserving twins must be silent), run through an in-memory overlay, never writing /repo.",
        "not_applicable": na,
    }
    path = os.path.join(HERE, "MANIFEST.json")
    with open(path, "w") as f:
        json.dump(manifest, f, indent=1)
        f.write("\n")
    try:
        import jsonschema
        schema = json.load(open("/root/.vp/MANIFEST.schema.json"))
        jsonschema.validate(manifest, schema)
        print("MANIFEST.json valid;", len(checks), "checks,", len(na), "not applicable")
    except ImportError:
        print("jsonschema not available; not validated")
    return 0


if __name__ == "__main__":
    sys.exit(main())
