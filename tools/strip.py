#!/usr/bin/env python3
"""Print python files without docstrings (reading aid)."""
import ast,sys
def strip(path):
    src=open(path).read()
    tree=ast.parse(src)
    for n in ast.walk(tree):
        if isinstance(n,(ast.FunctionDef,ast.ClassDef,ast.Module)) and n.body and isinstance(n.body[0],ast.Expr) and isinstance(n.body[0].value,ast.Constant) and isinstance(n.body[0].value.value,str):
            n.body=n.body[1:] or [ast.Pass()]
    print("#####",path); print(ast.unparse(tree))
for p in sys.argv[1:]: strip(p)
