#!/usr/bin/env python3
"""Regenerate the seeded-change table in DESIGN.md (between the SEEDED-TABLE markers) from seeded/*/meta.json."""
import glob
import json
import os
import re

HERE = os.path.dirname(os.path.dirname(os.path.abspath(__file__)))
rows = []
SUMMARIES = json.load(open(os.path.join(HERE, "tools", "seed_summaries.json")))
for meta in sorted(glob.glob(os.path.join(HERE, "seeded", "*", "meta.json"))):
    d = json.load(open(meta))
    name = os.path.basename(os.path.dirname(meta))
    checks = d["what_was_run"]["checks_with_change_applied_to_repo"]
    own = d["property"]
    rules = []
    for pid, info in sorted(checks.items()):
        rs = sorted({re.search(r"\] (R[\w.\-]+) VIOLATED", r).group(1) for r in info["reports"] if re.search(r"\] (R[\w.\-]+) VIOLATED", r)})
        rules.append(f"{pid}: {', '.join(rs[:3])}{' …' if len(rs) > 3 else ''}" if rs else f"{pid}: exit {info['exit']}")
    summary = SUMMARIES.get(name, d.get("summary", ""))
    rows.append(f"| {name} | {own} | {summary} | {'yes' if d['detected_by_own_property_check'] else 'no'} | {'; '.join(rules) or '— (missed)'} |")
table = "| seed | property | change (see seeded/<seed>/agent_notes.md) | own check fires | checks that report it (first rules) |\n|---|---|---|---|---|\n" + "\n".join(rows)
p = os.path.join(HERE, "DESIGN.md")
s = open(p).read()
a, b = "<!-- SEEDED-TABLE-BEGIN -->", "<!-- SEEDED-TABLE-END -->"
if a in s:
    s = s[:s.index(a) + len(a)] + "\n" + table + "\n" + s[s.index(b):]
    open(p, "w").write(s)
print(table)
