#!/bin/sh
# usage: mkworktree.sh <dir>   -- scratch git worktree of /repo HEAD with the built cffi extensions copied in
set -e
d="$1"
git -C /repo worktree add --detach "$d" HEAD >/dev/null 2>&1
for f in scheduler/heap_scheduler/_heap.abi3.so potential/merged_image_coulomb_potential/_merged_image_coulomb_potential.abi3.so potential/inverse_power_coulomb_bounding_potential/_inverse_power_coulomb_bounding_potential.abi3.so; do
  cp /repo/jellyfysh/$f "$d/jellyfysh/$f"
done
echo "$d"
