#!/bin/sh
# re-run every kept seed against the current checks (demo + checks; the test-suite result of the first verification is kept)
for d in /verif/seeded/*/; do
  n=$(basename $d); P=${n%_*}; L=${n#*_}; p=$(echo $P | tr A-Z a-z)
  mkdir -p /tmp/reseed_$n; cp $d/patch.diff /tmp/reseed_$n/$L.diff; cp $d/demo.py /tmp/reseed_$n/demo_$L.py; [ -f $d/agent_notes.md ] && cp $d/agent_notes.md /tmp/reseed_$n/notes.md
  wt=/tmp/wt_$p; [ -d $wt ] || /verif/tools/mkworktree.sh $wt >/dev/null
  python3 /verif/tools/verify_seed.py $P /tmp/reseed_$n $L $wt --skip-tests 2>&1 | python3 -c "
import json,sys
d=json.load(sys.stdin); print(d['name'],'valid',d.get('valid_seed'),'own',d.get('detected_by_own_property'),'any',d.get('detected_by_any'))"
  rm -rf /tmp/reseed_$n
done
