#!/usr/bin/env python3
"""
Verify a seeded change produced by a sub-agent and record it under /verif/seeded/<name>/.

usage: verify_seed.py <PROP> <seed_dir> <letter> <worktree> [--skip-tests]

Steps (all in the scratch worktree, never in /repo, except step 4 which applies and reverts the patch in /repo):
 1. demo passes on the unchanged worktree, 2. patch applies, demo fails with it, 3. the pinned test suite passes with it,
 4. apply to /repo, run every claimed check (quick), revert /repo, record which checks reported a violation.
"""
import json
import os
import shutil
import subprocess
import sys
import time

VERIF = os.path.dirname(os.path.dirname(os.path.abspath(__file__)))


def sh(cmd, cwd=None, timeout=1800, env=None):
    p = subprocess.run(cmd, shell=True, cwd=cwd, capture_output=True, text=True, timeout=timeout, env=env)
    return p.returncode, (p.stdout + p.stderr)


def main():
    prop, seed_dir, letter, wt = sys.argv[1:5]
    skip_tests = "--skip-tests" in sys.argv
    diff = os.path.join(seed_dir, f"{letter}.diff")
    demo = os.path.join(seed_dir, f"demo_{letter}.py")
    name = f"{prop}_{letter}"
    out = {"property": prop, "name": name, "steps": {}}
    env = dict(os.environ, PYTHONPATH=wt, PYTHONDONTWRITEBYTECODE="1")
    sh("git checkout -- .", cwd=wt)
    cfiles = [l.split("b/", 1)[1].strip() for l in open(diff) if l.startswith("+++ b/") and l.strip().endswith((".c", ".h"))]
    needs_build = bool(cfiles)
    import glob
    build_cmds = []
    for cf in cfiles:
        for b in glob.glob(os.path.join(wt, os.path.dirname(cf), "*_build.py")):
            build_cmds.append("/venv/bin/python " + os.path.relpath(b, wt))
    build_cmd = " && ".join(sorted(set(build_cmds))) or "true"
    rc0, o0 = sh(f"/venv/bin/python {demo}", cwd=wt, env=env, timeout=900)
    out["steps"]["demo_unchanged"] = {"exit": rc0, "tail": o0[-400:]}
    rc, o = sh(f"git apply --check {diff} && git apply {diff}", cwd=wt)
    out["steps"]["apply"] = {"exit": rc, "tail": o[-300:]}
    if rc != 0:
        print(json.dumps(out, indent=1))
        return 2
    if needs_build:
        rcb, ob = sh(build_cmd, cwd=wt, timeout=900)
        out["steps"]["rebuild"] = {"exit": rcb, "tail": ob[-300:]}
    rc1, o1 = sh(f"/venv/bin/python {demo}", cwd=wt, env=env, timeout=900)
    out["steps"]["demo_with_change"] = {"exit": rc1, "tail": o1[-600:]}
    if not skip_tests:
        rct, ot = sh("/venv/bin/python -m pytest -q -p no:cacheprovider --timeout=900 2>&1 | tail -3", cwd=wt, timeout=3600)
        out["steps"]["tests_with_change"] = {"tail": ot[-300:], "passed_728": "728 passed" in ot and "failed" not in ot}
    sh("git checkout -- .", cwd=wt)
    sh("git clean -fdq -e '*.so'", cwd=wt)
    if needs_build:
        sh(build_cmd, cwd=wt, timeout=900)
        sh("git clean -fdq -e '*.so'", cwd=wt)
    # step 4: checks against /repo with the patch
    rc, o = sh("git status --porcelain", cwd="/repo")
    if o.strip():
        out["steps"]["repo_dirty"] = o
        print(json.dumps(out, indent=1))
        return 2
    manifest = json.load(open(os.path.join(VERIF, "MANIFEST.json")))
    fired = {}
    rc, o = sh(f"git apply {diff}", cwd="/repo")
    try:
        from concurrent.futures import ThreadPoolExecutor

        def _one(pid):
            rcc, oc = sh(f"./check {pid} --tier quick --no-evidence", cwd=VERIF, timeout=900)
            viol = [l for l in oc.splitlines() if "VIOLATED" in l or l.startswith("ANALYSIS-ERROR")]
            return pid, {"exit": rcc, "reports": [v[:400] for v in viol[:6]]}
        with ThreadPoolExecutor(int(os.environ.get("VERIFY_SEED_JOBS", "8"))) as ex:
            for pid, res in ex.map(_one, [c["property_id"] for c in manifest["checks"]]):
                fired[pid] = res
    finally:
        sh("git checkout -- .", cwd="/repo")
    out["checks_with_change"] = {k: v for k, v in fired.items() if v["exit"] != 0}
    out["detected_by_own_property"] = fired.get(prop, {}).get("exit") == 1
    out["detected_by_any"] = any(v["exit"] == 1 for v in fired.values())
    valid = rc0 == 0 and rc1 != 0 and (skip_tests or out["steps"]["tests_with_change"]["passed_728"])
    out["valid_seed"] = valid
    print(json.dumps(out, indent=1))
    if valid:
        d = os.path.join(VERIF, "seeded", name)
        os.makedirs(d, exist_ok=True)
        prev_tests = None
        if skip_tests and os.path.exists(os.path.join(d, "meta.json")):
            try:
                prev_tests = json.load(open(os.path.join(d, "meta.json")))["what_was_run"]["test_suite_with_change"]
            except Exception:
                prev_tests = None
        shutil.copy(diff, os.path.join(d, "patch.diff"))
        shutil.copy(demo, os.path.join(d, "demo.py"))
        notes = os.path.join(seed_dir, "notes.md")
        if os.path.exists(notes):
            shutil.copy(notes, os.path.join(d, "agent_notes.md"))
        meta = {
            "property": prop,
            "breaks": "see agent_notes.md (section for change %s)" % letter,
            "what_was_run": {
                "demo_on_unchanged_worktree_exit": rc0,
                "demo_with_change_exit": rc1,
                "test_suite_with_change": out["steps"].get("tests_with_change", {}).get("tail", prev_tests or "not re-run in this verification"),
                "checks_with_change_applied_to_repo": out["checks_with_change"],
            },
            "detected_by_own_property_check": out["detected_by_own_property"],
            "detected_by_any_check": out["detected_by_any"],
            "verified_at": time.strftime("%Y-%m-%dT%H:%M:%SZ", time.gmtime()),
        }
        json.dump(meta, open(os.path.join(d, "meta.json"), "w"), indent=1)
    return 0


if __name__ == "__main__":
    sys.exit(main())
