#!/usr/bin/env python3
"""Apply each given diff (or each R*.diff of a directory) to a scratch worktree of /repo, run every claimed quick check on it in parallel;
print the checks that do not exit 0.  Usage: try_refactor.py <dir-or-diff>... [--only C07,C12]"""
import glob, json, os, subprocess, sys
from concurrent.futures import ThreadPoolExecutor
VERIF = os.path.dirname(os.path.dirname(os.path.abspath(__file__)))
def sh(cmd, cwd=None):
    p = subprocess.run(cmd, shell=True, cwd=cwd, capture_output=True, text=True, timeout=900)
    return p.returncode, p.stdout + p.stderr
args = [a for a in sys.argv[1:] if not a.startswith("--")]
only = None
for a in sys.argv[1:]:
    if a.startswith("--only="):
        only = a.split("=", 1)[1].split(",")
diffs = []
for a in args:
    diffs += sorted(glob.glob(os.path.join(a, "*R*.diff"))) if os.path.isdir(a) else [a]
manifest = json.load(open(os.path.join(VERIF, "MANIFEST.json")))
pids = [c["property_id"] for c in manifest["checks"] if only is None or c["property_id"] in only]
# each diff is applied to its own scratch worktree of /repo (outside /repo and /verif, removed afterwards); /repo is not touched
import shutil, tempfile
total_bad = 0
base = tempfile.mkdtemp(prefix="jfsa_refac_")
try:
    for n, diff in enumerate(diffs):
        diff = os.path.abspath(diff)
        wt = os.path.join(base, f"w{n}")
        rc, o = sh(f"git -C /repo worktree add --detach -f {wt} HEAD -q")
        if rc != 0:
            print(f"cannot create scratch worktree: {o[:200]}")
            break
        try:
            rc, o = sh(f"git apply --check {diff} && git apply {diff}", wt)
            if rc != 0:
                print(f"{os.path.basename(diff)}: does not apply to /repo HEAD: {o.strip()[:200]}")
                continue
            bad = []

            def run(pid):
                return pid, sh(f"./check {pid} --tier quick --no-evidence --repo {wt}", VERIF)
            with ThreadPoolExecutor(16) as ex:
                for pid, (rcc, oc) in ex.map(run, pids):
                    if rcc != 0:
                        lines = [l for l in oc.splitlines() if "VIOLATED" in l or l.startswith("ANALYSIS-ERROR") or "UNDECIDED" in l or "Error" in l]
                        bad.append((pid, rcc, lines[:4]))
            total_bad += len(bad)
            print(f"{os.path.basename(os.path.dirname(diff))}/{os.path.basename(diff)}: " + ("all checks silent" if not bad else f"{len(bad)} check(s) NOT silent"))
            for pid, rcc, lines in bad:
                print(f"   {pid} exit {rcc}")
                for l in lines:
                    print("      " + l[:260])
        finally:
            sh(f"git -C /repo worktree remove --force {wt}")
finally:
    shutil.rmtree(base, ignore_errors=True)
    sh("git -C /repo worktree prune")
print(f"TOTAL not-silent: {total_bad}")
