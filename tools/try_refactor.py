#!/usr/bin/env python3
"""Apply each R*.diff of a directory to /repo, run every claimed quick check, revert; print checks that do not exit 0."""
import glob, json, os, subprocess, sys
VERIF = os.path.dirname(os.path.dirname(os.path.abspath(__file__)))
def sh(cmd, cwd=None):
    p = subprocess.run(cmd, shell=True, cwd=cwd, capture_output=True, text=True, timeout=900)
    return p.returncode, p.stdout + p.stderr
d = sys.argv[1]
manifest = json.load(open(os.path.join(VERIF, "MANIFEST.json")))
rc, o = sh("git status --porcelain", "/repo")
assert not o.strip(), "repo dirty"
for diff in sorted(glob.glob(os.path.join(d, "R*.diff"))):
    rc, o = sh(f"git apply --check {diff} && git apply {diff}", "/repo")
    if rc != 0:
        print(f"{os.path.basename(diff)}: does not apply to /repo HEAD: {o.strip()[:200]}")
        sh("git checkout -- .", "/repo")
        continue
    bad = []
    try:
        for c in manifest["checks"]:
            pid = c["property_id"]
            rcc, oc = sh(f"./check {pid} --tier quick --no-evidence", VERIF)
            if rcc != 0:
                lines = [l for l in oc.splitlines() if "VIOLATED" in l or l.startswith("ANALYSIS-ERROR") or "UNDECIDED" in l]
                bad.append((pid, rcc, lines[:4]))
    finally:
        sh("git checkout -- .", "/repo")
    print(f"{os.path.basename(diff)}: " + ("all checks silent" if not bad else f"{len(bad)} check(s) NOT silent"))
    for pid, rcc, lines in bad:
        print(f"   {pid} exit {rcc}")
        for l in lines:
            print("      " + l[:300])
