#!/usr/bin/env python3
"""Regenerate the rule inventory in DESIGN.md (between RULE-INVENTORY markers) from evidence/*.json."""
import glob, json, os
HERE = os.path.dirname(os.path.dirname(os.path.abspath(__file__)))
rows = []
for ev in sorted(glob.glob(os.path.join(HERE, "evidence", "C*.json"))):
    d = json.load(open(ev))
    cov = d["coverage"]
    rules = cov.get("rule_instances", {})
    st = cov.get("selftest")
    rows.append(f"| {d['property_id']} | {cov.get('obligations')} | {cov.get('discharged')} | {cov.get('undecided')} | "
                + ", ".join(f"{k} ({v})" for k, v in sorted(rules.items())) + " |")
table = "| property | obligations | discharged | undecided | rule instances on the pinned tree (with the two fixes) |\n|---|---|---|---|---|\n" + "\n".join(rows)
p = os.path.join(HERE, "DESIGN.md")
s = open(p).read()
a, b = "<!-- RULE-INVENTORY-BEGIN -->", "<!-- RULE-INVENTORY-END -->"
if a in s:
    s = s[:s.index(a) + len(a)] + "\n" + table + "\n" + s[s.index(b):]
    open(p, "w").write(s)
print(len(rows), "rows")
