"""
Demonstration for the known finding of property C19 (set iteration over identity-hashed Cell objects).
Harness adapted from a seeded-change demonstration.

Runs the shipped dipole cell-veto configuration (config_files/2018_JCP_149_064113/dipoles/cell_veto.ini, shortened, with
a dumping tagger added exactly as in coulomb_atoms/power_bounded_dump.ini) once with each scheduler, keeps a copy of
every dump that is written, resumes every dump in a fresh interpreter (same steps as jellyfysh/resume.py) and compares
the committed out-states bit for bit with the tail of the uninterrupted run. It also compares the run with dumping
against the same run without the dumping tagger.

Run as:  cd /tmp/wt_c19 && PYTHONPATH=/tmp/wt_c19 /venv/bin/python /tmp/seed_c19/demo_A.py
Exit code 0: property holds for all tested dumps. Exit code 1: property violated.
"""
import atexit
import configparser
import os
import pickle
import shutil
import subprocess
import sys
import tempfile

WORKTREE = os.getcwd()


def unit_repr(node, out):
    unit = node.value
    out.append((unit.identifier, tuple(unit.position),
                None if unit.velocity is None else tuple(unit.velocity),
                None if unit.time_stamp is None else (unit.time_stamp.quotient, unit.time_stamp.remainder)))
    for child in node.children:
        unit_repr(child, out)


EVENTS = []
DUMP_POSITIONS = []
DUMP_DIRECTORY = [None]
ORIGINALS = {}


def recording_insert(self, out_state):
    flat = []
    for node in out_state:
        unit_repr(node, flat)
    EVENTS.append(tuple(flat))
    return ORIGINALS["insert"](self, out_state)


def recording_write(self, mediator):
    ORIGINALS["write"](self, mediator)
    shutil.copy(self._output_filename, os.path.join(DUMP_DIRECTORY[0], "dump_{0}.dat".format(len(DUMP_POSITIONS))))
    DUMP_POSITIONS.append(len(EVENTS))


def install_recorder(workdir):
    from jellyfysh.state_handler.tree_state_handler import TreeStateHandler
    from jellyfysh.input_output_handler.output_handler.dumping_output_handler import DumpingOutputHandler
    DUMP_DIRECTORY[0] = workdir
    ORIGINALS["insert"] = TreeStateHandler.insert_into_global_state
    ORIGINALS["write"] = DumpingOutputHandler.write
    TreeStateHandler.insert_into_global_state = recording_insert
    DumpingOutputHandler.write = recording_write


def child_run(ini, workdir, seed):
    import random
    from jellyfysh.base import factory
    from jellyfysh.base.exceptions import EndOfRun
    from jellyfysh.base.strings import to_camel_case
    from jellyfysh.run import read_config
    install_recorder(workdir)
    random.seed(seed)
    config = read_config(ini)
    factory.build_from_config(config, to_camel_case(config.get("Run", "setting")), "jellyfysh.setting")
    mediator = factory.build_from_config(config, to_camel_case(config.get("Run", "mediator")), "jellyfysh.mediator")
    try:
        mediator.run()
    except EndOfRun:
        pass
    mediator.post_run()
    with open(os.path.join(workdir, "run.pkl"), "wb") as file:
        pickle.dump((EVENTS, DUMP_POSITIONS), file)


def child_resume(dump_file, workdir, out_name):
    import random
    import dill
    from jellyfysh.base.exceptions import EndOfRun
    import jellyfysh.base.uuid as uuid
    import jellyfysh.setting as setting
    install_recorder(os.path.join(workdir, "resumed"))
    os.makedirs(os.path.join(workdir, "resumed"), exist_ok=True)
    with open(dump_file, "rb") as file:
        mediator, dumped_setting, dumped_uuid, dumped_random_state = dill.load(file)
    mediator.update_logging()
    setting.__dict__.update(dumped_setting.__dict__)
    uuid.__dict__.update(dumped_uuid.__dict__)
    random.setstate(dumped_random_state)
    try:
        mediator.run()
    except EndOfRun:
        pass
    mediator.post_run()
    with open(os.path.join(workdir, out_name), "wb") as file:
        pickle.dump((EVENTS, DUMP_POSITIONS), file)


def make_ini(base, overrides, workdir, name, remove_dumping=False):
    config = configparser.ConfigParser()
    assert config.read(os.path.join(WORKTREE, "jellyfysh", base))
    for section, values in overrides.items():
        if not config.has_section(section):
            config.add_section(section)
        for key, value in values.items():
            config.set(section, key, value)
    if remove_dumping:
        taggers = config.get("TagActivator", "taggers")
        taggers = ",".join(t for t in taggers.split(",") if "dumping" not in t)
        config.set("TagActivator", "taggers", taggers)
        for section in config.sections():
            for key in ("create", "trash"):
                if config.has_option(section, key):
                    config.set(section, key, ", ".join(
                        t.strip() for t in config.get(section, key).split(",") if t.strip() != "dumping"))
        config.remove_section("Dumping")
        config.remove_section("FixedIntervalDumpingEventHandler")
        config.remove_section("DumpingOutputHandler")
        config.set("InputOutputHandler", "output_handlers", ", ".join(
            t.strip() for t in config.get("InputOutputHandler", "output_handlers").split(",")
            if t.strip() != "dumping_output_handler"))
    path = os.path.join(workdir, name)
    with open(path, "w") as file:
        config.write(file)
    return path


def spawn(script, *args):
    env = dict(os.environ, PYTHONPATH=WORKTREE)
    module = os.path.splitext(os.path.basename(script))[0]
    code = ("import sys; sys.path.insert(0, {0!r}); import {1} as m; m.child(sys.argv[1:])"
            .format(os.path.dirname(os.path.abspath(script)), module))
    result = subprocess.run([sys.executable, "-c", code] + list(args), cwd=os.path.join(WORKTREE, "jellyfysh"), env=env,
                            stdout=subprocess.PIPE, stderr=subprocess.STDOUT, text=True)
    if result.returncode != 0:
        print(result.stdout[-3000:])
        raise SystemExit("child process failed: {0}".format(args))


def load(path):
    with open(path, "rb") as file:
        return pickle.load(file)


def check(script, base, overrides, seed=1, compare_without_dumping=True, keep=False):
    workdir = tempfile.mkdtemp(prefix="c19_")
    failures = []
    try:
        ini = make_ini(base, overrides, workdir, "with_dump.ini")
        spawn(script, "run", ini, workdir, str(seed))
        events, dump_positions = load(os.path.join(workdir, "run.pkl"))
        print("original run: {0} events, dumps after event counts {1}".format(len(events), dump_positions))
        if not dump_positions:
            raise SystemExit("no dump was written")
        for index, position in enumerate(dump_positions):
            spawn(script, "resume", os.path.join(workdir, "dump_{0}.dat".format(index)), workdir,
                  "resumed_{0}.pkl".format(index))
            resumed_events, _ = load(os.path.join(workdir, "resumed_{0}.pkl".format(index)))
            expected = events[position:]
            if resumed_events != expected:
                first = next((i for i, (a, b) in enumerate(zip(resumed_events, expected)) if a != b),
                             min(len(resumed_events), len(expected)))
                failures.append("resume from dump {0}: diverges at event {1} after the dump "
                                "({2} resumed events vs {3} expected)".format(index, first, len(resumed_events),
                                                                              len(expected)))
            else:
                print("resume from dump {0}: identical ({1} events)".format(index, len(expected)))
        if compare_without_dumping:
            workdir2 = os.path.join(workdir, "nodump")
            os.makedirs(workdir2)
            ini2 = make_ini(base, overrides, workdir2, "without_dump.ini", remove_dumping=True)
            spawn(script, "run", ini2, workdir2, str(seed))
            events2, _ = load(os.path.join(workdir2, "run.pkl"))
            dump_event_indices = set(p - 1 for p in dump_positions)
            stripped = [e for i, e in enumerate(events) if i not in dump_event_indices]
            if stripped != events2:
                first = next((i for i, (a, b) in enumerate(zip(stripped, events2)) if a != b),
                             min(len(stripped), len(events2)))
                failures.append("run with dumping differs from run without dumping at event {0} ({1} vs {2} events)"
                                .format(first, len(stripped), len(events2)))
            else:
                print("run without dumping: identical ({0} events)".format(len(events2)))
    finally:
        if not keep:
            shutil.rmtree(workdir, ignore_errors=True)
    return failures


def child(argv):
    if argv[0] == "run":
        child_run(argv[1], argv[2], int(argv[3]))
    else:
        child_resume(argv[1], argv[2], argv[3])


def main(script, cases):
    failures = []
    for label, base, overrides in cases:
        print("== " + label)
        failures += ["{0}: {1}".format(label, f) for f in check(script, base, overrides)]
    if failures:
        print("PROPERTY C19 VIOLATED:")
        for failure in failures:
            print("  " + failure)
        sys.exit(1)
    print("PROPERTY C19 HOLDS for the tested dumps")
    sys.exit(0)


BASE = "config_files/2018_JCP_149_064113/coulomb_atoms/cell_bounded.ini"


def cases(n_atoms):
    out = tempfile.mkdtemp(prefix="c19out_")
    atexit.register(shutil.rmtree, out, ignore_errors=True)
    config = configparser.ConfigParser()
    assert config.read(os.path.join(WORKTREE, "jellyfysh", BASE))

    def case(scheduler):
        return ("coulomb_atoms/cell_bounded.ini with %d atoms and dumping, %s" % (n_atoms, scheduler), BASE, {
            "SingleProcessMediator": {"scheduler": scheduler},
            "TagActivator": {"taggers": config.get("TagActivator", "taggers") + ",\ndumping (no_in_state_tagger)"},
            "StartOfRun": {"create": config.get("StartOfRun", "create") + ", dumping"},
            "EndOfRun": {"trash": config.get("EndOfRun", "trash") + ", dumping"},
            "Dumping": {"create": "dumping", "trash": "dumping", "event_handler": "fixed_interval_dumping_event_handler"},
            "FixedIntervalDumpingEventHandler": {"dumping_interval": "0.7", "output_handler": "dumping_output_handler"},
            "InputOutputHandler": {"output_handlers": "separation_output_handler, dumping_output_handler"},
            "DumpingOutputHandler": {"filename": os.path.join(out, "dump.dat")},
            "FinalTimeEndOfRunEventHandler": {"end_of_run_time": "3"},
            "SeparationOutputHandler": {"filename": os.path.join(out, "sep.dat")},
            "RandomInputHandler": {"number_of_root_nodes": str(n_atoms)},
            "CoulombCellBounding": {"number_event_handlers": str(n_atoms)},
            "CoulombNearby": {"number_event_handlers": str(n_atoms)},
            "CoulombSurplus": {"number_event_handlers": str(n_atoms)},
        })
    return [case("heap_scheduler")]


if __name__ == "__main__":
    n = int(sys.argv[1]) if len(sys.argv) > 1 else 40
    main(os.path.abspath(__file__), cases(n))
