"""
Front ends of the dimensional analysis (R3.2): constraint generation from the Python potentials (per instance context, so
that sub-potentials built with concrete powers are typed on their own) and from the C potentials (clang AST), linked at
the cffi call sites.
"""
import ast
from fractions import Fraction
from typing import Any, Dict, List, Optional, Tuple

from .cfront import CNode, CUnit, strip, text
from .core import Source, norm
from .dims import DIMLESS, ONE, RF, ZERO, Solver, Term, dim, show_dim
from .pyfront import ClassInfo, Program, body_without_docstring, param_names, self_attr

L_, E_, T_ = dim(L=1), dim(E=1), dim(T=1)
VEL = dim(L=1, T=-1)
RETURN_CONTRACT = {
    "derivative": dim(E=1, T=-1), "standard_velocity_derivative": dim(E=1, L=-1), "displacement": dim(T=1),
    "standard_velocity_displacement": dim(L=1), "_potential": dim(E=1), "potential": dim(E=1),
}


def param_contract(name: str) -> Optional[List[RF]]:
    n = name.lower()
    if "separation" in n:
        return L_
    if n == "velocity":
        return VEL
    if n == "speed":
        return VEL
    if "potential_change" in n or n in ("potential", "current_potential"):
        return E_
    if "charge" in n or n in ("direction", "translation_direction", "main_direction") or "angle" in n or "power" in n or "cutoff" in n:
        return dim()
    if "length" in n or "radius" in n:
        return L_
    return None


class V:
    """abstract value: dimension term of a scalar (or of every element of a vector), numeric value if known, object"""
    __slots__ = ("t", "val", "obj", "elems", "poly0")

    def __init__(self, t: Optional[Term] = None, val: Optional[RF] = None, obj=None, elems: Optional[List["V"]] = None, poly0: bool = False):
        self.t, self.val, self.obj, self.elems, self.poly0 = t, val, obj, elems, poly0


class Instance:
    def __init__(self, cls: ClassInfo, ctx: str) -> None:
        self.cls, self.ctx = cls, ctx
        self.attrs: Dict[str, V] = {}
        self.methods_done: Dict[str, bool] = {}


class PyDims:
    def __init__(self, prog: Program, solver: Solver, src: Source) -> None:
        self.prog, self.solver, self.src = prog, solver, src
        self.cunits: Dict[str, "CDims"] = {}
        self.unknown: List[str] = []
        self.depth = 0

    # -- instances ------------------------------------------------------------------------------------------------
    def new_instance(self, cls: ClassInfo, ctx: str, bindings: Dict[str, V]) -> Instance:
        inst = Instance(cls, ctx)
        self._init(inst, cls, bindings, set())
        return inst

    def _init(self, inst: Instance, cls: ClassInfo, bindings: Dict[str, V], done: set) -> None:
        r = None
        for c in self.prog.mro(cls):
            if "__init__" in c.methods and c.qual not in done:
                r = (c, c.methods["__init__"])
                break
        if r is None:
            return
        owner, fn = r
        done.add(owner.qual)
        env: Dict[str, V] = {}
        args = fn.args
        pos = [a for a in args.posonlyargs + args.args if a.arg != "self"]
        defaults = [None] * (len(pos) - len(args.defaults)) + list(args.defaults)
        for a, d in zip(pos, defaults):
            if a.arg in bindings:
                env[a.arg] = bindings[a.arg]
            else:
                env[a.arg] = self.fresh_param(inst, owner, a.arg, d)
        passthrough = dict(bindings)
        def run(stmts) -> None:
            for st in stmts:
                # constructor statements wherever they sit (validation written as guard clause or as if / else)
                if isinstance(st, (ast.If, ast.Try, ast.With, ast.For)):
                    for fld in ("body", "orelse", "finalbody"):
                        run(getattr(st, fld, None) or [])
                    if isinstance(st, ast.Try):
                        for h in st.handlers:
                            run(h.body)
                    continue
                calls = [c for c in ast.walk(st) if isinstance(c, ast.Call) and isinstance(c.func, ast.Attribute) and c.func.attr == "__init__"
                         and isinstance(c.func.value, ast.Call) and norm(c.func.value.func) == "super"]
                if calls:
                    nb = dict(passthrough)
                    for k in calls[0].keywords:
                        if k.arg:
                            nb[k.arg] = self.ev(k.value, env, inst, fn, "__init__")
                    self._init_parent(inst, owner, nb, done)
                    continue
                if isinstance(st, ast.Assign) and self_attr(st.targets[0]):
                    inst.attrs[self_attr(st.targets[0])] = self.ev(st.value, env, inst, fn, "__init__", owner)
                elif isinstance(st, ast.Assign) and isinstance(st.targets[0], ast.Name):
                    env[st.targets[0].id] = self.ev(st.value, env, inst, fn, "__init__", owner)
        run(body_without_docstring(fn))

    def _init_parent(self, inst: Instance, owner: ClassInfo, bindings: Dict[str, V], done: set) -> None:
        mro = self.prog.mro(inst.cls)
        idx = mro.index(owner) if owner in mro else -1
        for c in mro[idx + 1:]:
            if "__init__" in c.methods and c.qual not in done:
                self._init(inst, c, bindings, done | {x.qual for x in mro[:idx + 1]})
                done.add(c.qual)
                return

    def fresh_param(self, inst: Instance, owner: ClassInfo, name: str, default: Optional[ast.AST]) -> V:
        if "power" in name:
            return V(DIMLESS, RF.p())
        c = param_contract(name)
        if c is not None:
            return V(Term.known(c))
        return V(Term.var(f"{inst.ctx}.{name}"))

    # -- methods ----------------------------------------------------------------------------------------------------
    def method(self, inst: Instance, name: str) -> None:
        if name in inst.methods_done:
            return
        inst.methods_done[name] = True
        r = self.prog.resolve_method(inst.cls, name)
        if r is None:
            return
        owner, fn = r
        if any(isinstance(s, ast.Raise) for s in body_without_docstring(fn)[:1]):
            return
        env: Dict[str, V] = {}
        for p in param_names(fn):
            var = Term.var(f"{inst.ctx}.{name}.{p}")
            c = param_contract(p)
            if c is not None:
                self.solver.equal(var, Term.known(c), (owner.file, fn.lineno, f"{owner.name}.{name}"), f"parameter {p}")
            env[p] = V(var)
        if name in RETURN_CONTRACT:
            self.solver.equal(self.ret_var(inst, name), Term.known(RETURN_CONTRACT[name]), (owner.file, fn.lineno, f"{owner.name}.{name}"),
                              f"return contract of {name}")
        elif name.startswith("_invert_potential") or name.startswith("_displacement_") or name.startswith("displacement_until"):
            self.solver.equal(self.ret_var(inst, name), Term.known(L_), (owner.file, fn.lineno, f"{owner.name}.{name}"), f"return contract of {name}")
        self.depth += 1
        try:
            if self.depth < 10:
                self.block(body_without_docstring(fn), env, inst, fn, name, owner)
        finally:
            self.depth -= 1

    def ret_var(self, inst: Instance, name: str, i: Optional[int] = None) -> Term:
        return Term.var(f"{inst.ctx}.{name}.return" + (f"[{i}]" if i is not None else ""))

    def origin(self, owner: ClassInfo, node: ast.AST, mname: str):
        return (owner.file, getattr(node, "lineno", 0), f"{owner.name}.{mname}")

    def block(self, stmts, env, inst, fn, mname, owner) -> None:
        for s in stmts:
            if isinstance(s, (ast.Assert, ast.Pass, ast.Raise)) or (isinstance(s, ast.Expr) and isinstance(s.value, ast.Constant)):
                continue
            if isinstance(s, ast.Return):
                if s.value is None:
                    continue
                v = self.ev(s.value, env, inst, fn, mname, owner)
                if v.elems is not None:
                    for i, e in enumerate(v.elems):
                        if e.t is not None:
                            self.solver.equal(e.t, self.ret_var(inst, mname, i), self.origin(owner, s, mname), f"return {norm(s.value)} [{i}]")
                elif v.t is not None and not v.poly0:
                    self.solver.equal(v.t, self.ret_var(inst, mname), self.origin(owner, s, mname), f"return {norm(s.value)}")
                continue
            if isinstance(s, ast.Assign) and len(s.targets) == 1:
                v = self.ev(s.value, env, inst, fn, mname, owner)
                self.assign(s.targets[0], v, env, inst, fn, mname, owner, s)
                continue
            if isinstance(s, ast.AugAssign):
                cur = self.ev(s.target, env, inst, fn, mname, owner)
                v = self.ev(s.value, env, inst, fn, mname, owner)
                if isinstance(s.op, (ast.Add, ast.Sub)):
                    if cur.t is not None and v.t is not None and not v.poly0 and not cur.poly0:
                        self.solver.equal(cur.t, v.t, self.origin(owner, s, mname), norm(s))
                    elif cur.poly0 and isinstance(s.target, ast.Name) and v.t is not None:
                        env[s.target.id] = V(v.t)
                elif isinstance(s.op, (ast.Mult, ast.Div)) and v.t is not None:
                    self.solver.equal(v.t, DIMLESS, self.origin(owner, s, mname), norm(s))
                continue
            if isinstance(s, ast.If):
                self.ev(s.test, env, inst, fn, mname, owner)
                self.block(s.body, env, inst, fn, mname, owner)
                self.block(s.orelse, env, inst, fn, mname, owner)
                continue
            if isinstance(s, ast.Try):
                self.block(s.body, env, inst, fn, mname, owner)
                for h in s.handlers:
                    self.block(h.body, env, inst, fn, mname, owner)
                continue
            if isinstance(s, ast.For):
                it = self.ev(s.iter, env, inst, fn, mname, owner)
                self.assign(s.target, V(it.t) if it.elems is None else (it.elems[0] if it.elems else V()), env, inst, fn, mname, owner, s)
                self.block(s.body, env, inst, fn, mname, owner)
                continue
            if isinstance(s, ast.Expr):
                self.ev(s.value, env, inst, fn, mname, owner)

    def assign(self, target, v: V, env, inst, fn, mname, owner, stmt) -> None:
        if isinstance(target, ast.Name):
            if target.id in env and env[target.id].t is not None and v.t is not None and not v.poly0 and not env[target.id].poly0 \
                    and env[target.id].elems is None and v.elems is None:
                self.solver.equal(env[target.id].t, v.t, self.origin(owner, stmt, mname), norm(stmt))
                if env[target.id].val is not None and v.val is None:
                    env[target.id] = V(env[target.id].t)
            else:
                env[target.id] = v
        elif isinstance(target, ast.Tuple):
            for i, e in enumerate(target.elts):
                sub = v.elems[i] if v.elems is not None and i < len(v.elems) else V(v.t)
                self.assign(e, sub, env, inst, fn, mname, owner, stmt)
        elif isinstance(target, ast.Attribute) and self_attr(target) is not None:
            a = self_attr(target)
            if v.elems is not None or v.obj is not None:
                inst.attrs.setdefault(a, v)
            elif a not in inst.attrs or inst.attrs[a].t is None:
                if v.t is not None and not v.poly0:
                    var = Term.var(f"{inst.ctx}.attr.{a}")
                    self.solver.equal(var, v.t, self.origin(owner, stmt, mname), norm(stmt))
                    inst.attrs[a] = V(var, v.val)
            elif v.t is not None and not v.poly0 and inst.attrs[a].elems is None:
                self.solver.equal(inst.attrs[a].t, v.t, self.origin(owner, stmt, mname), norm(stmt))
        elif isinstance(target, ast.Subscript):
            cur = self.ev(target.value, env, inst, fn, mname, owner)
            if cur.t is not None and v.t is not None and not v.poly0:
                self.solver.equal(cur.t, v.t, self.origin(owner, stmt, mname), norm(stmt))

    # -- expressions ------------------------------------------------------------------------------------------------
    def ev(self, e: ast.AST, env, inst: Instance, fn, mname: str, owner: Optional[ClassInfo] = None) -> V:
        owner = owner or inst.cls
        if isinstance(e, ast.Constant):
            if isinstance(e.value, bool) or e.value is None:
                return V()
            if isinstance(e.value, (int, float)):
                if e.value == 0:
                    return V(DIMLESS, RF(0), poly0=True)
                if abs(e.value) < 1e-9:
                    return V(DIMLESS, None, poly0=True)  # numerical tolerance: compared with quantities of any dimension
                return V(DIMLESS, RF(Fraction(e.value).limit_denominator(10 ** 6)))
            return V()
        if isinstance(e, ast.Name):
            return env.get(e.id, V())
        if isinstance(e, ast.Attribute):
            a = self_attr(e)
            if a is not None:
                if a in inst.attrs:
                    return inst.attrs[a]
                if "inf" in a:
                    return V(DIMLESS, None, poly0=True)
                return V()
            t = norm(e)
            if t == "setting.system_length":
                return V(Term.known(L_))
            if t == "setting.beta":
                return V(Term.known(dim(E=-1)))
            if t in ("setting.dimension", "math.pi"):
                return V(DIMLESS)
            if t.endswith("._inf"):
                return V(DIMLESS, None, poly0=True)
            return V()
        if isinstance(e, ast.UnaryOp):
            v = self.ev(e.operand, env, inst, fn, mname, owner)
            if isinstance(e.op, ast.USub) and v.val is not None:
                return V(v.t, -v.val, poly0=v.poly0)
            return V(v.t, None, poly0=v.poly0, elems=v.elems)
        if isinstance(e, ast.BinOp):
            a = self.ev(e.left, env, inst, fn, mname, owner)
            b = self.ev(e.right, env, inst, fn, mname, owner)
            if isinstance(e.op, (ast.Add, ast.Sub)):
                if a.t is not None and b.t is not None and not a.poly0 and not b.poly0:
                    self.solver.equal(a.t, b.t, self.origin(owner, e, mname), norm(e))
                val = None
                if a.val is not None and b.val is not None:
                    val = a.val + b.val if isinstance(e.op, ast.Add) else a.val - b.val
                t = a.t if (a.t is not None and not a.poly0) else b.t
                return V(t, val, poly0=a.poly0 and b.poly0)
            if isinstance(e.op, ast.Mult):
                t = a.t + b.t if a.t is not None and b.t is not None else None
                val = a.val * b.val if a.val is not None and b.val is not None else None
                return V(t, val, poly0=a.poly0 or b.poly0)
            if isinstance(e.op, (ast.Div, ast.FloorDiv)):
                t = a.t - b.t if a.t is not None and b.t is not None else None
                val = a.val / b.val if a.val is not None and b.val is not None and not b.val.is_zero() else None
                return V(t, val, poly0=a.poly0)
            if isinstance(e.op, ast.Pow):
                if b.val is not None and a.t is not None:
                    val = None
                    if a.val is not None and b.val.const_value() is not None and b.val.const_value().denominator == 1 and abs(b.val.const_value()) < 8:
                        k = int(b.val.const_value())
                        val = ONE
                        for _ in range(abs(k)):
                            val = val * a.val
                        if k < 0:
                            val = val.inv()
                    return V(a.t.scale(b.val), val)
                if a.t is not None:
                    self.solver.equal(a.t, DIMLESS, self.origin(owner, e, mname), f"{norm(e)}: base of a non-numeric power")
                    return V(DIMLESS)
                return V()
            if isinstance(e.op, ast.Mod):
                return V(a.t)
            return V()
        if isinstance(e, ast.IfExp):
            self.ev(e.test, env, inst, fn, mname, owner)
            a = self.ev(e.body, env, inst, fn, mname, owner)
            b = self.ev(e.orelse, env, inst, fn, mname, owner)
            if a.t is not None and b.t is not None and not a.poly0 and not b.poly0 and a.elems is None and b.elems is None:
                self.solver.equal(a.t, b.t, self.origin(owner, e, mname), norm(e))
            return a if not a.poly0 else b
        if isinstance(e, ast.Compare):
            vals = [self.ev(x, env, inst, fn, mname, owner) for x in [e.left] + list(e.comparators)]
            for (x, y), op in zip(zip(vals, vals[1:]), e.ops):
                if isinstance(op, (ast.In, ast.NotIn, ast.Is, ast.IsNot)):
                    continue  # membership relates a key to a container (a dictionary's values have another dimension); identity none
                if x.t is not None and y.t is not None and not x.poly0 and not y.poly0 and x.elems is None and y.elems is None:
                    self.solver.equal(x.t, y.t, self.origin(owner, e, mname), norm(e))
            return V(DIMLESS)
        if isinstance(e, ast.BoolOp):
            for x in e.values:
                self.ev(x, env, inst, fn, mname, owner)
            return V(DIMLESS)
        if isinstance(e, ast.Subscript):
            v = self.ev(e.value, env, inst, fn, mname, owner)
            self.ev(e.slice, env, inst, fn, mname, owner)
            if v.elems is not None:
                if isinstance(e.slice, ast.Constant) and isinstance(e.slice.value, int) and e.slice.value < len(v.elems):
                    return v.elems[e.slice.value]
                return v.elems[0] if v.elems else V()
            return V(v.t)
        if isinstance(e, (ast.Tuple, ast.List)):
            return V(elems=[self.ev(x, env, inst, fn, mname, owner) for x in e.elts])
        if isinstance(e, (ast.GeneratorExp, ast.ListComp)):
            env2 = dict(env)
            for g in e.generators:
                it = self.ev(g.iter, env2, inst, fn, mname, owner)
                is_enum = isinstance(g.iter, ast.Call) and norm(g.iter.func) == "enumerate"
                elem = V(it.t) if it.elems is None else (it.elems[0] if it.elems else V())
                if isinstance(g.target, ast.Name):
                    env2[g.target.id] = elem
                elif isinstance(g.target, ast.Tuple):
                    for k, t in enumerate(g.target.elts):
                        if isinstance(t, ast.Name):
                            env2[t.id] = V(DIMLESS) if (is_enum and k == 0) else elem
                for c in g.ifs:
                    self.ev(c, env2, inst, fn, mname, owner)
            v = self.ev(e.elt, env2, inst, fn, mname, owner)
            return V(v.t)
        if isinstance(e, ast.Starred):
            return self.ev(e.value, env, inst, fn, mname, owner)
        if isinstance(e, ast.Call):
            return self.call(e, env, inst, fn, mname, owner)
        return V()

    def call(self, e: ast.Call, env, inst: Instance, fn, mname: str, owner: ClassInfo) -> V:
        f = e.func
        name = norm(f)
        short = name.split(".")[-1]
        args = [self.ev(a, env, inst, fn, mname, owner) for a in e.args]
        org = self.origin(owner, e, mname)
        if short == "sqrt" and args:
            return V(args[0].t.scale(RF(Fraction(1, 2))) if args[0].t is not None else None)
        if short in ("acos", "cos", "sin", "exp", "log", "erfc", "tan"):
            if args and args[0].t is not None:
                self.solver.equal(args[0].t, DIMLESS, org, f"argument of {short} must be dimensionless: {norm(e)}")
            return V(DIMLESS)
        if short in ("abs", "fabs", "float", "copy", "sum", "tuple", "list", "sorted", "iter"):
            if short == "float" and e.args and isinstance(e.args[0], ast.Constant) and isinstance(e.args[0].value, str):
                return V(DIMLESS, None, poly0=True)
            return V(args[0].t if args else None, elems=args[0].elems if args and short in ("tuple", "list") else None)
        if short in ("max", "min"):
            base = next((a for a in args if a.t is not None and not a.poly0), None)
            for a in args:
                if base is not None and a is not base and a.t is not None and not a.poly0:
                    self.solver.equal(base.t, a.t, org, norm(e))
            return V(base.t if base else None)
        if short in ("range", "len", "enumerate", "zip", "int", "isnan", "isinf"):
            if short == "enumerate" and args:
                return V(args[0].t)
            if short == "zip" and args:
                return V(elems=[V(a.t) for a in args])
            return V(DIMLESS)
        if short == "norm" and args:
            return V(args[0].t)
        if short == "norm_sq" and args:
            return V(args[0].t.scale(RF(2)) if args[0].t is not None else None)
        if short == "dot" and len(args) == 2:
            return V(args[0].t + args[1].t if args[0].t is not None and args[1].t is not None else None)
        if short in ("permutation_3d", "copy_vector_with_replaced_component"):
            if short.startswith("copy_vector") and len(args) == 3 and args[0].t is not None and args[2].t is not None and not args[2].poly0:
                self.solver.equal(args[0].t, args[2].t, org, norm(e))
            return V(args[0].t if args else None)
        if short.startswith("displacement_until_new_norm_sq") and len(args) >= 2:
            if args[0].t is not None and args[1].t is not None:
                self.solver.equal(args[0].t.scale(RF(2)), args[1].t, org, f"{norm(e)}: the new squared norm must be a squared length")
            return V(args[0].t)
        if short == "normalize" and args:
            return V(args[1].t if len(args) > 1 else DIMLESS)
        # cffi
        if short.startswith("_lib_") or name.startswith("lib."):
            cfn = short[len("_lib_"):] if short.startswith("_lib_") else short
            cd = self.cunit_for(owner)
            if cd is not None and cfn in cd.unit.functions:
                flat: List[V] = []
                for a, node in zip(args, e.args):
                    if isinstance(node, ast.Starred):
                        flat.extend([V(a.t)] * 3)
                    else:
                        flat.append(a)
                cd.function(cfn)
                for p, a in zip(cd.unit.params(cfn), flat):
                    if a.t is not None and not a.poly0:
                        self.solver.equal(a.t, cd.var(cfn, p), org, f"argument `{p}` of the C function {cfn}: {norm(e)}")
                return V(cd.var(cfn, "return"))
            return V()
        # constructors of other potentials
        if isinstance(f, ast.Name):
            ci = self.prog.resolve_class(owner.module, f.id)
            if ci is not None and self.prog.is_subclass(ci, "Potential"):
                b: Dict[str, V] = {}
                for k in e.keywords:
                    if k.arg:
                        b[k.arg] = self.ev(k.value, env, inst, fn, mname, owner)
                sub = self.new_instance(ci, f"{inst.ctx}/{f.id}@{e.lineno}", b)
                for m in ("standard_velocity_derivative", "potential", "standard_velocity_displacement"):
                    self.method(sub, m)
                return V(obj=sub)
        # methods on self / sub objects
        if isinstance(f, ast.Attribute):
            recv = self.ev(f.value, env, inst, fn, mname, owner)
            target: Optional[Instance] = recv.obj
            if isinstance(f.value, ast.Name) and f.value.id == "self":
                target = inst
            if isinstance(target, Instance):
                r = self.prog.resolve_method(target.cls, f.attr)
                if r is not None:
                    self.method(target, f.attr)
                    ps = param_names(r[1])
                    for p, a, node in zip(ps, args, e.args):
                        if isinstance(node, ast.Starred):
                            break
                        if a.t is not None and not a.poly0 and a.elems is None:
                            self.solver.equal(a.t, Term.var(f"{target.ctx}.{f.attr}.{p}"), org, f"argument `{p}` of {f.attr}: {norm(e)}")
                    for k in e.keywords:
                        if k.arg in ps:
                            a = self.ev(k.value, env, inst, fn, mname, owner)
                            if a.t is not None and not a.poly0:
                                self.solver.equal(a.t, Term.var(f"{target.ctx}.{f.attr}.{k.arg}"), org, f"argument `{k.arg}` of {f.attr}")
                    rets = [x for x in ast.walk(r[1]) if isinstance(x, ast.Return) and isinstance(x.value, ast.Tuple)]
                    if rets:
                        return V(elems=[V(self.ret_var(target, f.attr, i)) for i in range(len(rets[0].value.elts))])
                    return V(self.ret_var(target, f.attr))
        return V()

    def cunit_for(self, owner: ClassInfo) -> Optional["CDims"]:
        base = owner.file[:-3]
        rel = base + ".c"
        if rel in self.cunits:
            return self.cunits[rel]
        if not self.src.exists(rel):
            return None
        self.cunits[rel] = CDims(CUnit(self.src, rel), self.solver, rel)
        return self.cunits[rel]


# ---------------------------------------------------------------------------------------------------------------------
# C front end
# ---------------------------------------------------------------------------------------------------------------------
C_PARAM_CONTRACT = {"sx": L_, "sy": L_, "sz": L_, "system_length": L_, "potential_change": E_}
C_RETURN_CONTRACT = {"potential": E_, "displacement": L_}


class CDims:
    def __init__(self, unit: CUnit, solver: Solver, rel: str) -> None:
        self.unit, self.solver, self.rel = unit, solver, rel
        self.done: Dict[str, bool] = {}
        self.struct_fields: Dict[str, List[str]] = {r: [f.split()[-1] for f in unit.fields(r)] for r in unit.records}

    def var(self, fn: str, name: str) -> Term:
        return Term.var(f"{self.rel}:{fn}.{name}")

    def field(self, name: str) -> Term:
        return Term.var(f"{self.rel}:field.{name}")

    def function(self, fname: str) -> None:
        if fname in self.done or fname not in self.unit.functions:
            return
        self.done[fname] = True
        fn = self.unit.functions[fname]
        env: Dict[str, Optional[Term]] = {}
        for c in fn.children:
            if c.kind == "ParmVarDecl":
                p = c.props.get("name")
                ty = c.props.get("type") or ""
                if "*" in ty:
                    env[p] = None
                    continue
                if ty.strip() in ("int", "unsigned int", "uint", "size_t"):
                    env[p] = DIMLESS
                    self.solver.equal(self.var(fname, p), DIMLESS, (self.rel, c.line, fname), f"integer parameter {p}")
                    continue
                env[p] = self.var(fname, p)
                if p in C_PARAM_CONTRACT:
                    self.solver.equal(env[p], Term.known(C_PARAM_CONTRACT[p]), (self.rel, c.line, fname), f"parameter {p}")
        if fname in C_RETURN_CONTRACT:
            self.solver.equal(self.var(fname, "return"), Term.known(C_RETURN_CONTRACT[fname]), (self.rel, fn.line, fname), f"return contract of {fname}")
        self.stmt(self.unit.body(fname), env, fname)

    def stmt(self, n: CNode, env, fname: str) -> None:
        k = n.kind
        if k == "CompoundStmt":
            for c in n.children:
                self.stmt(c, env, fname)
        elif k == "DeclStmt":
            for d in n.children:
                if d.kind == "VarDecl":
                    name = d.props.get("name")
                    ty = d.props.get("type") or ""
                    if ty.strip() in ("int", "unsigned int", "uint"):
                        env[name] = DIMLESS
                        for c in d.children:
                            self.ev(c, env, fname)
                        continue
                    if "*" in ty:
                        env[name] = None
                        for c in d.children:
                            self.ev(c, env, fname)
                        continue
                    if ty.startswith("struct") and d.children and strip(d.children[-1]).kind == "InitListExpr":
                        rname = ty.replace("struct", "").strip()
                        fields = self.struct_fields.get(rname, [])
                        for fld, init in zip(fields, strip(d.children[-1]).children):
                            t = self.ev(init, env, fname)
                            if t is not None and not self._is_zero(init):
                                self.solver.equal(self.field(fld), t, (self.rel, init.line, fname), f"field {fld} = {text(init)}")
                        env[name] = None
                        continue
                    env[name] = self.var(fname, name)
                    if d.children:
                        t = self.ev(d.children[-1], env, fname)
                        if t is not None and not self._is_zero(d.children[-1]):
                            self.solver.equal(env[name], t, (self.rel, d.line, fname), f"{name} = {text(d.children[-1])}")
        elif k == "IfStmt":
            self.ev(n.children[0], env, fname)
            for c in n.children[1:]:
                self.stmt(c, env, fname)
        elif k in ("WhileStmt",):
            self.ev(n.children[0], env, fname)
            self.stmt(n.children[1], env, fname)
        elif k == "ForStmt":
            for c in n.children[:-1]:
                if c.kind == "DeclStmt":
                    self.stmt(c, env, fname)
                else:
                    self.ev(c, env, fname)
            self.stmt(n.children[-1], env, fname)
        elif k == "ReturnStmt":
            if n.children:
                t = self.ev(n.children[0], env, fname)
                if t is not None and not self._is_zero(n.children[0]):
                    self.solver.equal(self.var(fname, "return"), t, (self.rel, n.line, fname), f"return {text(n.children[0])}")
        elif k in ("NullStmt", "ContinueStmt", "BreakStmt"):
            pass
        else:
            self.ev(n, env, fname)

    def _is_zero(self, n: CNode) -> bool:
        n = strip(n)
        return n.kind in ("IntegerLiteral", "FloatingLiteral") and float(n.props.get("value", "1")) == 0.0

    def _num(self, n: CNode) -> Optional[Fraction]:
        n = strip(n)
        if n.kind in ("IntegerLiteral", "FloatingLiteral"):
            try:
                return Fraction(float(n.props.get("value"))).limit_denominator(10 ** 6)
            except (TypeError, ValueError):
                return None
        if n.kind == "BinaryOperator" and n.props.get("opcode") in ("/", "*", "+", "-"):
            a, b = self._num(n.children[0]), self._num(n.children[1])
            if a is not None and b is not None:
                op = n.props["opcode"]
                if op == "/" and b != 0:
                    return a / b
                if op == "*":
                    return a * b
                if op == "+":
                    return a + b
                if op == "-":
                    return a - b
        if n.kind == "UnaryOperator" and n.props.get("opcode") == "-":
            a = self._num(n.children[0])
            return -a if a is not None else None
        return None

    def ev(self, n: CNode, env, fname: str) -> Optional[Term]:
        n = strip(n)
        k = n.kind
        org = (self.rel, n.line, fname)
        if k in ("IntegerLiteral", "FloatingLiteral"):
            return DIMLESS
        if k == "DeclRefExpr":
            name = n.props.get("ref")
            if name in ("M_PI",):
                return DIMLESS
            return env.get(name, None) if name in env else None
        if k == "MemberExpr":
            fld = n.props.get("name")
            base = strip(n.children[0])
            ty = n.props.get("type") or ""
            if "*" in ty:
                return None
            if ty.strip().replace("const ", "") in ("int", "unsigned int", "uint"):
                return DIMLESS
            return self.field(fld)
        if k == "ArraySubscriptExpr":
            self.ev(n.children[1], env, fname)
            return Term.var(f"{self.rel}:array.{text(n.children[0]).split('[')[0].split('->')[-1]}")
        if k == "UnaryOperator":
            op = n.props.get("opcode")
            t = self.ev(n.children[0], env, fname)
            if op in ("-", "+", "++", "--"):
                return t
            if op == "!":
                return DIMLESS
            return t
        if k in ("BinaryOperator", "CompoundAssignOperator"):
            op = n.props.get("opcode")
            a = self.ev(n.children[0], env, fname)
            b = self.ev(n.children[1], env, fname)
            za, zb = self._is_zero(n.children[0]), self._is_zero(n.children[1])
            if op in ("+", "-", "=", "+=", "-=", "<", "<=", ">", ">=", "==", "!="):
                if a is not None and b is not None and not za and not zb:
                    self.solver.equal(a, b, org, text(n))
                if op in ("<", "<=", ">", ">=", "==", "!="):
                    return DIMLESS
                return a if (a is not None and not za) else b
            if op in ("*", "*="):
                if op == "*=" and b is not None:
                    self.solver.equal(b, DIMLESS, org, text(n))
                return a + b if a is not None and b is not None else None
            if op in ("/", "/="):
                return a - b if a is not None and b is not None else None
            if op in ("&&", "||"):
                return DIMLESS
            return None
        if k == "ConditionalOperator":
            self.ev(n.children[0], env, fname)
            a = self.ev(n.children[1], env, fname)
            b = self.ev(n.children[2], env, fname)
            if a is not None and b is not None and not self._is_zero(n.children[1]) and not self._is_zero(n.children[2]):
                self.solver.equal(a, b, org, text(n))
            return a if a is not None else b
        if k == "CallExpr":
            callee = text(n.children[0])
            args = [self.ev(c, env, fname) for c in n.children[1:]]
            if callee == "sqrt":
                return args[0].scale(RF(Fraction(1, 2))) if args and args[0] is not None else None
            if callee == "pow" and len(args) == 2:
                kk = self._num(n.children[2])
                if kk is not None and args[0] is not None:
                    return args[0].scale(RF(kk))
                if args[0] is not None:
                    self.solver.equal(args[0], DIMLESS, org, f"{text(n)}: base of a non-numeric power")
                return DIMLESS
            if callee in ("erfc", "exp", "cos", "sin", "log", "erf"):
                if args and args[0] is not None:
                    self.solver.equal(args[0], DIMLESS, org, f"argument of {callee} must be dimensionless: {text(n)}")
                return DIMLESS
            if callee in ("fabs",):
                return args[0] if args else None
            if callee == "floor":
                if args and args[0] is not None:
                    self.solver.equal(args[0], DIMLESS, org, f"argument of floor must be a pure number: {text(n)}")
                return DIMLESS
            if callee == "fmod" and len(args) == 2:
                if args[0] is not None and args[1] is not None:
                    self.solver.equal(args[0], args[1], org, text(n))
                return args[0]
            if callee in self.unit.functions:
                self.function(callee)
                for p, a, node in zip(self.unit.params(callee), args, n.children[1:]):
                    if a is not None and not self._is_zero(node):
                        self.solver.equal(a, self.var(callee, p), org, f"argument `{p}` of {callee}: {text(n)}")
                return self.var(callee, "return")
            return None
        if k in ("CompoundLiteralExpr", "InitListExpr", "UnaryExprOrTypeTraitExpr"):
            return None
        for c in n.children:
            self.ev(c, env, fname)
        return None
