"""
Path conditions: the set of atomic conditions under which a node inside a statement list is executed, independent of how the
control flow is written (nested ifs, `and`-ed tests, guard clauses with continue / return / raise, negated tests, else
branches).  Atoms are normalised texts: comparisons are oriented and negations pushed into the operator
(`not a >= b` -> `a < b`), `x in d.keys()` -> `x in d`.
"""
import ast
from typing import List, Optional, Tuple

from .core import norm

_NEG = {ast.Lt: ast.GtE, ast.GtE: ast.Lt, ast.Gt: ast.LtE, ast.LtE: ast.Gt, ast.Eq: ast.NotEq, ast.NotEq: ast.Eq,
        ast.In: ast.NotIn, ast.NotIn: ast.In, ast.Is: ast.IsNot, ast.IsNot: ast.Is}
_SYM = {ast.Lt: "<", ast.GtE: ">=", ast.Gt: ">", ast.LtE: "<=", ast.Eq: "==", ast.NotEq: "!=", ast.In: "in", ast.NotIn: "not in",
        ast.Is: "is", ast.IsNot: "is not"}
_SWAP = {ast.Gt: ast.Lt, ast.GtE: ast.LtE}


def _strip_keys(e: ast.AST) -> ast.AST:
    if isinstance(e, ast.Call) and isinstance(e.func, ast.Attribute) and e.func.attr == "keys" and not e.args:
        return e.func.value
    return e


def atoms(test: ast.AST, positive: bool = True) -> List[str]:
    """conjunction of normalised atoms equivalent to `test` (positive) or `not test`; a disjunction stays one atom"""
    if isinstance(test, ast.UnaryOp) and isinstance(test.op, ast.Not):
        return atoms(test.operand, not positive)
    if isinstance(test, ast.BoolOp):
        if isinstance(test.op, ast.And) == positive:
            out: List[str] = []
            for v in test.values:
                out.extend(atoms(v, positive))
            return out
        parts = sorted(" and ".join(atoms(v, positive)) for v in test.values)
        return ["(" + " or ".join(parts) + ")"]
    if isinstance(test, ast.Compare) and len(test.ops) == 1:
        op = type(test.ops[0])
        l, r = test.left, test.comparators[0]
        if not positive:
            op = _NEG[op]
        if op in _SWAP:
            op, l, r = _SWAP[op], r, l
        lt, rt = norm(_strip_keys(l)), norm(_strip_keys(r))
        if op in (ast.Eq, ast.NotEq) and rt < lt:
            lt, rt = rt, lt
        return [f"{lt} {_SYM[op]} {rt}"]
    # d.get(k, True) is "k is missing or d[k] is truthy": its negation is `k in d` and `not d[k]`
    if isinstance(test, ast.Call) and isinstance(test.func, ast.Attribute) and test.func.attr == "get" and len(test.args) == 2 \
            and isinstance(test.args[1], ast.Constant) and test.args[1].value is True and not test.keywords:
        d, k = norm(test.func.value), norm(test.args[0])
        return [f"({d}[{k}] or {k} not in {d})"] if positive else [f"{k} in {d}", f"not {d}[{k}]"]
    t = norm(test)
    return [t if positive else f"not {t}"]


def _leaves(stmts: List[ast.stmt]) -> bool:
    return bool(stmts) and isinstance(stmts[-1], (ast.Continue, ast.Break, ast.Return, ast.Raise))


def path_conditions(stmts: List[ast.stmt], node: ast.AST, exits: Optional[List[str]] = None) -> Optional[List[str]]:
    """
    Conditions (conjunction) under which `node` is executed when the statement list is entered; None if not inside.  Guards
    passed on the way that leave by break / return / raise (they end the whole loop, not only the iteration) are appended to
    `exits` when given.
    """
    acc: List[str] = []
    for st in stmts:
        inside = any(x is node for x in ast.walk(st))
        if isinstance(st, ast.If):
            if inside:
                if any(x is node for x in ast.walk(st.test)):
                    return acc
                for branch, pol in ((st.body, True), (st.orelse, False)):
                    r = path_conditions(branch, node, exits)
                    if r is not None:
                        return acc + atoms(st.test, pol) + r
                return acc
            # guard clause: the rest of the block runs only if the leaving branch was not taken
            if _leaves(st.body) and not st.orelse:
                acc = acc + atoms(st.test, False)
                if exits is not None and not isinstance(st.body[-1], ast.Continue):
                    exits.extend(atoms(st.test, True))
            elif st.orelse and _leaves(st.orelse) and not _leaves(st.body):
                acc = acc + atoms(st.test, True)
                if exits is not None and not isinstance(st.orelse[-1], ast.Continue):
                    exits.extend(atoms(st.test, False))
            elif exits is not None and any(isinstance(x, (ast.Break, ast.Return)) for x in ast.walk(st)):
                exits.append(f"inside `if {norm(st.test)}`")
            continue
        if inside:
            for fld in ("body", "orelse", "finalbody"):
                b = getattr(st, fld, None)
                if isinstance(b, list) and b and isinstance(b[0], ast.stmt):
                    r = path_conditions(b, node, exits)
                    if r is not None:
                        return acc + r
            if isinstance(st, ast.Try):
                for h in st.handlers:
                    r = path_conditions(h.body, node, exits)
                    if r is not None:
                        return acc + r
            return acc
    return None
