"""
Homogeneity-degree analysis (C03 R3.1): abstract interpretation of potential code in the domain of degree vectors
(degree in speed, in charge_one, in charge_two).  deg(ab) = deg a + deg b, deg(a/b) = deg a - deg b, deg(a +- b) defined
only if equal, deg(a ** k) = k deg a for a numeric literal k (else only for degree-0 bases), deg(f(a)) = 0 only if
deg a = 0 (sqrt halves), comparisons / asserts are scale-free.  INHOM marks an expression that is not homogeneous.
"""
import ast
from fractions import Fraction
from typing import Dict, List, Optional, Tuple

from .core import norm
from .pyfront import ClassInfo, Program, body_without_docstring, param_names, self_attr

Deg = Tuple[Fraction, Fraction, Fraction]
ZERO: Deg = (Fraction(0), Fraction(0), Fraction(0))
INHOM = "inhomogeneous"


def dadd(a, b):
    if a == INHOM or b == INHOM:
        return INHOM
    return tuple(x + y for x, y in zip(a, b))


def dscale(a, k: Fraction):
    if a == INHOM:
        return INHOM
    return tuple(x * k for x in a)


class Val:
    """degree of a scalar, or per-element degree of a tuple / sequence; obj = class of an attribute object"""

    def __init__(self, deg=ZERO, elems: Optional[List["Val"]] = None, obj: Optional[ClassInfo] = None, why: str = "") -> None:
        self.deg, self.elems, self.obj, self.why = deg, elems, obj, why


class DegreeInterp:
    def __init__(self, prog: Program, c_degrees: Optional[Dict[str, int]] = None) -> None:
        self.prog = prog
        self.c_degrees = c_degrees or {}
        self.depth = 0
        self.notes: List[str] = []

    # -- entry ------------------------------------------------------------------------------------------------------
    def method(self, cls: ClassInfo, name: str, args: Dict[str, Val], star: Optional[List[Val]] = None) -> Val:
        r = self.prog.resolve_method(cls, name)
        if r is None:
            return Val(INHOM, why=f"{cls.name}.{name} not found")
        owner, fn = r
        env: Dict[str, Val] = {"self": Val(obj=cls)}
        ps = param_names(fn)
        star = list(star or [])
        for p in ps:
            if p in args:
                env[p] = args[p]
            elif star:
                env[p] = star.pop(0)
            else:
                env[p] = self.default_param(p)
        if fn.args.vararg:
            env["*" + fn.args.vararg.arg] = Val(elems=star)
        if fn.args.kwarg:
            env["**" + fn.args.kwarg.arg] = Val()
        self.depth += 1
        try:
            if self.depth > 12:
                return Val(INHOM, why="recursion")
            return self.block(body_without_docstring(fn), env, cls)
        finally:
            self.depth -= 1

    def default_param(self, p: str) -> Val:
        if p == "charge_one":
            return Val((Fraction(0), Fraction(1), Fraction(0)))
        if p == "charge_two":
            return Val((Fraction(0), Fraction(0), Fraction(1)))
        if p == "velocity":
            return Val((Fraction(1), Fraction(0), Fraction(0)))
        return Val(ZERO)

    # -- statements -------------------------------------------------------------------------------------------------
    def block(self, stmts: List[ast.stmt], env: Dict[str, Val], cls: ClassInfo) -> Val:
        results: List[Val] = []
        self._block(stmts, env, cls, results)
        if not results:
            return Val(ZERO)
        out = results[0]
        for r in results[1:]:
            out = self.join(out, r)
        return out

    def join(self, a: Val, b: Val) -> Val:
        if a.elems is not None and b.elems is not None and len(a.elems) == len(b.elems):
            return Val(elems=[self.join(x, y) for x, y in zip(a.elems, b.elems)])
        if a.deg == b.deg:
            return a
        # infinity / zero literals are degree-polymorphic
        if a.why == "polymorphic":
            return b
        if b.why == "polymorphic":
            return a
        return Val(INHOM, why=f"branches return degrees {a.deg} and {b.deg}")

    def _block(self, stmts, env, cls, results) -> bool:
        """returns True if the block always returns"""
        for s in stmts:
            if isinstance(s, (ast.Assert, ast.Pass)) or (isinstance(s, ast.Expr) and isinstance(s.value, ast.Constant)):
                continue
            if isinstance(s, ast.Return):
                results.append(self.ev(s.value, env, cls) if s.value is not None else Val(ZERO))
                return True
            if isinstance(s, ast.Assign) and len(s.targets) == 1:
                v = self.ev(s.value, env, cls)
                t = s.targets[0]
                if isinstance(t, ast.Name):
                    env[t.id] = v
                elif isinstance(t, ast.Tuple):
                    for i, e in enumerate(t.elts):
                        if isinstance(e, ast.Name):
                            env[e.id] = v.elems[i] if v.elems is not None and i < len(v.elems) else Val(v.deg)
                elif isinstance(t, ast.Subscript) and isinstance(t.value, ast.Name):
                    pass  # element write into a local vector: degree of the vector unchanged (checked at reads)
                continue
            if isinstance(s, ast.AugAssign) and isinstance(s.target, ast.Name):
                cur = env.get(s.target.id, Val(ZERO))
                v = self.ev(s.value, env, cls)
                if isinstance(s.op, (ast.Add, ast.Sub)):
                    env[s.target.id] = self.join(cur, v) if cur.why != "polymorphic" else v
                elif isinstance(s.op, ast.Mult):
                    env[s.target.id] = Val(dadd(cur.deg, v.deg))
                elif isinstance(s.op, ast.Div):
                    env[s.target.id] = Val(dadd(cur.deg, dscale(v.deg, Fraction(-1))))
                continue
            if isinstance(s, ast.AugAssign):
                continue
            if isinstance(s, ast.If):
                e1, e2 = dict(env), dict(env)
                r1 = self._block(s.body, e1, cls, results)
                r2 = self._block(s.orelse, e2, cls, results)
                for k in set(e1) | set(e2):
                    if k in e1 and k in e2:
                        env[k] = self.join(e1[k], e2[k]) if not (r1 or r2) else (e2[k] if r1 else e1[k])
                    else:
                        env[k] = e1.get(k) or e2.get(k)
                if r1 and r2:
                    return True
                continue
            if isinstance(s, ast.Try):
                e1 = dict(env)
                r1 = self._block(s.body, e1, cls, results)
                for h in s.handlers:
                    e2 = dict(env)
                    self._block(h.body, e2, cls, results)
                env.update(e1)
                continue
            if isinstance(s, (ast.For, ast.While)):
                if isinstance(s, ast.For) and isinstance(s.target, ast.Name):
                    it = self.ev(s.iter, env, cls)
                    env[s.target.id] = it.elems[0] if it.elems else Val(it.deg)
                elif isinstance(s, ast.For) and isinstance(s.target, ast.Tuple):
                    for e in s.target.elts:
                        if isinstance(e, ast.Name):
                            env[e.id] = Val(ZERO)
                self._block(s.body, env, cls, results)
                continue
            if isinstance(s, ast.Expr):
                c = s.value
                if isinstance(c, ast.Call) and isinstance(c.func, ast.Attribute) and c.func.attr in ("append", "extend") \
                        and isinstance(c.func.value, ast.Name) and len(c.args) == 1:
                    # a local list filled element by element has the (joined) degree of what is put into it
                    v = self.ev(c.args[0], env, cls)
                    if c.func.attr == "extend" and v.elems:
                        v = v.elems[0]
                    cur = env.get(c.func.value.id)
                    empty = cur is None or cur.why == "polymorphic" or (cur.elems is not None and not cur.elems)
                    env[c.func.value.id] = Val(v.deg, why=v.why) if empty else self.join(Val(cur.deg, why=cur.why), v)
                    continue
                self.ev(s.value, env, cls)
                continue
            if isinstance(s, ast.Raise):
                return True
        return False

    # -- expressions ------------------------------------------------------------------------------------------------
    def ev(self, e: ast.AST, env: Dict[str, Val], cls: ClassInfo) -> Val:
        if isinstance(e, ast.Constant):
            if isinstance(e.value, (int, float)) and e.value == 0:
                return Val(ZERO, why="polymorphic")
            return Val(ZERO)
        if isinstance(e, ast.Name):
            return env.get(e.id, Val(ZERO))
        if isinstance(e, ast.Attribute):
            if self_attr(e) is not None:
                a = self_attr(e)
                if a in ("_infinity", "_inf"):
                    return Val(ZERO, why="polymorphic")
                obj = self.attr_object(cls, a)
                return Val(ZERO, obj=obj)
            if isinstance(e.value, ast.Name) and e.attr in ("_inf",):
                return Val(ZERO, why="polymorphic")
            return Val(ZERO)
        if isinstance(e, ast.UnaryOp):
            return self.ev(e.operand, env, cls)
        if isinstance(e, ast.BinOp):
            a, b = self.ev(e.left, env, cls), self.ev(e.right, env, cls)
            if isinstance(e.op, ast.Mult):
                return Val(dadd(a.deg, b.deg))
            if isinstance(e.op, (ast.Div, ast.FloorDiv)):
                return Val(dadd(a.deg, dscale(b.deg, Fraction(-1))))
            if isinstance(e.op, (ast.Add, ast.Sub)):
                if a.deg == INHOM or b.deg == INHOM:
                    return Val(INHOM, why=a.why or b.why)
                if a.deg == b.deg:
                    return Val(a.deg)
                if a.why == "polymorphic":
                    return Val(b.deg)
                if b.why == "polymorphic":
                    return Val(a.deg)
                return Val(INHOM, why=f"`{norm(e)}` adds terms of degree {_fmt(a.deg)} and {_fmt(b.deg)}")
            if isinstance(e.op, ast.Pow):
                k = _number(e.right)
                if k is not None:
                    return Val(dscale(a.deg, Fraction(k).limit_denominator(1000)))
                if a.deg == ZERO:
                    return Val(ZERO)
                return Val(INHOM, why=f"`{norm(e)}` raises a quantity of degree {_fmt(a.deg)} to a non-literal power")
            return Val(a.deg)
        if isinstance(e, ast.IfExp):
            return self.join(self.ev(e.body, env, cls), self.ev(e.orelse, env, cls))
        if isinstance(e, (ast.Compare, ast.BoolOp)):
            return Val(ZERO)
        if isinstance(e, ast.Subscript):
            v = self.ev(e.value, env, cls)
            if v.elems is not None:
                i = _number(e.slice)
                if i is not None and int(i) < len(v.elems):
                    return v.elems[int(i)]
                out = v.elems[0] if v.elems else Val(ZERO)
                for x in v.elems[1:]:
                    out = self.join(out, x)
                return out
            return Val(v.deg)
        if isinstance(e, (ast.Tuple, ast.List)):
            return Val(elems=[self.ev(x, env, cls) for x in e.elts])
        if isinstance(e, (ast.GeneratorExp, ast.ListComp)) and len(e.generators) == 1 and not e.generators[0].ifs \
                and isinstance(e.generators[0].target, ast.Name):
            # one plain generator over a sequence with known components: the result has one component per element
            it0 = self.ev(e.generators[0].iter, env, cls)
            if it0.elems and len(it0.elems) <= 8:
                out_elems = []
                for x in it0.elems:
                    env3 = dict(env)
                    env3[e.generators[0].target.id] = x
                    out_elems.append(self.ev(e.elt, env3, cls))
                return Val(elems=out_elems)
        if isinstance(e, (ast.GeneratorExp, ast.ListComp)):
            env2 = dict(env)
            for g in e.generators:
                it = self.ev(g.iter, env2, cls)
                elem = Val(it.deg)
                if it.elems:
                    elem = it.elems[0]
                    for x in it.elems[1:]:
                        elem = self.join(elem, x)
                is_enum = isinstance(g.iter, ast.Call) and isinstance(g.iter.func, ast.Name) and g.iter.func.id == "enumerate"
                if isinstance(g.target, ast.Name):
                    env2[g.target.id] = elem
                elif isinstance(g.target, ast.Tuple):
                    for k, t in enumerate(g.target.elts):
                        if isinstance(t, ast.Name):
                            if is_enum:
                                env2[t.id] = Val(ZERO) if k == 0 else elem
                            else:
                                env2[t.id] = elem if elem.elems is None else Val(ZERO)
            v = self.ev(e.elt, env2, cls)
            return Val(v.deg)
        if isinstance(e, ast.Starred):
            return self.ev(e.value, env, cls)
        if isinstance(e, ast.Call):
            return self.call(e, env, cls)
        return Val(ZERO)

    def attr_object(self, cls: ClassInfo, attr: str) -> Optional[ClassInfo]:
        for c in self.prog.mro(cls):
            init = c.methods.get("__init__")
            if init is None:
                continue
            for n in ast.walk(init):
                if isinstance(n, ast.Assign) and self_attr(n.targets[0]) == attr and isinstance(n.value, ast.Call) \
                        and isinstance(n.value.func, ast.Name):
                    r = self.prog.resolve_class(c.module, n.value.func.id)
                    if r is not None:
                        return r
        return None

    def callee_origin(self, f: ast.AST, cls: ClassInfo, depth: int = 0) -> ast.AST:
        """what a called name stands for: module-level `x = lib.f`, class-level `x = staticmethod(lib.f)` aliases are followed"""
        if depth > 4:
            return f
        d: Optional[ast.AST] = None
        if isinstance(f, ast.Name):
            d = cls.module.assigns.get(f.id)
        elif isinstance(f, ast.Attribute) and isinstance(f.value, ast.Name) and f.value.id in ("self", "cls", cls.name) \
                and self.prog.resolve_method(cls, f.attr) is None:
            for c in self.prog.mro(cls):
                for st in c.node.body:
                    if isinstance(st, ast.Assign) and any(isinstance(t, ast.Name) and t.id == f.attr for t in st.targets):
                        d = st.value
                        cls = c
                        break
                if d is not None:
                    break
        if d is None:
            return f
        while isinstance(d, ast.Call) and norm(d.func) in ("staticmethod", "classmethod") and len(d.args) == 1:
            d = d.args[0]
        if isinstance(d, (ast.Name, ast.Attribute)):
            return self.callee_origin(d, cls, depth + 1)
        return f

    def call(self, e: ast.Call, env: Dict[str, Val], cls: ClassInfo) -> Val:
        f = e.func
        args = [self.ev(a, env, cls) for a in e.args if not isinstance(a, ast.Starred)]
        star: List[Val] = []
        for a in e.args:
            if isinstance(a, ast.Starred):
                v = self.ev(a.value, env, cls)
                if isinstance(a.value, ast.Name) and ("*" + a.value.id) in env:
                    v = env["*" + a.value.id]
                star.extend(v.elems if v.elems is not None else [Val(v.deg)] * 3)
        f = self.callee_origin(f, cls)
        name = norm(f)
        short = name.split(".")[-1]
        if name in self.c_degrees:
            allargs = args + star
            return Val(dscale(allargs[0].deg, Fraction(self.c_degrees[name]))) if allargs else Val(ZERO)
        if short in ("sqrt",):
            return Val(dscale(args[0].deg, Fraction(1, 2))) if args else Val(ZERO)
        if short in ("abs", "fabs", "float", "max", "min", "copy"):
            out = args[0] if args else Val(ZERO)
            for a in args[1:]:
                out = self.join(out, a)
            return Val(out.deg)
        if short in ("sum", "tuple", "list", "sorted"):
            return args[0] if args else Val(ZERO)
        if short in ("norm",):
            return Val(args[0].deg) if args else Val(ZERO)
        if short in ("norm_sq",):
            return Val(dscale(args[0].deg, Fraction(2))) if args else Val(ZERO)
        if short in ("dot",):
            return Val(dadd(args[0].deg, args[1].deg)) if len(args) == 2 else Val(ZERO)
        if short in ("permutation_3d", "copy_vector_with_replaced_component", "enumerate", "range", "zip", "len", "int"):
            return Val(args[0].deg) if args else Val(ZERO)
        if short.startswith("displacement_until_new_norm_sq"):
            return Val(args[0].deg) if args else Val(ZERO)
        if short in ("acos", "cos", "sin", "exp", "log", "erfc", "floor"):
            if args and args[0].deg not in (ZERO,):
                return Val(INHOM, why=f"`{name}` of a quantity that scales with speed/charge")
            return Val(ZERO)
        # C library functions through cffi: degree in the first argument as established on the C side
        if short in self.c_degrees or name in self.c_degrees:
            k = self.c_degrees.get(name, self.c_degrees.get(short))
            allargs = args + star
            return Val(dscale(allargs[0].deg, Fraction(k))) if allargs else Val(ZERO)
        # methods on self / on attribute objects
        if isinstance(f, ast.Attribute):
            recv = self.ev(f.value, env, cls)
            target_cls = recv.obj
            if isinstance(f.value, ast.Name) and f.value.id == "self":
                target_cls = cls
            if target_cls is not None:
                r = self.prog.resolve_method(target_cls, f.attr)
                if r is not None:
                    ps = param_names(r[1])
                    amap: Dict[str, Val] = {}
                    pos = list(args)
                    for p in ps:
                        if pos:
                            amap[p] = pos.pop(0)
                    for k in e.keywords:
                        if k.arg:
                            amap[k.arg] = self.ev(k.value, env, cls)
                    return self.method(target_cls, f.attr, amap, star)
        return Val(ZERO)


def _number(e: ast.AST) -> Optional[float]:
    if isinstance(e, ast.Constant) and isinstance(e.value, (int, float)) and not isinstance(e.value, bool):
        return float(e.value)
    if isinstance(e, ast.UnaryOp) and isinstance(e.op, ast.USub):
        v = _number(e.operand)
        return -v if v is not None else None
    if isinstance(e, ast.BinOp) and isinstance(e.op, ast.Div):
        a, b = _number(e.left), _number(e.right)
        if a is not None and b:
            return a / b
    return None


def _fmt(d) -> str:
    if d == INHOM:
        return INHOM
    names = ("speed", "charge_one", "charge_two")
    parts = [f"{n}^{x}" for n, x in zip(names, d) if x != 0]
    return " ".join(parts) or "0"


fmt = _fmt
