"""
E5 -- C front end: clang JSON AST (clang -fsyntax-only -Xclang -ast-dump=json) reduced to a small tree.
Only syntax is read; nothing is compiled to code or executed.
"""
import json
import os
import subprocess
from typing import Any, Dict, Iterator, List, Optional

from .core import AnalysisError, Source

CLANG = "/usr/bin/clang"


class CNode:
    __slots__ = ("kind", "props", "children", "line")

    def __init__(self, kind: str, props: Dict[str, Any], children: List["CNode"], line: int) -> None:
        self.kind, self.props, self.children, self.line = kind, props, children, line

    def walk(self) -> Iterator["CNode"]:
        yield self
        for c in self.children:
            yield from c.walk()

    def __repr__(self) -> str:
        return f"<{self.kind} {self.props} @{self.line}>"


KEEP_PROPS = ("name", "opcode", "value", "isPostfix", "isArrow", "castKind", "valueCategory")


def _convert(j: Dict[str, Any], line_state: List[int]) -> Optional[CNode]:
    kind = j.get("kind")
    if kind is None:
        return None
    loc = j.get("loc") or {}
    rng = (j.get("range") or {}).get("begin") or {}
    for src in (loc, rng, rng.get("expansionLoc") or {}, loc.get("expansionLoc") or {}):
        if "line" in src:
            line_state[0] = src["line"]
            break
    line = line_state[0]
    props = {k: j[k] for k in KEEP_PROPS if k in j}
    if "type" in j and isinstance(j["type"], dict):
        props["type"] = j["type"].get("qualType")
    if "referencedDecl" in j:
        props["ref"] = j["referencedDecl"].get("name")
        props["refkind"] = j["referencedDecl"].get("kind")
    children = []
    for c in j.get("inner", []) or []:
        if isinstance(c, dict) and c:
            n = _convert(c, line_state)
            if n is not None:
                children.append(n)
    return CNode(kind, props, children, line)


class CUnit:
    def __init__(self, src: Source, rel: str) -> None:
        self.rel = rel
        path = src.real_path(rel)
        inc = os.path.dirname(os.path.join(src.root, rel))
        src.read(rel)  # register as consulted (and fail early if vanished)
        try:
            proc = subprocess.run([CLANG, "-fsyntax-only", "-w", "-I", inc, "-Xclang", "-ast-dump=json", path],
                                  capture_output=True, text=True, timeout=120)
        except (OSError, subprocess.TimeoutExpired) as e:
            raise AnalysisError(f"clang could not be run on {rel}: {e}")
        if proc.returncode != 0 or not proc.stdout.strip():
            raise AnalysisError(f"clang cannot parse {rel}: {proc.stderr.strip()[:300]}")
        try:
            tu = json.loads(proc.stdout)
        except json.JSONDecodeError as e:
            raise AnalysisError(f"clang JSON for {rel} not readable: {e}")
        self.functions: Dict[str, CNode] = {}
        self.prototypes: Dict[str, CNode] = {}
        self.records: Dict[str, CNode] = {}
        self.enum_constants: Dict[str, str] = {}

        def collect_enums(j: Dict[str, Any]) -> None:
            if j.get("kind") == "EnumDecl":
                nxt = 0
                for c in j.get("inner", []) or []:
                    if isinstance(c, dict) and c.get("kind") == "EnumConstantDecl":
                        val = None
                        for x in c.get("inner", []) or []:
                            if isinstance(x, dict) and x.get("kind") in ("ConstantExpr", "IntegerLiteral") and x.get("value") is not None:
                                val = x.get("value")
                        if val is None:
                            val = str(nxt)
                        try:
                            nxt = int(val) + 1
                        except ValueError:
                            pass
                        self.enum_constants[c.get("name")] = str(val)
            for c in j.get("inner", []) or []:
                if isinstance(c, dict):
                    collect_enums(c)
        collect_enums(tu)
        main_file = os.path.basename(path)
        in_main = False
        state = [0]
        for d in tu.get("inner", []):
            loc = d.get("loc") or {}
            f = loc.get("file") or (loc.get("expansionLoc") or {}).get("file")
            if f is not None:
                in_main = os.path.basename(f) in (main_file, main_file.replace(".c", ".h"))
            if loc.get("includedFrom") is not None and f is None:
                pass
            if not in_main:
                continue
            node = _convert(d, state)
            if node is None:
                continue
            if node.kind == "FunctionDecl":
                has_body = any(c.kind == "CompoundStmt" for c in node.children)
                if has_body:
                    fold_enum_constants(node, self.enum_constants)
                    pointer_arithmetic_as_indexing(node)
                    normalise_loops(node)
                (self.functions if has_body else self.prototypes)[node.props.get("name", "?")] = node
            elif node.kind == "RecordDecl" and node.props.get("name"):
                if any(c.kind == "FieldDecl" for c in node.children) or node.props["name"] not in self.records:
                    self.records[node.props["name"]] = node

    def body(self, fname: str) -> CNode:
        fn = self.functions.get(fname)
        if fn is None:
            raise AnalysisError(f"{self.rel}: function {fname} not found")
        return [c for c in fn.children if c.kind == "CompoundStmt"][0]

    def params(self, fname: str) -> List[str]:
        fn = self.functions.get(fname) or self.prototypes.get(fname)
        if fn is None:
            raise AnalysisError(f"{self.rel}: function {fname} not found")
        return [c.props.get("name", "") for c in fn.children if c.kind == "ParmVarDecl"]

    def signature(self, fname: str) -> str:
        fn = self.functions.get(fname) or self.prototypes.get(fname)
        return fn.props.get("type", "") if fn else ""

    def fields(self, rname: str) -> List[str]:
        r = self.records.get(rname)
        return [f"{c.props.get('type')} {c.props.get('name')}" for c in r.children if c.kind == "FieldDecl"] if r else []


def fold_enum_constants(root: CNode, values: Dict[str, str]) -> None:
    """a reference to an enumeration constant is the integer it names"""
    for n in root.walk():
        for i, c in enumerate(n.children):
            if c.kind == "DeclRefExpr" and c.props.get("refkind") == "EnumConstantDecl" and c.props.get("ref") in values:
                n.children[i] = CNode("IntegerLiteral", {"value": values[c.props.get("ref")], "type": "int"}, [], c.line)


def pointer_arithmetic_as_indexing(root: CNode) -> None:
    """`*(p + e)` is `p[e]`, `(p + e)->f` is `p[e].f`  (p of pointer type)"""
    def as_index(e: CNode) -> Optional[CNode]:
        e = strip(e)
        if e.kind == "BinaryOperator" and e.props.get("opcode") == "+" and len(e.children) == 2:
            l, r = e.children
            if "*" in str(strip(l).props.get("type") or l.props.get("type") or ""):
                return CNode("ArraySubscriptExpr", {"type": str(l.props.get("type") or "").replace(" *", "").replace("*", "")}, [l, r], e.line)
            if "*" in str(strip(r).props.get("type") or r.props.get("type") or ""):
                return CNode("ArraySubscriptExpr", {"type": str(r.props.get("type") or "").replace(" *", "").replace("*", "")}, [r, l], e.line)
        return None
    for n in list(root.walk()):
        for i, c in enumerate(n.children):
            c0 = strip(c)
            if c0.kind == "UnaryOperator" and c0.props.get("opcode") == "*" and not c0.props.get("isPostfix") and c0.children:
                sub = as_index(c0.children[0])
                if sub is not None:
                    n.children[i] = sub
            elif c0.kind == "MemberExpr" and c0.props.get("isArrow") and c0.children:
                sub = as_index(c0.children[0])
                if sub is not None:
                    props = dict(c0.props)
                    props["isArrow"] = False
                    n.children[i] = CNode("MemberExpr", props, [sub], c0.line)


def normalise_loops(root: CNode) -> None:
    """
    C normal form of counting loops:  `v = e;  while (cond(v)) { body; v++; }`  (init directly before the loop, the step the last
    statement of the body, no `continue`, v not assigned elsewhere in the body)  becomes  `for (v = e; cond(v); v++) { body }`,
    so that every rule sees one layout for the same iteration.
    """
    for n in root.walk():
        if n.kind != "CompoundStmt":
            continue
        out: List[CNode] = []
        for st in n.children:
            prev = out[-1] if out else None
            # `return c ? a : b;`  ->  `if (c) return a; else return b;`
            if st.kind == "ReturnStmt" and st.children and strip(st.children[0]).kind == "ConditionalOperator":
                c, a, b = strip(st.children[0]).children[:3]
                out.append(CNode("IfStmt", {}, [c, CNode("CompoundStmt", {}, [CNode("ReturnStmt", {}, [a], st.line)], st.line),
                                                CNode("CompoundStmt", {}, [CNode("ReturnStmt", {}, [b], st.line)], st.line)], st.line))
                continue
            if st.kind == "WhileStmt" and len(st.children) == 2 and st.children[1].kind == "CompoundStmt" and st.children[1].children and prev is not None:
                var = None
                if prev.kind == "DeclStmt" and len(prev.children) == 1 and prev.children[0].kind == "VarDecl" and prev.children[0].children:
                    var = prev.children[0].props.get("name")
                elif prev.kind == "BinaryOperator" and prev.props.get("opcode") == "=" and strip(prev.children[0]).kind == "DeclRefExpr":
                    var = strip(prev.children[0]).props.get("ref")
                body = st.children[1]
                last = body.children[-1]
                is_step = (last.kind == "UnaryOperator" and last.props.get("opcode") in ("++", "--")
                           or last.kind == "CompoundAssignOperator" and last.props.get("opcode") in ("+=", "-=")) \
                    and strip(last.children[0]).kind == "DeclRefExpr" and strip(last.children[0]).props.get("ref") == var
                rest = body.children[:-1]

                def writes(x: CNode) -> bool:
                    return (x.kind in ("BinaryOperator", "CompoundAssignOperator") and str(x.props.get("opcode", "")).endswith("=")
                            and x.props.get("opcode") not in ("==", "!=", "<=", ">=") or
                            x.kind == "UnaryOperator" and x.props.get("opcode") in ("++", "--")) \
                        and strip(x.children[0]).kind == "DeclRefExpr" and strip(x.children[0]).props.get("ref") == var
                in_cond = any(x.kind == "DeclRefExpr" and x.props.get("ref") == var for x in st.children[0].walk())
                if var and is_step and in_cond and not any(x.kind == "ContinueStmt" or writes(x) for r in rest for x in r.walk()):
                    out[-1] = CNode("ForStmt", {}, [prev, st.children[0], last, CNode("CompoundStmt", {}, rest, body.line)], prev.line)
                    continue
            out.append(st)
        n.children = out


def expand_calls(unit: "CUnit", n: CNode, depth: int = 3) -> CNode:
    """
    Copy of expression n in which calls of functions of this unit whose body is a single `return <expr>;` are replaced by that
    expression with the parameters substituted by the (expanded) arguments.  Pure expression helpers only.
    """
    def subst(e: CNode, env: Dict[str, CNode]) -> CNode:
        if e.kind == "DeclRefExpr" and e.props.get("ref") in env:
            return env[e.props["ref"]]
        return CNode(e.kind, dict(e.props), [subst(c, env) for c in e.children], e.line)

    def go(e: CNode, d: int) -> CNode:
        kids = [go(c, d) for c in e.children]
        if e.kind == "CallExpr" and d > 0 and kids:
            callee = strip(kids[0])
            name = callee.props.get("ref") if callee.kind == "DeclRefExpr" else None
            fn = unit.functions.get(name) if name else None
            if fn is not None:
                body = [c for c in fn.children if c.kind == "CompoundStmt"][0]
                stmts = [c for c in body.children if c.kind != "NullStmt"]
                params = [c.props.get("name", "") for c in fn.children if c.kind == "ParmVarDecl"]
                if len(stmts) == 1 and stmts[0].kind == "ReturnStmt" and stmts[0].children and len(params) == len(kids) - 1:
                    env = dict(zip(params, kids[1:]))
                    inner = subst(stmts[0].children[0], env)
                    out = go(inner, d - 1)
                    out = CNode("ParenExpr", {}, [out], e.line)
                    return out
        return CNode(e.kind, dict(e.props), kids, e.line)
    return go(n, depth)


def inline_statement_calls(unit: "CUnit", n: CNode, depth: int = 2) -> CNode:
    """
    Copy of statement tree n in which a call statement `f(a, ..);` of a function of this unit without a return value in use is
    replaced by the body of f with the parameters substituted (arguments must be side-effect free).  For shape rules that look
    for an effect (a store, a decrement) which a refactoring moved into a static helper.
    """
    def pure(e: CNode) -> bool:
        return not any(x.kind in ("CallExpr", "CompoundAssignOperator") or
                       (x.kind == "UnaryOperator" and x.props.get("opcode") in ("++", "--")) or
                       (x.kind == "BinaryOperator" and x.props.get("opcode") == "=") for x in [e] + list(e.walk()))

    def subst(e: CNode, env: Dict[str, CNode]) -> CNode:
        if e.kind == "DeclRefExpr" and e.props.get("ref") in env:
            return env[e.props["ref"]]
        return CNode(e.kind, dict(e.props), [subst(c, env) for c in e.children], e.line)

    def go(e: CNode, d: int, stmt_pos: bool) -> CNode:
        if e.kind == "CallExpr" and stmt_pos and d > 0 and e.children:
            callee = strip(e.children[0])
            name = callee.props.get("ref") if callee.kind == "DeclRefExpr" else None
            fn = unit.functions.get(name) if name else None
            if fn is not None:
                bodies = [c for c in fn.children if c.kind == "CompoundStmt"]
                params = [c.props.get("name", "") for c in fn.children if c.kind == "ParmVarDecl"]
                args = e.children[1:]
                if bodies and len(params) == len(args) and all(pure(a) for a in args) \
                        and not any(x.kind in ("ReturnStmt", "WhileStmt", "ForStmt", "DoStmt") for x in bodies[0].walk()):
                    inner = subst(bodies[0], dict(zip(params, args)))
                    return go(CNode("CompoundStmt", {}, list(inner.children), e.line), d - 1, True)
        kids = []
        for i, c in enumerate(e.children):
            child_is_stmt = e.kind == "CompoundStmt" or (e.kind == "IfStmt" and i >= 1) or \
                (e.kind in ("WhileStmt", "ForStmt") and i == len(e.children) - 1)
            kids.append(go(c, d, child_is_stmt))
        return CNode(e.kind, dict(e.props), kids, e.line)
    return go(n, depth, True)


def strip(n: CNode) -> CNode:
    """Remove implicit casts / parentheses."""
    while n.kind in ("ImplicitCastExpr", "ParenExpr", "CStyleCastExpr") and n.children:
        n = n.children[-1]
    return n


def text(n: CNode) -> str:
    """Readable rendering of an expression."""
    n = strip(n)
    k = n.kind
    if k == "DeclRefExpr":
        return n.props.get("ref", "?")
    if k == "MemberExpr":
        return f"{text(n.children[0])}{'->' if n.props.get('isArrow') else '.'}{n.props.get('name')}"
    if k == "ArraySubscriptExpr":
        return f"{text(n.children[0])}[{text(n.children[1])}]"
    if k in ("IntegerLiteral", "FloatingLiteral"):
        return str(n.props.get("value"))
    if k == "BinaryOperator" or k == "CompoundAssignOperator":
        return f"({text(n.children[0])} {n.props.get('opcode')} {text(n.children[1])})"
    if k == "UnaryOperator":
        op = n.props.get("opcode")
        return f"{text(n.children[0])}{op}" if n.props.get("isPostfix") else f"{op}{text(n.children[0])}"
    if k == "CallExpr":
        return f"{text(n.children[0])}({', '.join(text(c) for c in n.children[1:])})"
    if k == "ConditionalOperator":
        return f"({text(n.children[0])} ? {text(n.children[1])} : {text(n.children[2])})"
    return k
