"""
E4 -- static re-implementation of jellyfysh.base.factory for the shipped .ini files: resolves every section to a class of
the analysed package through the annotations of the constructor parameters (exactly as build_from_config does), and
builds the object graph without importing anything.
"""
import ast
import configparser
import re
from typing import Any, Dict, List, Optional, Tuple

from .core import AnalysisError, Source
from .pyfront import ClassInfo, Program, const_value, dotted

CONFIG_DIR = "jellyfysh/config_files"
SIMPLE = {"bool", "float", "int", "str"}


def to_camel_case(snake: str) -> str:
    split = snake.split("_")
    return "".join(map(min, "".join(split), "".join(w.capitalize() for w in split)))


def to_snake_case(camel: str) -> str:
    tmp = re.sub("(.)([A-Z][a-z]+)", r"\1_\2", camel)
    return re.sub("([a-z0-9])([A-Z])", r"\1_\2", tmp).lower()


_named_class_pattern = re.compile(r"(\w+)\s*(?:\((\w+)\))*")


class Obj:
    """One object built from a section."""

    def __init__(self, section: str, cls: ClassInfo, file: str) -> None:
        self.section, self.cls, self.file = section, cls, file
        self.args: Dict[str, Any] = {}  # param -> str | int | float | bool | Obj | list
        self.raw: Dict[str, str] = {}
        self.given: set = set()

    @property
    def alias(self) -> str:
        return self.section

    def get(self, name: str, default: Any = None) -> Any:
        return self.args.get(name, default)

    def __repr__(self) -> str:
        return f"<{self.section} ({self.cls.name})>"


class Param:
    def __init__(self, name: str, annotation: Optional[ast.AST], default: Optional[ast.AST], has_default: bool) -> None:
        self.name, self.annotation, self.default, self.has_default = name, annotation, default, has_default


class IniConfig:
    def __init__(self, prog: Program, file: str) -> None:
        self.prog, self.file = prog, file
        self.cp = configparser.ConfigParser()
        try:
            self.cp.read_string(prog.src.read(file), source=file)
        except configparser.Error as e:
            raise AnalysisError(f"cannot parse {file}: {e}")
        self.used_sections: List[str] = []
        self.objects: Dict[str, Obj] = {}
        self.problems: List[str] = []
        self.setting: Optional[Obj] = None
        self.mediator: Optional[Obj] = None
        self._build()

    # -- constructor signature ------------------------------------------------------------------------------------
    def init_params(self, ci: ClassInfo) -> Tuple[ClassInfo, List[Param]]:
        r = self.prog.resolve_method(ci, "__init__")
        if r is None:
            return ci, []
        owner, fn = r
        args = fn.args
        pos = args.posonlyargs + args.args
        defaults = [None] * (len(pos) - len(args.defaults)) + list(args.defaults)
        out = []
        for a, d in zip(pos, defaults):
            if a.arg == "self":
                continue
            out.append(Param(a.arg, a.annotation, d, d is not None))
        for a, d in zip(args.kwonlyargs, args.kw_defaults):
            out.append(Param(a.arg, a.annotation, d, d is not None))
        return owner, out

    # -- factory ----------------------------------------------------------------------------------------------------
    def find_class(self, package: str, class_name: str) -> Optional[ClassInfo]:
        module_name = to_snake_case(class_name)
        for modname in (f"{package}.{module_name}.{module_name}", f"{package}.{module_name}"):
            mi = self.prog.modules.get(modname)
            if mi is not None and not mi.is_pkg:
                r = self.prog.resolve_name(mi, class_name)
                if isinstance(r, ClassInfo):
                    return r
        # package directory with __init__ re-exporting the class
        mi = self.prog.modules.get(f"{package}.{module_name}")
        if mi is not None:
            r = self.prog.resolve_name(mi, class_name)
            if isinstance(r, ClassInfo):
                return r
        return None

    def build(self, section: str, package: str, class_name: Optional[str] = None) -> Optional[Obj]:
        self.used_sections.append(section)
        class_name = class_name or section
        ci = self.find_class(package, class_name)
        if ci is None:
            self.problems.append(f"section [{section}]: class {class_name} not found in package {package}")
            return None
        if section in self.objects and self.objects[section].cls is ci:
            # the real factory builds a new instance every time; for the analysis the identity of the section suffices
            pass
        obj = Obj(section, ci, self.file)
        self.objects.setdefault(section, obj)
        section_config = dict(self.cp[section]) if self.cp.has_section(section) else {}
        owner, params = self.init_params(ci)
        for p in params:
            if p.name in section_config:
                obj.raw[p.name] = section_config[p.name]
                obj.given.add(p.name)
                obj.args[p.name] = self.create(section_config[p.name], p.annotation, owner, section, p.name)
            elif not p.has_default:
                self.problems.append(f"section [{section}]: missing required argument {p.name} of {class_name}")
            else:
                obj.args[p.name] = const_value(self.prog, owner, p.default)
        for option in section_config:
            if option not in [p.name for p in params]:
                self.problems.append(f"section [{section}]: option {option} is not an argument of {class_name}")
        return obj

    def create(self, value: str, annotation: Optional[ast.AST], owner: ClassInfo, section: str, pname: str) -> Any:
        value = value.replace("\n", "")
        ann = dotted(annotation) if annotation is not None else None
        if ann in SIMPLE:
            try:
                if ann == "bool":
                    return value.lower() in ("1", "yes", "true", "on")
                if ann == "int":
                    return int(value)
                if ann == "float":
                    return float(value)
            except ValueError:
                self.problems.append(f"section [{section}]: {pname} = {value!r} is not a {ann}")
                return value
            return value
        if isinstance(annotation, ast.Subscript) and (dotted(annotation.value) or "").split(".")[-1] in (
                "Sequence", "List", "Iterable"):
            inner = annotation.slice
            return [self.create(v, inner, owner, section, pname) for v in re.split(r",\s*", value)]
        # a class annotation: resolve the annotated class to find its package
        target = self.prog.resolve_name(owner.module, ann) if ann else None
        if not isinstance(target, ClassInfo):
            self.problems.append(f"section [{section}]: annotation of {pname} ({ann}) not resolved")
            return value
        m = _named_class_pattern.match(value)
        if m is None:
            self.problems.append(f"section [{section}]: value {value!r} not processed")
            return value
        class_name = m.group(1)
        class_to_build = m.group(2) if m.group(2) is not None else m.group(1)
        # package = qualified name of the annotated class minus module minus class
        package = target.module.name.rsplit(".", 1)[0]
        return self.build(to_camel_case(class_name), package, to_camel_case(class_to_build))

    def _build(self) -> None:
        if not self.cp.has_section("Run"):
            raise AnalysisError(f"{self.file}: no [Run] section")
        self.setting = self.build(to_camel_case(self.cp.get("Run", "setting")), "jellyfysh.setting")
        self.mediator = self.build(to_camel_case(self.cp.get("Run", "mediator")), "jellyfysh.mediator")
        for s in self.cp.sections():
            if s not in self.used_sections and s != "Run":
                self.problems.append(f"section [{s}] is not used")

    # -- convenience ------------------------------------------------------------------------------------------------
    def walk(self, root: Optional[Obj] = None):
        seen = set()
        stack = [root or self.mediator]
        while stack:
            o = stack.pop()
            if not isinstance(o, Obj) or id(o) in seen:
                continue
            seen.add(id(o))
            yield o
            for v in o.args.values():
                if isinstance(v, Obj):
                    stack.append(v)
                elif isinstance(v, list):
                    stack.extend(x for x in v if isinstance(x, Obj))

    def activator(self) -> Optional[Obj]:
        return self.mediator.get("activator") if self.mediator else None

    def taggers(self) -> List[Obj]:
        act = self.activator()
        return [t for t in (act.get("taggers") or []) if isinstance(t, Obj)] if act else []

    def internal_states(self) -> List[Obj]:
        act = self.activator()
        return [t for t in (act.get("internal_states") or []) if isinstance(t, Obj)] if act else []


def _literal(e: Optional[ast.AST]) -> Any:
    if e is None:
        return None
    try:
        return ast.literal_eval(e)
    except Exception:
        return None


def tagger_tag(t: Obj) -> str:
    tag = t.get("tag")
    return tag if isinstance(tag, str) and "tag" in t.given else to_snake_case(t.section)


def all_ini_files(src: Source) -> List[str]:
    return src.walk(CONFIG_DIR, "*.ini")


def load_all(prog: Program) -> List[IniConfig]:
    files = all_ini_files(prog.src)
    if len(files) < 10:
        raise AnalysisError(f"only {len(files)} configuration files found below {CONFIG_DIR}")
    return [IniConfig(prog, f) for f in files]


# -- factor set files -------------------------------------------------------------------------------------------------
_factor_line = re.compile(r"^\s*\[([\d,\s]*)\]\s*,\s*(\w+)\s*$")


def parse_factor_file(src: Source, rel: str) -> List[Tuple[Tuple[int, ...], str, int]]:
    """List of (index tuple, factor type, line number)."""
    out = []
    for i, line in enumerate(src.read(rel).splitlines(), 1):
        if not line.strip() or line.strip().startswith("#"):
            continue
        m = _factor_line.match(line)
        if m is None:
            raise AnalysisError(f"{rel}:{i}: factor line not understood: {line!r}")
        idx = tuple(int(x) for x in m.group(1).replace(" ", "").split(",") if x)
        out.append((idx, m.group(2), i))
    return out
