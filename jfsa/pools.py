"""
R9.2 / R1.2 -- handler-pool sufficiency of factor-map taggers and label resolution, computed exactly from the .ini, the
factor-set file and the system composition (number of root nodes N, nodes per root n).
"""
import ast
import re
from typing import Dict, List, Optional, Tuple

from .core import AnalysisError, Loc, Report
from .config_graph import ConfigGraph, TaggerInfo
from .inifront import IniConfig, Obj, parse_factor_file, to_camel_case
from .pyfront import ClassInfo, Program


def system_composition(prog: Program, cfg: IniConfig) -> Tuple[Optional[int], Optional[int], str]:
    """(N roots, n nodes per root, how derived)."""
    ioh = cfg.mediator.get("input_output_handler") if cfg.mediator else None
    ih = ioh.get("input_handler") if isinstance(ioh, Obj) else None
    if not isinstance(ih, Obj):
        return None, None, "input handler not resolved"
    if "number_of_root_nodes" in ih.args and isinstance(ih.get("random_node_creator"), Obj):
        creator: Obj = ih.get("random_node_creator")
        r = prog.resolve_method(creator.cls, "number_of_nodes_per_root_node")
        n = None
        if r:
            for s in ast.walk(r[1]):
                if isinstance(s, ast.Return) and isinstance(s.value, ast.Constant) and isinstance(s.value.value, int):
                    n = s.value.value
        return ih.get("number_of_root_nodes"), n, f"{ih.cls.name} + {creator.cls.name}.number_of_nodes_per_root_node"
    fn = ih.get("filename")
    if isinstance(fn, str) and fn.endswith(".pdb"):
        rel = "jellyfysh/" + fn
        residues: Dict[str, int] = {}
        order: List[str] = []
        for line in prog.src.read(rel).splitlines():
            if line.startswith(("ATOM", "HETATM")):
                key = line[21:26]
                if key not in residues:
                    residues[key] = 0
                    order.append(key)
                residues[key] += 1
        if not order:
            return None, None, f"no atoms in {rel}"
        return len(order), residues[order[0]], f"parsed {rel}"
    return None, None, "input handler kind not understood"


class FactorFile:
    def __init__(self, prog: Program, rel: str, n: int) -> None:
        self.rel, self.n = rel, n
        self.entries = parse_factor_file(prog.src, rel)
        self.by_type: Dict[str, List[Tuple[Tuple[int, ...], int]]] = {}
        for idx, ftype, line in self.entries:
            self.by_type.setdefault(ftype, []).append((idx, line))

    def is_local(self, ftype: str) -> bool:
        # the setter takes the value of every line; mixed values raise at start-up, so any line decides
        return all(i < self.n for i in self.by_type[ftype][-1][0])

    def map(self, ftype: str) -> Dict[int, List[Tuple[int, ...]]]:
        m: Dict[int, List[Tuple[int, ...]]] = {}
        for idx, _ in self.by_type[ftype]:
            for i in idx:
                if i >= self.n:
                    continue
                m.setdefault(i, []).append(idx)
        return m


def check_factor_taggers(prog: Program, cfg: IniConfig, graph: ConfigGraph, rep: Report, rules: Tuple[str, ...]) -> None:
    N, n, how = system_composition(prog, cfg)
    ftaggers = [t for t in graph.taggers if prog.is_subclass(t.cls, "FactorTypeMapInStateTagger")]
    if not ftaggers:
        return
    if N is None or n is None:
        for t in ftaggers:
            rep.ob("R9.2-pool", None, graph.loc(t), t.tag, f"system composition unknown: {how}")
        return
    files: Dict[str, FactorFile] = {}
    for t in ftaggers:
        maps = t.obj.get("factor_type_maps")
        fname = maps.get("filename") if isinstance(maps, Obj) else None
        if not isinstance(fname, str):
            rep.ob("R9.2-pool", None, graph.loc(t), t.tag, "factor file not resolved")
            continue
        rel = "jellyfysh/" + fname
        if rel not in files:
            files[rel] = FactorFile(prog, rel, n)
        ff = files[rel]
        label = t.obj.get("factor_type_maps_label") if "factor_type_maps_label" in t.obj.given else t.tag
        ftype = to_camel_case(label)
        found = ftype in ff.by_type
        if "R1.2" in rules:
            rep.ob("R1.2-label-resolves", found, graph.loc(t), f"{t.tag} -> {ftype}",
                   f"factor type `{ftype}` (from {'factor_type_maps_label' if 'factor_type_maps_label' in t.obj.given else 'tag'}"
                   f" `{label}`) does not occur in {rel}: the tagger silently falls back to all pairs of point masses "
                   f"(only a warning), which is a different factorisation of the model")
        if "R9.2" not in rules:
            continue
        root_mode = bool(t.handler_cls and prog.is_subclass(t.handler_cls, "CompositeObjectsLifting"))
        if not found:
            demand = (N - 1) * (n if n > 1 else 1)
            if root_mode:
                demand = (N - 1) * n * n if n > 1 else N - 1
            detail = "all-pairs fallback"
        elif n == 1:
            demand, detail = N - 1, "no composite objects: all other point masses"
        else:
            m = ff.map(ftype)
            local = ff.is_local(ftype)
            mult = 1 if local else N - 1
            if root_mode:
                distinct = {idx for lst in m.values() for idx in lst}
                demand = len(distinct) * mult
                detail = f"root mode: {len(distinct)} distinct index sets x {mult}"
            else:
                per_index = {i: len(m.get(i, [])) for i in range(n)}
                demand = max(per_index.values()) * mult
                detail = f"leaf mode: max over active index of {per_index} x {mult}"
        supply = t.number_event_handlers
        ok = isinstance(supply, int) and demand <= supply
        rep.ob("R9.2-pool", ok, graph.loc(t), f"{t.tag}: demand {demand} <= number_event_handlers {supply}",
               f"tagger `{t.tag}` may need {demand} event handlers at once ({detail}; N={N}, n={n} from {how}) but owns "
               f"only {supply}: the run dies with TagActivatorError as soon as that many factors are active")
        rep.extra.setdefault("pool_demand", {})[f"{cfg.file.split('config_files/')[-1]}:{t.tag}"] = [demand, supply]


def check_factor_files_symmetric(prog: Program, cfgs: List[IniConfig], rep: Report) -> None:
    """R1.2 / R10.4: every inter-object index set has its mirror image under the same factor type."""
    usage: Dict[str, int] = {}
    for cfg in cfgs:
        N, n, _ = system_composition(prog, cfg)
        for o in cfg.walk():
            if o.cls.name == "FactorTypeMaps" and isinstance(o.get("filename"), str) and n:
                usage.setdefault("jellyfysh/" + o.get("filename"), n)
    all_files = prog.src.walk("jellyfysh/config_files/factor_set_files", "*.txt")
    rep.unit("factor_set_files", len(all_files))
    for rel in all_files:
        n = usage.get(rel)
        if n is None:
            # not used by a shipped config: infer n as half the index range
            entries = parse_factor_file(prog.src, rel)
            mx = max((i for idx, _, _ in entries for i in idx), default=0)
            n = (mx + 2) // 2
        ff = FactorFile(prog, rel, n)
        for ftype, lst in sorted(ff.by_type.items()):
            sets = {frozenset(idx) for idx, _ in lst}
            localness = {all(i < n for i in idx) for idx, _ in lst}
            rep.ob("R1.2-local-consistent", len(localness) == 1, Loc(rel, lst[0][1], ftype), f"{ftype} locality",
                   f"factor type `{ftype}` mixes intra-object and inter-object index sets (the map setter raises)")
            for idx, line in lst:
                if all(i < n for i in idx):
                    continue
                mirror = frozenset((i + n) if i < n else (i - n) for i in idx)
                rep.ob("R1.2-mirror-closed", mirror in sets, Loc(rel, line, ftype), f"{list(idx)}, {ftype}",
                       f"index set {list(idx)} of `{ftype}` has no mirror image {sorted(mirror)} in the file (n={n}): the "
                       f"map is keyed by the active object's indices only, so the factor would be seen when one partner "
                       f"is active but not when the other is")
