"""
R9.3 / R9.4 -- bookkeeping of TagActivator: linear (move-only) accounting of event handlers between the running and the
not-running pool, ordering of activate/deactivate, internal-state update and creation inside one activator call.
Anchors are found by role (which attribute is popped from / appended to next to the yield of in-state identifiers).
"""
import ast
from typing import Dict, List, Optional, Set, Tuple

from .core import tolerant, IdiomNotRecognised, AnalysisError, Loc, Report, norm
from .normalize import canon
from .pyfront import ClassInfo, Program, body_without_docstring, self_attr

FILE = "jellyfysh/activator/tag_activator.py"


def _calls(node: ast.AST, attr: str) -> List[ast.Call]:
    return [n for n in ast.walk(node) if isinstance(n, ast.Call) and isinstance(n.func, ast.Attribute)
            and n.func.attr == attr]


@tolerant("R9.3-activator-roles")
def check(prog: Program, rep: Report) -> None:
    check_tagger_switch(prog, rep)
    cls = prog.class_named("TagActivator")
    # canonical forms: private helpers inlined, locals propagated -- the accounting is a property of what a routine does
    methods = {name: canon(prog, cls, fn) for name, fn in cls.methods.items()}
    # -- find the creation functions: contain a loop over <tagger>.yield_identifiers_send_event_time(...) ----------------
    creators = [fn for fn in methods.values() if _calls(fn, "yield_identifiers_send_event_time")]
    # a private helper that is called only from other creators is part of them (it was inlined there)
    def raw_self_calls(name: str) -> Set[str]:
        return {c.func.attr for c in ast.walk(cls.methods[name]) if isinstance(c, ast.Call) and isinstance(c.func, ast.Attribute)
                and isinstance(c.func.value, ast.Name) and c.func.value.id == "self"}
    creator_names = {fn.name for fn in creators}
    absorbed = {n for n in creator_names if n.startswith("_") and any(n in raw_self_calls(m) for m in creator_names - {n})
                and not any(n in raw_self_calls(m) for m in cls.methods if m not in creator_names)}
    # ... and so is any private helper whose every caller is a creator or such a helper (it runs only as part of a creation routine)
    for _ in range(4):
        for n in cls.methods:
            if n.startswith("_") and not n.startswith("__") and n not in absorbed and n not in creator_names - absorbed:
                callers = {m for m in cls.methods if n in raw_self_calls(m)}
                if callers and callers <= (creator_names | absorbed):
                    absorbed.add(n)
    creators = [fn for fn in creators if fn.name not in absorbed]
    if len(creators) < 2:
        raise AnalysisError("TagActivator: the two get_event_handlers_to_run variants were not found")
    pools: Set[Tuple[str, str]] = set()
    for fn in creators:
        loc0 = Loc(FILE, fn.lineno, f"TagActivator.{fn.name}")
        loops = [n for n in ast.walk(fn) if isinstance(n, ast.For) and isinstance(n.iter, ast.Call)
                 and isinstance(n.iter.func, ast.Attribute) and n.iter.func.attr == "yield_identifiers_send_event_time"]
        for loop in loops:
            tagger_expr = norm(loop.iter.func.value)
            ident = norm(loop.target)
            pops = [(n, a) for n in ast.walk(loop) if isinstance(n, ast.Assign) and isinstance(n.value, ast.Call)
                    and isinstance(n.value.func, ast.Attribute) and n.value.func.attr == "pop"
                    for a in [n.value.func.value] if isinstance(a, ast.Subscript) and self_attr(a.value)]
            appends = [(n, n.func.value) for n in _calls(loop, "append") if isinstance(n.func.value, ast.Subscript)
                       and self_attr(n.func.value.value)]
            maps = [n for n in ast.walk(loop) if isinstance(n, ast.Assign) and isinstance(n.targets[0], ast.Subscript)
                    and isinstance(n.targets[0].value, ast.Name) and norm(n.value) == ident]
            loc = Loc(FILE, loop.lineno, f"TagActivator.{fn.name}")
            ok = len(pops) == 1 and len(appends) == 1 and len(maps) == 1
            if not ok:
                # no pool operation of the known form at all (e.g. the pools live in a collaborator object): the idiom is not
                # recognised; a pop without its append (or the reverse) is a violation
                rep.ob("R9.3-linear-create", False if (pops or appends) else None, loc, loop.iter,
                       f"each yielded in-state must move exactly one handler not-running -> running and map it "
                       f"(found {len(pops)} pops, {len(appends)} appends, {len(maps)} mappings)")
                continue
            (pop_stmt, pop_sub), (app_call, app_sub), map_stmt = pops[0], appends[0], maps[0]
            handler_var = norm(pop_stmt.targets[0])
            src_pool, dst_pool = self_attr(pop_sub.value), self_attr(app_sub.value)
            pools.add((src_pool, dst_pool))
            conds = {
                "popped from the pool of the creating tagger": norm(pop_sub.slice) == tagger_expr,
                "appended to the running pool of the same tagger": norm(app_sub.slice) == tagger_expr,
                "the popped handler is the one appended": app_call.args and norm(app_call.args[0]) == handler_var,
                "the popped handler is the one mapped to the in-state": norm(map_stmt.targets[0].slice) == handler_var,
                "source and destination pools differ": src_pool != dst_pool,
            }
            for what, good in conds.items():
                rep.ob("R9.3-linear-create", bool(good), loc, f"{fn.name}: {what}",
                       f"in the creation loop of {fn.name}: not {what}")
            # the pop is guarded: exhaustion raises TagActivatorError instead of silently dropping a factor
            guarded = any(isinstance(t, ast.Try) and any(x is pop_stmt for st in t.body for x in ast.walk(st))
                          and any(isinstance(x, ast.Raise) for h in t.handlers for x in ast.walk(h))
                          for t in ast.walk(loop))
            rep.ob("R9.3-exhaustion-raises", guarded, loc, f"{fn.name}: pool exhaustion",
                   "an empty not-running pool must raise (a swallowed IndexError would silently drop a factor)")
    if len(pools) != 1:
        raise IdiomNotRecognised(f"TagActivator: handler pools not identified uniquely: {pools}")
    not_running, running = next(iter(pools))
    # -- trash function: reads running[t], moves it to not_running[t], clears running[t] -----------------------------------
    def writes_running(fn: ast.AST) -> bool:
        return any(isinstance(n, ast.Assign) and isinstance(n.targets[0], ast.Subscript) and self_attr(n.targets[0].value) == running
                   for n in ast.walk(fn))
    trashers = [fn for fn in methods.values() if fn not in creators and fn.name not in absorbed and writes_running(fn) and fn.name != "initialize"]
    if len(trashers) > 1:
        # the trash routine is the one that hands the stopped handlers back to the caller; any other writer is reported below
        returning = [fn for fn in trashers if any(isinstance(r, ast.Return) and r.value is not None for r in ast.walk(fn))]
        if len(returning) == 1:
            trashers = returning
    if len(trashers) != 1:
        raise IdiomNotRecognised("TagActivator: trash routine not identified")
    tf = trashers[0]
    loc = Loc(FILE, tf.lineno, f"TagActivator.{tf.name}")
    loops: List[ast.For] = []

    def _blocks(stmts: List[ast.stmt]) -> None:
        """the trash loop may sit in a branch of a top-level case distinction; a returning branch without any loop is judged here"""
        loops.extend(n for n in stmts if isinstance(n, ast.For))
        for st_ in stmts:
            if not isinstance(st_, ast.If):
                continue
            for br in (st_.body, st_.orelse):
                if not br:
                    continue
                has_loop = any(isinstance(x, (ast.For, ast.While, ast.ListComp, ast.GeneratorExp)) for y in br for x in ast.walk(y))
                returns = any(isinstance(x, ast.Return) and x.value is not None for y in br for x in ast.walk(y))
                if returns and not has_loop:
                    single = [c for y in br for c in ast.walk(y) if isinstance(c, ast.Call) and isinstance(c.func, ast.Attribute)
                              and c.func.attr in ("remove", "append", "pop", "discard", "add")
                              and isinstance(c.func.value, ast.Subscript) and self_attr(c.func.value.value) in (running, not_running)]
                    rep.ob("R9.3-trash-branch-stops-all-running", False if single else None, Loc(FILE, br[0].lineno, f"TagActivator.{tf.name}"),
                           f"branch under `{norm(st_.test)[:120]}` returns without a loop over the trash list"
                           + (f" and moves single handlers: {[norm(c)[:100] for c in single]}" if single else ""),
                           "on every path the trash routine must stop ALL running handlers of EVERY trashed tagger; a branch that moves one "
                           "handler element-wise leaves the other candidates of that tagger (computed from the old trajectory) in the scheduler")
                else:
                    _blocks(br)
    _blocks(body_without_docstring(tf))
    if len(loops) != 1:
        rep.ob("R9.3-linear-trash", None, loc, tf.name, "idiom not recognised")
    else:
        loop = loops[0]
        tvar = norm(loop.target)
        base_ = loop.iter
        while isinstance(base_, ast.Subscript):
            base_ = base_.value
        root_ = base_
        while isinstance(root_, ast.Attribute):
            root_ = root_.value
        # an entry of a table kept by the activator (directly in an attribute, or in a field of a record kept in an attribute)
        iter_ok = isinstance(loop.iter, ast.Subscript) and (self_attr(base_) is not None or
                                                             (isinstance(root_, ast.Name) and root_.id == "self" and isinstance(base_, ast.Attribute)))
        # symbolic execution of one iteration over list values: running[t] = (R0,), not_running[t] = (N0,), every local list
        # that exists before the loop = (<name>0,).  Afterwards running[t] must be empty, not_running[t] = N0 + R0 and exactly
        # one local list must have gained R0 (the collected handlers); aliases of the running list are followed.
        R, N = ("R0",), ("N0",)
        env: Dict[str, Tuple[Tuple[str, ...], bool]] = {}   # name -> (value, aliases the running list object)
        unknown: List[str] = []

        def is_pool(e: ast.AST, pool: str) -> bool:
            return isinstance(e, ast.Subscript) and self_attr(e.value) == pool and norm(e.slice) == tvar

        def val(e: ast.AST) -> Optional[Tuple[Tuple[str, ...], bool]]:
            if is_pool(e, running):
                return R, True
            if is_pool(e, not_running):
                return N, False
            if isinstance(e, ast.Name):
                return env.get(e.id, ((e.id + "0",), False))
            if isinstance(e, ast.List) and not e.elts:
                return (), False
            if isinstance(e, ast.Call) and ((isinstance(e.func, ast.Name) and e.func.id in ("list", "copy", "tuple") and len(e.args) == 1)):
                v = val(e.args[0])
                return None if v is None else (v[0], False)
            if isinstance(e, ast.Call) and isinstance(e.func, ast.Attribute) and e.func.attr == "copy" and not e.args:
                v = val(e.func.value)
                return None if v is None else (v[0], False)
            if isinstance(e, ast.Subscript) and isinstance(e.slice, ast.Slice) and e.slice.lower is None and e.slice.upper is None:
                v = val(e.value)
                return None if v is None else (v[0], False)
            if isinstance(e, ast.BinOp) and isinstance(e.op, ast.Add):
                a, b = val(e.left), val(e.right)
                return None if a is None or b is None else (a[0] + b[0], False)
            return None

        def store(target: ast.AST, v: Tuple[Tuple[str, ...], bool], rebinding: bool) -> bool:
            nonlocal R, N
            if is_pool(target, running):
                if not rebinding:
                    for k, (vv, al) in list(env.items()):
                        if al:
                            env[k] = (v[0], True)
                else:
                    for k, (vv, al) in list(env.items()):
                        if al:
                            env[k] = (vv, False)   # the name keeps the old list object
                R = v[0]
                return True
            if is_pool(target, not_running):
                N = v[0]
                return True
            if isinstance(target, ast.Name):
                env[target.id] = (v[0], v[1] and rebinding)
                return True
            return False
        for st in loop.body:
            done = False
            if isinstance(st, ast.Assign) and len(st.targets) == 1:
                v = val(st.value)
                done = v is not None and store(st.targets[0], v, True)
            elif isinstance(st, ast.AugAssign) and isinstance(st.op, ast.Add):
                a, b = val(st.target), val(st.value)
                done = a is not None and b is not None and store(st.target, (a[0] + b[0], a[1]), False)
            elif isinstance(st, ast.Expr) and isinstance(st.value, ast.Call) and isinstance(st.value.func, ast.Attribute):
                c = st.value
                if c.func.attr == "extend" and len(c.args) == 1:
                    a, b = val(c.func.value), val(c.args[0])
                    done = a is not None and b is not None and store(c.func.value, (a[0] + b[0], a[1]), False)
                elif c.func.attr == "clear" and not c.args:
                    a = val(c.func.value)
                    done = a is not None and store(c.func.value, ((), a[1]), False)
            elif isinstance(st, (ast.Pass, ast.Assert)) or (isinstance(st, ast.Expr) and isinstance(st.value, ast.Constant)):
                done = True
            if not done:
                unknown.append(norm(st))
        gained = [k for k, (vv, al) in env.items() if vv == (k + "0", "R0")]
        collected = gained
        seq = {"running": R, "not_running": N, **{k: v[0] for k, v in env.items()}}
        ok_order = not unknown and R == () and N == ("N0", "R0") and len(gained) == 1
        rep.ob("R9.3-linear-trash", (None if unknown else bool(ok_order)), Loc(FILE, loop.lineno, f"TagActivator.{tf.name}"),
               f"{tf.name}: move running -> not-running, collect, then clear",
               (f"statement not interpreted: {unknown[0]}" if unknown else
                f"for every trashed tagger all running handlers must be returned to the not-running pool and reported "
                f"exactly once and the running list must end up empty (one iteration gives {seq})"))
        rets = [n for n in ast.walk(tf) if isinstance(n, ast.Return)]
        rep.ob("R9.3-trash-returns-collected", bool(rets) and all(r.value is not None and collected and norm(r.value) == collected[0]
                                                                  for r in rets),
               loc, f"{tf.name}: returns the collected handlers", "the trashable events returned must be exactly those moved")
        rep.ob("R9.3-trash-iterates-trash-list", iter_ok, loc, f"{tf.name}: iterates {norm(loop.iter)}",
               "the loop must run over the trash list of the committing tagger")
        # which dictionary: must be the one built from 'trashes'
        built = _built_from(cls, methods)
        if isinstance(loop.iter, ast.Subscript):
            src_list = built.get(self_attr(loop.iter.value))
            # provenance unknown (the table is not one of those built directly from a list attribute of the taggers): undecided
            rep.ob("R9.3-trash-list-is-trashes", None if src_list is None else src_list == "trashes", loc,
                   f"{self_attr(loop.iter.value)} built from `{built.get(self_attr(loop.iter.value))}`",
                   "the dictionary iterated in the trash routine must be the one built from the taggers' `trashes`")
        for fn in creators:
            for loop2 in [n for n in ast.walk(fn) if isinstance(n, ast.For) and isinstance(n.iter, ast.Subscript)
                          and self_attr(n.iter.value) in built]:
                inner_calls = {c.func.attr for c in ast.walk(loop2) if isinstance(c, ast.Call)
                               and isinstance(c.func, ast.Attribute)}
                want = None
                if "yield_identifiers_send_event_time" in inner_calls:
                    want = "creates"
                elif "activate" in inner_calls:
                    want = "activates"
                elif "deactivate" in inner_calls:
                    want = "deactivates"
                if want:
                    rep.ob("R9.3-list-roles", built.get(self_attr(loop2.iter.value)) == want,
                           Loc(FILE, loop2.lineno, f"TagActivator.{fn.name}"),
                           f"{fn.name}: {want} loop uses {self_attr(loop2.iter.value)}",
                           f"the loop that {want[:-1]}s taggers iterates the dictionary built from "
                           f"`{built.get(self_attr(loop2.iter.value))}`")
    # -- inside the creation routines the pools change only by the linear move of the creation loop --------------------------
    for fn in creators:
        # the linear move, wherever it stands: h = not_running[t].pop()  ...  running[t].append(h)
        moves = set()
        popped: Dict[str, ast.AST] = {}
        for n in ast.walk(fn):
            if isinstance(n, ast.Assign) and len(n.targets) == 1 and isinstance(n.targets[0], ast.Name) and isinstance(n.value, ast.Call) \
                    and isinstance(n.value.func, ast.Attribute) and n.value.func.attr == "pop" and not n.value.args \
                    and isinstance(n.value.func.value, ast.Subscript) and self_attr(n.value.func.value.value) == not_running:
                moves.add(id(n.value))
                popped[n.targets[0].id] = n.value.func.value.slice
        for n in ast.walk(fn):
            if isinstance(n, ast.Call) and isinstance(n.func, ast.Attribute) and n.func.attr == "append" and isinstance(n.func.value, ast.Subscript) \
                    and self_attr(n.func.value.value) == running and len(n.args) == 1 and isinstance(n.args[0], ast.Name) \
                    and n.args[0].id in popped and norm(popped[n.args[0].id]) == norm(n.func.value.slice):
                moves.add(id(n))
        for n in ast.walk(fn):
            other = None
            if isinstance(n, (ast.Assign, ast.AugAssign)):
                for t in (n.targets if isinstance(n, ast.Assign) else [n.target]):
                    if isinstance(t, ast.Subscript) and self_attr(t.value) in (running, not_running):
                        other = n
            elif isinstance(n, ast.Call) and isinstance(n.func, ast.Attribute) and n.func.attr in ("pop", "append", "extend", "clear", "remove", "insert") \
                    and isinstance(n.func.value, ast.Subscript) and self_attr(n.func.value.value) in (running, not_running) and id(n) not in moves:
                other = n
            if other is not None:
                rep.ob("R9.3-pool-writers", False, Loc(FILE, other.lineno, f"TagActivator.{fn.name}"), other,
                       "while event handlers are handed out (activation, deactivation, creation) the pools may change only by moving one "
                       "handler from not-running to running per created event: a handler moved back here still has its candidate event in "
                       "the scheduler, and the trash list of a later event no longer finds it")
    # -- who else writes the pools -------------------------------------------------------------------------------------
    allowed = {fn.name for fn in creators} | absorbed | {tf.name, "initialize", "__init__"}
    for mi in prog.modules.values():
        for n in ast.walk(mi.tree):
            if isinstance(n, ast.Attribute) and n.attr in (running, not_running):
                fnname = _enclosing_fn(mi.tree, n)
                ok = mi.file == FILE and fnname in allowed
                if not ok:
                    rep.ob("R9.3-pool-writers", False, Loc(mi.file, n.lineno, fnname), n,
                           "the handler pools are touched outside TagActivator's create/trash/initialize routines")
    rep.ob("R9.3-pool-writers", True, Loc(FILE, cls.node.lineno, "TagActivator"), f"pools {running}/{not_running}",
           "")
    # -- R9.4 ordering inside the update variant ---------------------------------------------------------------------
    for fn in creators:
        body = body_without_docstring(fn)
        idx: Dict[str, List[int]] = {"activate": [], "deactivate": [], "update": [], "create": []}
        for i, st in enumerate(body):
            if not isinstance(st, ast.For):
                continue
            if _calls(st, "yield_identifiers_send_event_time"):
                idx["create"].append(i)
            elif _calls(st, "activate"):
                idx["activate"].append(i)
            elif _calls(st, "deactivate"):
                idx["deactivate"].append(i)
            elif _calls(st, "update"):
                idx["update"].append(i)
        loc = Loc(FILE, fn.lineno, f"TagActivator.{fn.name}")
        if idx["create"] and (idx["activate"] or idx["deactivate"]):
            first_create = min(idx["create"])
            ok = all(i < first_create for i in idx["activate"] + idx["deactivate"])
            rep.ob("R9.4-activate-before-create", ok, loc, f"{fn.name}: activation before creation",
                   "taggers must be (de)activated before the create loop asks them for in-states")
        takes_preceding = any(isinstance(n, ast.Subscript) and isinstance(n.slice, ast.Name)
                              and n.slice.id.startswith("preceding") for n in ast.walk(fn))
        if idx["create"] and takes_preceding:
            ok = bool(idx["update"]) and max(idx["update"]) < min(idx["create"])
            rep.ob("R9.4-update-before-create", ok, loc, f"{fn.name}: internal-state update before creation",
                   "internal states (cell occupancy) must be updated with the new active state before any tagger "
                   "yields in-states from them")
            if idx["update"]:
                up = body[idx["update"][0]]
                it_ok = isinstance(up, ast.For) and self_attr(up.iter) is not None
                rep.ob("R9.4-update-all-states", it_ok, loc, f"{fn.name}: updates every internal state",
                       "the update loop must run over all internal states")


def check_tagger_switch(prog: Program, rep: Report) -> None:
    """
    R9.5: activate() / deactivate() of a tagger are idempotent state assignments.  The activator applies the (de)activate lists
    of a tagger whenever an event of that tagger precedes (the start-of-run lists are applied twice), and the configuration
    analysis (R9.1) models activation as a function of these lists alone.  That is only true if what the two methods write
    does not depend on what they wrote before: no attribute written by activate / deactivate is read on a right-hand side in
    either of them.
    """
    n = 0
    for ci in [c for c in prog.classes if prog.is_subclass(c, "Tagger")]:
        sw = {name: canon(prog, ci, ci.methods[name], helpers=False) for name in ("activate", "deactivate") if name in ci.methods}
        if not sw:
            continue
        written = {self_attr(t) for fn in sw.values() for a in ast.walk(fn) if isinstance(a, (ast.Assign, ast.AugAssign, ast.AnnAssign))
                   for t in (a.targets if isinstance(a, ast.Assign) else [a.target]) if self_attr(t)}
        for name, fn in sw.items():
            n += 1
            reads = []
            for a in ast.walk(fn):
                if isinstance(a, (ast.Assign, ast.AugAssign, ast.AnnAssign)) and a.value is not None:
                    reads += [x for x in ast.walk(a.value) if self_attr(x) in written]
                    if isinstance(a, ast.AugAssign) and self_attr(a.target) in written:
                        reads.append(a.target)
            rep.ob("R9.5-switch-idempotent", not reads, Loc(ci.file, fn.lineno, f"{ci.name}.{name}"),
                   f"{ci.name}.{name}: writes {sorted(written)}" + (f", reads {sorted({self_attr(x) for x in reads})}" if reads else ""),
                   f"{name}() computes the new state of the tagger from a state that activate / deactivate themselves change "
                   f"({sorted({self_attr(x) for x in reads})}): applying it twice differs from applying it once, but the activator "
                   f"applies (de)activation lists repeatedly (the start-of-run lists twice) -- a tagger deactivated twice can never "
                   f"be activated again and its events are missing for the rest of the run")
    if n < 2:
        raise AnalysisError("Tagger.activate / Tagger.deactivate not found")


def _built_from(cls: ClassInfo, methods: Dict[str, ast.FunctionDef]) -> Dict[str, str]:
    """
    self.<dict> -> name of the tagger attribute list it is built from ('creates', 'trashes', 'activates', 'deactivates'):
    either `self.X = self._helper("trashes")` (raw constructor) or, with the helper inlined, the loop over
    `getattr(tagger, "trashes")` / `tagger.trashes` that fills the dictionary assigned to self.X.
    """
    built: Dict[str, str] = {}
    raw = cls.methods.get("__init__")
    if raw is not None:
        for n in ast.walk(raw):
            if isinstance(n, ast.Assign) and self_attr(n.targets[0]) and isinstance(n.value, ast.Call) \
                    and n.value.args and isinstance(n.value.args[0], ast.Constant) and isinstance(n.value.args[0].value, str):
                built[self_attr(n.targets[0])] = n.value.args[0].value
    init = methods.get("__init__")
    if init is not None:
        body = list(init.body)
        for i, st in enumerate(body):
            if isinstance(st, ast.Assign) and self_attr(st.targets[0]) and isinstance(st.value, ast.Name) and self_attr(st.targets[0]) not in built:
                v = st.value.id
                for prev in reversed(body[:i]):
                    hit = None
                    for lp in ast.walk(prev):
                        if not isinstance(lp, ast.For):
                            continue
                        it = lp.iter
                        const = None
                        if isinstance(it, ast.Call) and norm(it.func) == "getattr" and len(it.args) >= 2 and isinstance(it.args[1], ast.Constant):
                            const = it.args[1].value
                        elif isinstance(it, ast.Attribute) and it.attr in ("creates", "trashes", "activates", "deactivates"):
                            const = it.attr
                        fills = any(isinstance(c, ast.Call) and isinstance(c.func, ast.Attribute) and c.func.attr in ("append", "extend")
                                    and isinstance(c.func.value, ast.Subscript) and isinstance(c.func.value.value, ast.Name)
                                    and c.func.value.value.id == v for c in ast.walk(lp))
                        if const is not None and fills:
                            hit = const
                    if hit is not None:
                        built[self_attr(st.targets[0])] = hit
                        break
    return built


def _enclosing_fn(tree: ast.Module, node: ast.AST) -> str:
    for n in ast.walk(tree):
        if isinstance(n, ast.FunctionDef) and n.lineno <= node.lineno <= (n.end_lineno or n.lineno):
            name = n.name
    return locals().get("name", "")
