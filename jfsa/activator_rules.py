"""
R9.3 / R9.4 -- bookkeeping of TagActivator: linear (move-only) accounting of event handlers between the running and the
not-running pool, ordering of activate/deactivate, internal-state update and creation inside one activator call.
Anchors are found by role (which attribute is popped from / appended to next to the yield of in-state identifiers).
"""
import ast
from typing import Dict, List, Optional, Set, Tuple

from .core import AnalysisError, Loc, Report, norm
from .pyfront import ClassInfo, Program, body_without_docstring, self_attr

FILE = "jellyfysh/activator/tag_activator.py"


def _calls(node: ast.AST, attr: str) -> List[ast.Call]:
    return [n for n in ast.walk(node) if isinstance(n, ast.Call) and isinstance(n.func, ast.Attribute)
            and n.func.attr == attr]


def check(prog: Program, rep: Report) -> None:
    cls = prog.class_named("TagActivator")
    methods = cls.methods
    # -- find the creation functions: contain a loop over <tagger>.yield_identifiers_send_event_time(...) ----------------
    creators = [fn for fn in methods.values() if _calls(fn, "yield_identifiers_send_event_time")]
    if len(creators) < 2:
        raise AnalysisError("TagActivator: the two get_event_handlers_to_run variants were not found")
    pools: Set[Tuple[str, str]] = set()
    for fn in creators:
        loc0 = Loc(FILE, fn.lineno, f"TagActivator.{fn.name}")
        loops = [n for n in ast.walk(fn) if isinstance(n, ast.For) and isinstance(n.iter, ast.Call)
                 and isinstance(n.iter.func, ast.Attribute) and n.iter.func.attr == "yield_identifiers_send_event_time"]
        for loop in loops:
            tagger_expr = norm(loop.iter.func.value)
            ident = norm(loop.target)
            pops = [(n, a) for n in ast.walk(loop) if isinstance(n, ast.Assign) and isinstance(n.value, ast.Call)
                    and isinstance(n.value.func, ast.Attribute) and n.value.func.attr == "pop"
                    for a in [n.value.func.value] if isinstance(a, ast.Subscript) and self_attr(a.value)]
            appends = [(n, n.func.value) for n in _calls(loop, "append") if isinstance(n.func.value, ast.Subscript)
                       and self_attr(n.func.value.value)]
            maps = [n for n in ast.walk(loop) if isinstance(n, ast.Assign) and isinstance(n.targets[0], ast.Subscript)
                    and isinstance(n.targets[0].value, ast.Name) and norm(n.value) == ident]
            loc = Loc(FILE, loop.lineno, f"TagActivator.{fn.name}")
            ok = len(pops) == 1 and len(appends) == 1 and len(maps) == 1
            if not ok:
                rep.ob("R9.3-linear-create", False if (pops or appends or maps) else None, loc, loop.iter,
                       f"each yielded in-state must move exactly one handler not-running -> running and map it "
                       f"(found {len(pops)} pops, {len(appends)} appends, {len(maps)} mappings)")
                continue
            (pop_stmt, pop_sub), (app_call, app_sub), map_stmt = pops[0], appends[0], maps[0]
            handler_var = norm(pop_stmt.targets[0])
            src_pool, dst_pool = self_attr(pop_sub.value), self_attr(app_sub.value)
            pools.add((src_pool, dst_pool))
            conds = {
                "popped from the pool of the creating tagger": norm(pop_sub.slice) == tagger_expr,
                "appended to the running pool of the same tagger": norm(app_sub.slice) == tagger_expr,
                "the popped handler is the one appended": app_call.args and norm(app_call.args[0]) == handler_var,
                "the popped handler is the one mapped to the in-state": norm(map_stmt.targets[0].slice) == handler_var,
                "source and destination pools differ": src_pool != dst_pool,
            }
            for what, good in conds.items():
                rep.ob("R9.3-linear-create", bool(good), loc, f"{fn.name}: {what}",
                       f"in the creation loop of {fn.name}: not {what}")
            # the pop is guarded: exhaustion raises TagActivatorError instead of silently dropping a factor
            guarded = any(isinstance(t, ast.Try) and any(x is pop_stmt for st in t.body for x in ast.walk(st))
                          and any(isinstance(x, ast.Raise) for h in t.handlers for x in ast.walk(h))
                          for t in ast.walk(loop))
            rep.ob("R9.3-exhaustion-raises", guarded, loc, f"{fn.name}: pool exhaustion",
                   "an empty not-running pool must raise (a swallowed IndexError would silently drop a factor)")
    if len(pools) != 1:
        raise AnalysisError(f"TagActivator: handler pools not identified uniquely: {pools}")
    not_running, running = next(iter(pools))
    # -- trash function: reads running[t], moves it to not_running[t], clears running[t] -----------------------------------
    trashers = [fn for fn in methods.values() if fn not in creators and any(
        isinstance(n, ast.Assign) and isinstance(n.targets[0], ast.Subscript) and self_attr(n.targets[0].value) == running
        for n in ast.walk(fn))and fn.name != "initialize"]
    if len(trashers) != 1:
        raise AnalysisError("TagActivator: trash routine not identified")
    tf = trashers[0]
    loops = [n for n in body_without_docstring(tf) if isinstance(n, ast.For)]
    loc = Loc(FILE, tf.lineno, f"TagActivator.{tf.name}")
    if len(loops) != 1:
        rep.ob("R9.3-linear-trash", None, loc, tf.name, "idiom not recognised")
    else:
        loop = loops[0]
        tvar = norm(loop.target)
        iter_ok = isinstance(loop.iter, ast.Subscript) and self_attr(loop.iter.value) is not None
        seq = []
        for st in loop.body:
            if isinstance(st, ast.AugAssign) and isinstance(st.op, ast.Add):
                src = st.value
                if isinstance(src, ast.Subscript) and self_attr(src.value) == running and norm(src.slice) == tvar:
                    if isinstance(st.target, ast.Subscript) and self_attr(st.target.value) == not_running \
                            and norm(st.target.slice) == tvar:
                        seq.append("to_not_running")
                    elif isinstance(st.target, ast.Name):
                        seq.append(("collect", st.target.id))
            elif isinstance(st, ast.Assign) and isinstance(st.targets[0], ast.Subscript) \
                    and self_attr(st.targets[0].value) == running and norm(st.targets[0].slice) == tvar \
                    and isinstance(st.value, ast.List) and not st.value.elts:
                seq.append("clear")
            elif isinstance(st, ast.Expr) and isinstance(st.value, ast.Call) and isinstance(st.value.func, ast.Attribute) \
                    and st.value.func.attr == "extend":
                tgt, arg = st.value.func.value, st.value.args[0] if st.value.args else None
                if isinstance(arg, ast.Subscript) and self_attr(arg.value) == running and norm(arg.slice) == tvar:
                    if isinstance(tgt, ast.Subscript) and self_attr(tgt.value) == not_running:
                        seq.append("to_not_running")
                    elif isinstance(tgt, ast.Name):
                        seq.append(("collect", tgt.id))
            else:
                seq.append("other")
        collected = [x[1] for x in seq if isinstance(x, tuple)]
        ok_order = "clear" in seq and "to_not_running" in seq and collected \
            and seq.index("clear") > seq.index("to_not_running") \
            and seq.index("clear") > max(i for i, x in enumerate(seq) if isinstance(x, tuple)) \
            and seq.count("clear") == 1 and seq.count("to_not_running") == 1 and len(collected) == 1 \
            and "other" not in seq
        rep.ob("R9.3-linear-trash", bool(ok_order), Loc(FILE, loop.lineno, f"TagActivator.{tf.name}"),
               f"{tf.name}: move running -> not-running, collect, then clear",
               f"for every trashed tagger all running handlers must be returned to the not-running pool and reported "
               f"exactly once before the running list is cleared (found sequence {seq})")
        rets = [n for n in ast.walk(tf) if isinstance(n, ast.Return)]
        rep.ob("R9.3-trash-returns-collected", bool(rets) and all(r.value is not None and collected and norm(r.value) == collected[0]
                                                                  for r in rets),
               loc, f"{tf.name}: returns the collected handlers", "the trashable events returned must be exactly those moved")
        rep.ob("R9.3-trash-iterates-trash-list", iter_ok, loc, f"{tf.name}: iterates {norm(loop.iter)}",
               "the loop must run over the trash list of the committing tagger")
        # which dictionary: must be the one built from 'trashes'
        init = methods.get("__init__")
        built: Dict[str, str] = {}
        if init:
            for n in ast.walk(init):
                if isinstance(n, ast.Assign) and self_attr(n.targets[0]) and isinstance(n.value, ast.Call) \
                        and n.value.args and isinstance(n.value.args[0], ast.Constant):
                    built[self_attr(n.targets[0])] = n.value.args[0].value
        if isinstance(loop.iter, ast.Subscript):
            rep.ob("R9.3-trash-list-is-trashes", built.get(self_attr(loop.iter.value)) == "trashes", loc,
                   f"{self_attr(loop.iter.value)} built from `{built.get(self_attr(loop.iter.value))}`",
                   "the dictionary iterated in the trash routine must be the one built from the taggers' `trashes`")
        for fn in creators:
            for loop2 in [n for n in ast.walk(fn) if isinstance(n, ast.For) and isinstance(n.iter, ast.Subscript)
                          and self_attr(n.iter.value) in built]:
                inner_calls = {c.func.attr for c in ast.walk(loop2) if isinstance(c, ast.Call)
                               and isinstance(c.func, ast.Attribute)}
                want = None
                if "yield_identifiers_send_event_time" in inner_calls:
                    want = "creates"
                elif "activate" in inner_calls:
                    want = "activates"
                elif "deactivate" in inner_calls:
                    want = "deactivates"
                if want:
                    rep.ob("R9.3-list-roles", built.get(self_attr(loop2.iter.value)) == want,
                           Loc(FILE, loop2.lineno, f"TagActivator.{fn.name}"),
                           f"{fn.name}: {want} loop uses {self_attr(loop2.iter.value)}",
                           f"the loop that {want[:-1]}s taggers iterates the dictionary built from "
                           f"`{built.get(self_attr(loop2.iter.value))}`")
    # -- who else writes the pools -------------------------------------------------------------------------------------
    allowed = {fn.name for fn in creators} | {tf.name, "initialize", "__init__"}
    for mi in prog.modules.values():
        for n in ast.walk(mi.tree):
            if isinstance(n, ast.Attribute) and n.attr in (running, not_running):
                fnname = _enclosing_fn(mi.tree, n)
                ok = mi.file == FILE and fnname in allowed
                if not ok:
                    rep.ob("R9.3-pool-writers", False, Loc(mi.file, n.lineno, fnname), n,
                           "the handler pools are touched outside TagActivator's create/trash/initialize routines")
    rep.ob("R9.3-pool-writers", True, Loc(FILE, cls.node.lineno, "TagActivator"), f"pools {running}/{not_running}",
           "")
    # -- R9.4 ordering inside the update variant ---------------------------------------------------------------------
    for fn in creators:
        body = body_without_docstring(fn)
        idx: Dict[str, List[int]] = {"activate": [], "deactivate": [], "update": [], "create": []}
        for i, st in enumerate(body):
            if not isinstance(st, ast.For):
                continue
            if _calls(st, "yield_identifiers_send_event_time"):
                idx["create"].append(i)
            elif _calls(st, "activate"):
                idx["activate"].append(i)
            elif _calls(st, "deactivate"):
                idx["deactivate"].append(i)
            elif _calls(st, "update"):
                idx["update"].append(i)
        loc = Loc(FILE, fn.lineno, f"TagActivator.{fn.name}")
        if idx["create"] and (idx["activate"] or idx["deactivate"]):
            first_create = min(idx["create"])
            ok = all(i < first_create for i in idx["activate"] + idx["deactivate"])
            rep.ob("R9.4-activate-before-create", ok, loc, f"{fn.name}: activation before creation",
                   "taggers must be (de)activated before the create loop asks them for in-states")
        takes_preceding = any(isinstance(n, ast.Subscript) and isinstance(n.slice, ast.Name)
                              and n.slice.id.startswith("preceding") for n in ast.walk(fn))
        if idx["create"] and takes_preceding:
            ok = bool(idx["update"]) and max(idx["update"]) < min(idx["create"])
            rep.ob("R9.4-update-before-create", ok, loc, f"{fn.name}: internal-state update before creation",
                   "internal states (cell occupancy) must be updated with the new active state before any tagger "
                   "yields in-states from them")
            if idx["update"]:
                up = body[idx["update"][0]]
                it_ok = isinstance(up, ast.For) and self_attr(up.iter) is not None
                rep.ob("R9.4-update-all-states", it_ok, loc, f"{fn.name}: updates every internal state",
                       "the update loop must run over all internal states")


def _enclosing_fn(tree: ast.Module, node: ast.AST) -> str:
    for n in ast.walk(tree):
        if isinstance(n, ast.FunctionDef) and n.lineno <= node.lineno <= (n.end_lineno or n.lineno):
            name = n.name
    return locals().get("name", "")
