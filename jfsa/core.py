"""
Core of the static-analysis framework: source provider (with overlay for self-tests), obligations, findings,
known-findings handling, evidence writing and exit codes.

Nothing in this package imports or executes code from the analysed repository.
"""
import ast
import fnmatch
import hashlib
import json
import os
import re
import shutil
import sys
import tempfile
import time
from typing import Any, Dict, Iterable, List, Optional, Sequence, Tuple

VERIF_DIR = os.path.dirname(os.path.dirname(os.path.abspath(__file__)))
DEFAULT_REPO = os.environ.get("JFSA_REPO", "/repo")
KNOWN_FINDINGS_FILE = os.path.join(VERIF_DIR, "known_findings.json")


class AnalysisError(Exception):
    """The analyser cannot decide (anchor vanished, parse failure, instance count below the confirmed minimum)."""


class IdiomNotRecognised(AnalysisError):
    """
    The anchor exists but the roles of its parts (which attribute is the pool, which routine commits, ..) cannot be derived from
    how the code is written now.  The rules that need these roles are UNDECIDED (reported, exit 0): an unrecognised way of writing
    the mechanism is not evidence that the property is broken.  A vanished anchor (file / class / function named by the property)
    stays an AnalysisError (exit 2).
    """


def tolerant(rule: str):
    """decorator for a rule set `f(.., rep, ..)`: an IdiomNotRecognised inside it becomes one undecided obligation of `rule`"""
    def deco(fn):
        def wrapper(*args, **kwargs):
            try:
                return fn(*args, **kwargs)
            except IdiomNotRecognised as e:
                rep = next((a for a in list(args) + list(kwargs.values()) if isinstance(a, Report)), None)
                if rep is None:
                    raise
                rep.ob(rule, None, Loc("jellyfysh", 0, fn.__name__), fn.__name__, f"idiom not recognised: {e}")
                return None
        wrapper.__name__ = fn.__name__
        wrapper.__doc__ = fn.__doc__
        return wrapper
    return deco


class Source:
    """
    Read-only view of the repository working tree. An overlay (relative path -> replacement text) lets the self-test
    analyse a single-edit variant without touching /repo; files that external tools (clang) must read are materialised
    in a private temporary directory that mirrors the relative path.
    """

    def __init__(self, root: str = DEFAULT_REPO, overlay: Optional[Dict[str, str]] = None) -> None:
        self.root = os.path.abspath(root)
        self.overlay = dict(overlay or {})
        self._tmp: Optional[str] = None
        self._cache: Dict[str, str] = {}
        self._ast_cache: Dict[str, ast.Module] = {}
        self.files_read: set = set()

    def exists(self, rel: str) -> bool:
        if rel in self.overlay:
            return self.overlay[rel] is not None
        return os.path.isfile(os.path.join(self.root, rel))

    def read(self, rel: str) -> str:
        if rel in self._cache:
            return self._cache[rel]
        if rel in self.overlay:
            text = self.overlay[rel]
            if text is None:
                raise AnalysisError(f"file {rel} removed in overlay")
        else:
            path = os.path.join(self.root, rel)
            try:
                with open(path, "r", encoding="utf-8", errors="replace") as f:
                    text = f.read()
            except OSError as e:
                raise AnalysisError(f"anchor file vanished: {rel} ({e})")
        self._cache[rel] = text
        self.files_read.add(rel)
        return text

    def parse(self, rel: str) -> ast.Module:
        if rel not in self._ast_cache:
            try:
                tree = ast.parse(self.read(rel), filename=rel)
                # every module is brought into the front-end normal form once, at parse time (jfsa/normalize.py)
                from .normalize import normal_form_module
                normal_form_module(tree)
                self._ast_cache[rel] = tree
            except SyntaxError as e:
                raise AnalysisError(f"cannot parse {rel}: {e}")
        return self._ast_cache[rel]

    def walk(self, top: str, pattern: str = "*") -> List[str]:
        """All files below `top` (relative) whose basename matches pattern, sorted, relative paths."""
        out = []
        base = os.path.join(self.root, top)
        for dirpath, dirnames, filenames in os.walk(base):
            dirnames[:] = sorted(d for d in dirnames if d != "__pycache__")
            for fn in sorted(filenames):
                if fnmatch.fnmatch(fn, pattern):
                    rel = os.path.relpath(os.path.join(dirpath, fn), self.root)
                    if rel in self.overlay and self.overlay[rel] is None:
                        continue
                    out.append(rel)
        for rel in self.overlay:
            if rel.startswith(top.rstrip("/") + "/") and fnmatch.fnmatch(os.path.basename(rel), pattern) \
                    and rel not in out and self.overlay[rel] is not None:
                out.append(rel)
        return sorted(out)

    def real_path(self, rel: str) -> str:
        """A path on disk holding the (possibly overlaid) content of rel; siblings in the same directory that are
        overlaid are materialised as well, others are reachable through include_dir()."""
        if rel not in self.overlay:
            return os.path.join(self.root, rel)
        if self._tmp is None:
            self._tmp = tempfile.mkdtemp(prefix="jfsa_overlay_")
        path = os.path.join(self._tmp, rel)
        os.makedirs(os.path.dirname(path), exist_ok=True)
        with open(path, "w", encoding="utf-8") as f:
            f.write(self.overlay[rel])
        return path

    def close(self) -> None:
        if self._tmp is not None:
            shutil.rmtree(self._tmp, ignore_errors=True)
            self._tmp = None

    def digest(self) -> str:
        h = hashlib.sha256()
        for rel in sorted(self.files_read):
            h.update(rel.encode())
            h.update(self._cache.get(rel, "").encode())
        return h.hexdigest()[:16]


def norm(node_or_text: Any) -> str:
    """Normalised text of an AST node or string: used to key findings independent of line numbers / layout."""
    if isinstance(node_or_text, ast.AST):
        try:
            text = ast.unparse(node_or_text)
        except Exception:  # pragma: no cover
            text = ast.dump(node_or_text)
    else:
        text = str(node_or_text)
    # full text: rules compare these strings, so nothing may be cut off here (display and finding keys are cut in Report.ob)
    return re.sub(r"\s+", " ", text).strip()


class Loc:
    def __init__(self, file: str, line: int = 0, qual: str = "") -> None:
        self.file = file
        self.line = line
        self.qual = qual

    def __str__(self) -> str:
        s = f"{self.file}:{self.line}" if self.line else self.file
        return f"{s} ({self.qual})" if self.qual else s


class Finding:
    def __init__(self, prop: str, rule: str, loc: Loc, construct: str, message: str) -> None:
        self.prop = prop
        self.rule = rule
        self.loc = loc
        self.construct = construct
        self.message = message

    @property
    def key(self) -> str:
        return f"{self.rule}|{self.loc.file}|{self.loc.qual}|{self.construct}"

    def to_json(self) -> Dict[str, Any]:
        return {"property": self.prop, "rule": self.rule, "file": self.loc.file, "line": self.loc.line,
                "where": self.loc.qual, "construct": self.construct, "message": self.message, "key": self.key}


class Report:
    """Collects obligations of one property check over one Source."""

    def __init__(self, prop: str, src: Source) -> None:
        self.prop = prop
        self.src = src
        self.obligations = 0
        self.discharged = 0
        self.undecided: List[Dict[str, Any]] = []
        self.findings: List[Finding] = []
        self.rule_counts: Dict[str, int] = {}
        self.decided_counts: Dict[str, int] = {}
        self.nontrivial: set = set()
        self.samples: List[Any] = []
        self.units: Dict[str, int] = {}
        self.notes: List[str] = []
        self.explanations: List[str] = []
        self.assumptions: List[str] = []
        self.exhaustive: Optional[bool] = None
        self.minimums: Dict[str, int] = {}
        self.extra: Dict[str, Any] = {}

    # -- obligations -------------------------------------------------------------------------------------------
    def ob(self, rule: str, ok: Optional[bool], loc: Loc, construct: Any, message: str = "",
           nontrivial: bool = True, sample: bool = False) -> bool:
        """Record one obligation. ok=True discharged, False violated, None undecided."""
        self.obligations += 1
        self.rule_counts[rule] = self.rule_counts.get(rule, 0) + 1
        if ok is not None:
            self.decided_counts[rule] = self.decided_counts.get(rule, 0) + 1
        ctext = norm(construct)[:200]
        if nontrivial:
            self.nontrivial.add((rule, loc.file, loc.qual, ctext))
        if ok is True:
            self.discharged += 1
        elif ok is False:
            self.findings.append(Finding(self.prop, rule, loc, ctext, message))
        else:
            self.undecided.append({"rule": rule, "at": str(loc), "construct": ctext, "why": message})
        if sample or len(self.samples) < 6 and not any(s.get("rule") == rule for s in self.samples):
            self.samples.append({"rule": rule, "at": str(loc), "construct": ctext,
                                 "verdict": {True: "holds", False: "VIOLATED", None: "undecided"}[ok],
                                 "detail": message[:300]})
        return bool(ok)

    def violation(self, rule: str, loc: Loc, construct: Any, message: str) -> None:
        self.ob(rule, False, loc, construct, message)

    def expect_min(self, rule: str, n: int) -> None:
        """Vacuity guard: the rule must have been instantiated at least n times (confirmed by hand on the pinned tree)."""
        self.minimums[rule] = n

    def unit(self, kind: str, n: int = 1) -> None:
        self.units[kind] = self.units.get(kind, 0) + n

    def explain(self, text: str) -> None:
        self.explanations.append(text)

    def assume(self, text: str) -> None:
        self.assumptions.append(text)

    def check_minimums(self) -> None:
        for rule, n in self.minimums.items():
            und = [u for u in self.undecided if u.get("rule") == rule]
            family = rule.split(".")[0]
            if any(u.get("why", "").startswith("idiom not recognised") and u.get("rule", "").split(".")[0] == family for u in self.undecided):
                continue      # reported as undecided: the mechanism of this rule family is written in a way the rules do not follow
            got = self.decided_counts.get(rule, 0) + len(und)
            if got < n:
                raise AnalysisError(f"rule {rule}: only {got} instances decided, {n} confirmed by hand on the pinned tree"
                                    f" (anchor vanished or idiom not recognised)")


def load_known() -> Dict[str, Any]:
    try:
        with open(KNOWN_FINDINGS_FILE) as f:
            return json.load(f)
    except FileNotFoundError:
        return {"known": [], "fixed": []}


def write_evidence(prop: str, tier: str, seed: int, reports: Sequence[Report], wall: float, violations: int,
                   selftest: Optional[Dict[str, Any]] = None, known_printed: int = 0) -> str:
    obligations = sum(r.obligations for r in reports)
    discharged = sum(r.discharged for r in reports)
    undecided = [u for r in reports for u in r.undecided]
    nontrivial = set()
    for r in reports:
        nontrivial |= r.nontrivial
    samples: List[Any] = []
    for r in reports:
        samples.extend(r.samples)
    rule_counts: Dict[str, int] = {}
    units: Dict[str, int] = {}
    for r in reports:
        for k, v in r.rule_counts.items():
            rule_counts[k] = rule_counts.get(k, 0) + v
        for k, v in r.units.items():
            units[k] = max(units.get(k, 0), v)
    explanation = " ".join(e for r in reports for e in r.explanations)
    exh = [r.exhaustive for r in reports if r.exhaustive is not None]
    coverage: Dict[str, Any] = {
        "explanation": explanation or "static rule set over the working tree",
        "obligations": obligations,
        "discharged": discharged,
        "undecided": len(undecided),
        "undecided_list": undecided[:40],
        "evaluations": max(obligations, 1),
        "distinct_nontrivial": len(nontrivial),
        "rule": "one evaluation = one rule instance (rule x construct) decided on the working tree; distinct_nontrivial "
                "counts distinct (rule, file, function, normalised construct) whose verdict needed a path, fixpoint, "
                "table enumeration or resolved-call argument, not a mere name match",
        "rule_instances": rule_counts,
        "units": units,
        "samples": samples[:12] or [{"note": "no obligations"}],
        "known_findings_printed": known_printed,
        "files_analysed": sorted(set().union(*[r.src.files_read for r in reports]))[:400] if reports else [],
        "source_digest": reports[0].src.digest() if reports else "",
    }
    for r in reports:
        coverage.update(r.extra)
    if exh:
        coverage["exhaustive"] = all(exh)
    if selftest is not None:
        coverage["selftest"] = selftest
    ev = {
        "property_id": prop,
        "tier": tier,
        "seed": seed,
        "level": "other",
        "coverage": coverage,
        "assumptions": sorted(set(a for r in reports for a in r.assumptions)),
        "wall_s": round(wall, 3),
        "violations": violations,
    }
    os.makedirs(os.path.join(VERIF_DIR, "evidence"), exist_ok=True)
    path = os.path.join(VERIF_DIR, "evidence", f"{prop}.json")
    tmp = path + ".tmp"
    with open(tmp, "w") as f:
        json.dump(ev, f, indent=1, sort_keys=False)
        f.write("\n")
    os.replace(tmp, path)
    return path


def write_finding(f: Finding) -> str:
    d = os.path.join(VERIF_DIR, "findings", f.prop)
    os.makedirs(d, exist_ok=True)
    name = hashlib.sha1(f.key.encode()).hexdigest()[:12] + ".json"
    path = os.path.join(d, name)
    with open(path, "w") as fh:
        json.dump(f.to_json(), fh, indent=1)
        fh.write("\n")
    return path
