"""
Rules on the cell system (C10: R10.1 - R10.3, C11: R11.1 - R11.4).  All anchors are found by role (which attribute is the
occupant table, which the surplus table) from the code of the concrete CellOccupancy class.
"""
import ast
import re
from typing import Dict, List, Optional, Set, Tuple

from .core import tolerant, IdiomNotRecognised, AnalysisError, Loc, Report, norm
from .inifront import IniConfig, Obj
from .config_graph import ConfigGraph
from .guards import atoms, path_conditions
from .resolve import Resolver, split_atom
from .normalize import canon
from .pyfront import ClassInfo, Program, body_without_docstring, param_names, self_attr


# ---------------------------------------------------------------------------------------------------------------------
# R11.1 - R11.3  occupancy bookkeeping
# ---------------------------------------------------------------------------------------------------------------------
class OccupancyRoles:
    def __init__(self, prog: Program) -> None:
        cands = [c for c in prog.subclasses("CellOccupancy") if prog.is_concrete(c)]
        if len(cands) != 1:
            raise AnalysisError(f"expected one concrete CellOccupancy class, found {[c.name for c in cands]}")
        self.cls = cands[0]
        gi = self.cls.methods.get("__getitem__")
        ys = self.cls.methods.get("yield_surplus")
        self.occ = self.sur = None
        if gi is not None:
            for n in ast.walk(gi):
                if isinstance(n, ast.Return) and isinstance(n.value, ast.Subscript) and self_attr(n.value.value):
                    self.occ = self_attr(n.value.value)
        if ys is not None:
            # the surplus table is the one attribute the surplus generator reads (however it iterates over it)
            attrs = {self_attr(n) for n in ast.walk(ys) if isinstance(n, ast.Attribute) and self_attr(n)
                     and not any(isinstance(c, ast.Call) and c.func is n for c in ast.walk(ys))}
            if len(attrs) == 1:
                self.sur = attrs.pop()
        if not (self.occ and self.sur):
            raise IdiomNotRecognised("occupant / surplus tables of the cell occupancy not identified by role")
        ya = self.cls.methods.get("yield_active_cells")
        self.active_cell = self.active_id = None
        if ya is not None:
            for n in ast.walk(ya):
                if isinstance(n, ast.Yield) and isinstance(n.value, ast.Tuple) and len(n.value.elts) == 2:
                    self.active_cell, self.active_id = self_attr(n.value.elts[0]), self_attr(n.value.elts[1])
        if not (self.active_cell and self.active_id):
            raise IdiomNotRecognised("active cell / active identifier attributes not identified by role")
        # relevance predicate: the attribute that the constructor binds to a lambda
        self.relevant = None
        init = self.cls.methods.get("__init__")
        for n in ast.walk(init) if init is not None else []:
            if isinstance(n, ast.Assign) and self_attr(n.targets[0]) and any(isinstance(x, ast.Lambda) for x in ast.walk(n.value)):
                self.relevant = self_attr(n.targets[0])


def _append_target(call: ast.Call, roles: OccupancyRoles) -> Optional[Tuple[str, str]]:
    """(table 'occ'|'sur', cell expression text) for  self._occupants[c].append(x) / self._surplus.setdefault(c, []).append(x)"""
    if not (isinstance(call.func, ast.Attribute) and call.func.attr == "append"):
        return None
    recv = call.func.value
    if isinstance(recv, ast.Subscript) and self_attr(recv.value) == roles.occ:
        return "occ", norm(recv.slice)
    if isinstance(recv, ast.Subscript) and self_attr(recv.value) == roles.sur:
        return "sur", norm(recv.slice)
    if isinstance(recv, ast.Call) and isinstance(recv.func, ast.Attribute) and recv.func.attr == "setdefault" \
            and self_attr(recv.func.value) == roles.sur and recv.args:
        return "sur", norm(recv.args[0])
    return None


def _cap_table(test: ast.AST, roles: OccupancyRoles, cell: str) -> Optional[Tuple[bool, bool, bool, bool]]:
    """
    Truth table of a placement test over the two atoms  A: len(occupants[cell]) < maximum  and  U: occupancy not bounded,
    in the order (A,U) = (F,F), (F,T), (T,F), (T,T); None if the test contains anything else.
    """
    def ev(e: ast.AST, a: bool, u: bool) -> Optional[bool]:
        if isinstance(e, ast.BoolOp):
            vs = [ev(v, a, u) for v in e.values]
            if any(v is None for v in vs):
                return None
            return all(vs) if isinstance(e.op, ast.And) else any(vs)
        if isinstance(e, ast.UnaryOp) and isinstance(e.op, ast.Not):
            v = ev(e.operand, a, u)
            return None if v is None else not v
        if isinstance(e, ast.Compare) and len(e.ops) == 1:
            l, r, op = e.left, e.comparators[0], e.ops[0]
            length = f"len(self.{roles.occ}[{cell}])"
            if norm(l) == length and self_attr(r) is not None and "maximum" in (self_attr(r) or ""):
                return {ast.Lt: a, ast.GtE: not a}.get(type(op))
            if norm(r) == length and self_attr(l) is not None and "maximum" in (self_attr(l) or ""):
                return {ast.Gt: a, ast.LtE: not a}.get(type(op))
            return None
        if self_attr(e) is not None and "bounded" in (self_attr(e) or ""):
            return u
        return None
    rows = [ev(test, a, u) for a in (False, True) for u in (False, True)]
    return None if any(r is None for r in rows) else tuple(rows)  # type: ignore


@tolerant("R11.1-occupancy-roles")
def check_state_per_instance(prog: Program, rep: Report, cls: ClassInfo, rule: str) -> None:
    """
    A container that the methods change in place must be created per instance: a class-level `x = {}` / `[]` / `set()` that no method
    rebinds through `self.x = ..` is one object shared by every instance (every cell system of a run, every run of a process).
    """
    mutating = ("append", "extend", "insert", "remove", "pop", "clear", "add", "discard", "update", "setdefault", "popitem", "sort")
    n = 0
    for c in prog.mro(cls):
        if not c.file.startswith("jellyfysh/"):
            continue
        for st in c.node.body:
            if not (isinstance(st, (ast.Assign, ast.AnnAssign)) and (st.value is not None)):
                continue
            targets = st.targets if isinstance(st, ast.Assign) else [st.target]
            v = st.value
            is_container = isinstance(v, (ast.Dict, ast.List, ast.Set)) or \
                (isinstance(v, ast.Call) and isinstance(v.func, ast.Name) and v.func.id in ("dict", "list", "set", "defaultdict", "deque", "OrderedDict"))
            if not is_container:
                continue
            for t in targets:
                if not isinstance(t, ast.Name):
                    continue
                name = t.id
                rebinds = changed = False
                for owner in prog.mro(cls) + [x for x in prog.subclasses(cls.name)]:
                    for m in owner.methods.values():
                        for x in ast.walk(m):
                            if isinstance(x, ast.Attribute) and x.attr == name and isinstance(x.value, ast.Name) and x.value.id == "self":
                                if isinstance(x.ctx, ast.Store):
                                    rebinds = True
                            if isinstance(x, ast.Subscript) and isinstance(x.ctx, (ast.Store, ast.Del)) and isinstance(x.value, ast.Attribute) \
                                    and x.value.attr == name:
                                changed = True
                            if isinstance(x, ast.Call) and isinstance(x.func, ast.Attribute) and x.func.attr in mutating \
                                    and isinstance(x.func.value, ast.Attribute) and x.func.value.attr == name:
                                changed = True
                if changed:
                    n += 1
                    rep.ob(rule, rebinds, Loc(c.file, st.lineno, c.name), st,
                           f"`{name}` is created once for the class and changed in place by the methods: all instances share it")
    if n == 0:
        rep.ob(rule, True, Loc(cls.file, cls.node.lineno, cls.name), "no class-level container is changed in place", "")


def check_occupancy(prog: Program, rep: Report) -> None:
    roles = OccupancyRoles(prog)
    cls = roles.cls
    file = cls.file
    check_state_per_instance(prog, rep, cls, "R11.1-state-per-instance")
    # canonical forms (private helpers inlined, locals propagated, negated tests flipped); a helper that only serves other
    # methods is judged where it was inlined and as a routine of its own
    methods = {name: canon(prog, cls, fn) for name, fn in cls.methods.items()}
    placement_sites = []
    for fn in methods.values():
        for n in ast.walk(fn):
            if isinstance(n, ast.If):
                then_apps = [(_append_target(c, roles), c) for st in n.body for c in ast.walk(st) if isinstance(c, ast.Call)]
                else_apps = [(_append_target(c, roles), c) for st in n.orelse for c in ast.walk(st) if isinstance(c, ast.Call)]
                then_apps = [(t, c) for t, c in then_apps if t]
                else_apps = [(t, c) for t, c in else_apps if t]
                if len(then_apps) == 1 and len(else_apps) == 1 and {then_apps[0][0][0], else_apps[0][0][0]} == {"occ", "sur"} \
                        and len(n.body) == 1 and len(n.orelse) == 1:
                    occ_first = then_apps[0][0][0] == "occ"
                    placement_sites.append((fn, n, then_apps[0] if occ_first else else_apps[0], else_apps[0] if occ_first else then_apps[0], occ_first))
    shapes = set()
    for fn, site, (tt, tc), (et, ec), occ_first in placement_sites:
        loc = Loc(file, site.lineno, f"{cls.name}.{fn.name}")
        table = _cap_table(site.test, roles, tt[1])
        want = (False, True, True, True) if occ_first else (True, False, False, False)
        shapes.add(None if table is None else (table if occ_first else tuple(not x for x in table)))
        rep.ob("R11.1-placement-cap", None if table is None else table == want, loc, site.test,
               f"a unit is filed as occupant iff its cell has room or occupancy is unbounded, else as surplus: over (has room, unbounded) "
               f"= (F,F),(F,T),(T,F),(T,T) the occupant branch is taken for {table if occ_first or table is None else tuple(not x for x in table)}"
               if table is not None else "placement test not interpreted (expected a combination of `len(occupants[cell]) < maximum` and the not-bounded flag)")
        same_cell = tt[1] == et[1]
        same_id = norm(tc.args[0]) == norm(ec.args[0])
        rep.ob("R11.1-placement-same-unit", same_cell and same_id, loc, f"occupant/surplus placement of {norm(tc.args[0])} in {tt[1]}",
               "both branches of a placement must file the same unit under the same cell")
    rep.ob("R11.1-placement-sites", len(placement_sites) >= 2, Loc(file, cls.node.lineno, cls.name), f"{len(placement_sites)} placement sites",
           "placement in initialize and re-insertion in update not found")
    # sibling agreement of all placement tests (same truth table)
    rep.ob("R11.1-placement-agreement", len(shapes) == 1, Loc(file, cls.node.lineno, cls.name), f"placement tests: {sorted(map(str, shapes))}",
           "initialize and update decide occupant-vs-surplus differently")
    # other appends to the occupant table: only right after a removal from the same cell's occupant list
    site_calls = {id(tc) for _, _, (_, tc), _, _ in placement_sites}
    for fn in methods.values():
        for n in ast.walk(fn):
            if isinstance(n, ast.Call) and _append_target(n, roles) and _append_target(n, roles)[0] == "occ" and id(n) not in site_calls:
                cell = _append_target(n, roles)[1]
                # statements that run before the append on every path to it (earlier statements of its block and of every enclosing block)
                prior = [c for st in _dominating_statements(fn, n) if isinstance(st, ast.Expr) for c in [st.value]
                         if isinstance(c, ast.Call) and isinstance(c.func, ast.Attribute)
                         and c.func.attr == "remove" and isinstance(c.func.value, ast.Subscript) and self_attr(c.func.value.value) == roles.occ
                         and norm(c.func.value.slice) == cell]
                rep.ob("R11.1-no-append-beyond-cap", bool(prior), Loc(file, n.lineno, f"{cls.name}.{fn.name}"), n,
                       "an occupant is appended outside a cap-guarded placement and not in exchange for a removed occupant of "
                       "the same cell: the cell can list more occupants than its limit")
    # a surplus list may be dropped only when it is empty
    for fn in methods.values():
        for n in ast.walk(fn):
            if isinstance(n, ast.Delete) and any(isinstance(t, ast.Subscript) and self_attr(t.value) == roles.sur for t in n.targets):
                cell = [norm(t.slice) for t in n.targets if isinstance(t, ast.Subscript)][0]
                g = _enclosing_if(fn, n)
                conds = path_conditions(fn.body, n) or []
                lst = f"self.{roles.sur}[{cell}]"
                ok = any(a in (f"not {lst}", f"0 == len({lst})", f"len({lst}) == 0", f"len({lst}) < 1", f"len({lst}) <= 0", f"[] == {lst}", f"not len({lst})")
                         for a in conds)
                rep.ob("R11.1-surplus-list-dropped-only-if-empty", ok, Loc(file, n.lineno, f"{cls.name}.{fn.name}"), g.test if g is not None else n,
                       "a cell's surplus list may be deleted only when it has become empty; deleting a non-empty list loses its units: "
                       "they are then recorded neither as occupants nor as surplus and no event family treats them")
    # ---- update --------------------------------------------------------------------------------------------------------
    upd = methods.get("update")
    if upd is None:
        raise AnalysisError("update not found")
    top_ifs = [n for n in body_without_docstring(upd) if isinstance(n, ast.If)]
    main_if = None
    for n in top_ifs:
        if isinstance(n.test, ast.Compare) and len(n.test.ops) == 1 and isinstance(n.test.ops[0], (ast.NotEq, ast.Eq)) and roles.active_id in norm(n.test):
            main_if = n
    loc = Loc(file, upd.lineno, f"{cls.name}.update")
    if main_if is None:
        rep.ob("R11.2-update-shape", None, loc, "update", "branch on 'active unit changed' not recognised")
        return
    changed_first = isinstance(main_if.test.ops[0], ast.NotEq)
    # the branch taken when the active unit changed / stayed the same, whichever way the test is written
    main = ast.Module(body=main_if.body if changed_first else main_if.orelse, type_ignores=[])
    same_branch = main_if.orelse if changed_first else main_if.body
    new_unit = norm(main_if.test.left).replace(".identifier", "") if roles.active_id in norm(main_if.test.comparators[0]) \
        else norm(main_if.test.comparators[0]).replace(".identifier", "")
    # R11.2: re-insertion of the previous active unit uses the recorded cell/identifier and precedes their reassignment
    re_sites = [s for fn, s, _, _, _ in placement_sites if fn is upd]
    first_assign_line = min([a.lineno for a in ast.walk(main) if isinstance(a, ast.Assign)
                             and any(self_attr(t) in (roles.active_cell, roles.active_id) for t in a.targets)] or [10 ** 9])
    for s in re_sites:
        txt = " ".join(norm(x) for x in s.body + s.orelse)
        uses_old = f"self.{roles.active_cell}" in txt and f"self.{roles.active_id}" in txt
        rep.ob("R11.2-reinsert-old-cell", uses_old and s.lineno < first_assign_line, Loc(file, s.lineno, f"{cls.name}.update"),
               "re-insertion of the previous active unit",
               "the previous active unit must be filed under the cell recorded for it (the values of the active-cell and "
               "active-identifier attributes at entry), before these attributes are overwritten for the new active unit")
        # guarded by 'there was a previous active unit'
        g = _enclosing_if(main, s)
        rep.ob("R11.2-reinsert-only-if-previous", g is not None and roles.active_id in norm(g.test) and "is not None" in norm(g.test),
               Loc(file, s.lineno, f"{cls.name}.update"), g.test if g is not None else "guard",
               "the re-insertion must be skipped exactly when there was no (relevant) previous active unit")
    rep.ob("R11.2-reinsert-present", len(re_sites) == 1, loc, f"{len(re_sites)} re-insertion site(s) in update",
           "the previous active unit must be re-inserted exactly once when the active unit changes")
    # new active unit leaves exactly one container
    def removals(stmts, table):
        return [c for st in stmts for c in ast.walk(st) if isinstance(c, ast.Call) and isinstance(c.func, ast.Attribute) and c.func.attr == "remove"
                and isinstance(c.func.value, ast.Subscript) and self_attr(c.func.value.value) == table and len(c.args) == 1]

    def same_unit_and_cell(r1, r2) -> bool:
        return len(r1) == 1 and len(r2) == 1 and norm(r1[0].args[0]) == norm(r2[0].args[0]) == f"{new_unit}.identifier" \
            and norm(r1[0].func.value.slice) == norm(r2[0].func.value.slice) == f"self.{roles.active_cell}"
    tries = [t for t in ast.walk(main) if isinstance(t, ast.Try)]
    ok = False
    if len(tries) == 1:
        # try: occupants[cell].remove(new) ... except ValueError: surplus[cell].remove(new)
        t = tries[0]
        r1 = removals(t.body[:1], roles.occ)
        h = [hh for hh in t.handlers if "ValueError" in norm(hh.type or ast.Constant(value=""))]
        r2 = removals([x for hh in h for x in hh.body], roles.sur)
        ok = same_unit_and_cell(r1, r2) and not removals(t.body, roles.sur)
    else:
        # if new in occupants[cell]: occupants[cell].remove(new) ... else: surplus[cell].remove(new)      (either orientation)
        member = f"{new_unit}.identifier in self.{roles.occ}[self.{roles.active_cell}]"
        for n in ast.walk(main):
            if isinstance(n, ast.If) and n.orelse:
                at = atoms(n.test)
                for in_occ, other in ((n.body, n.orelse), (n.orelse, n.body)):
                    want = [member] if in_occ is n.body else [member.replace(" in ", " not in ", 1)]
                    if at == want and same_unit_and_cell(removals(in_occ, roles.occ), removals(other, roles.sur)) \
                            and not removals(in_occ, roles.sur) and not removals(other, roles.occ):
                        ok = True
    rep.ob("R11.1-new-active-leaves-one-container", ok, loc, "try: occupants[cell].remove(new) except ValueError: surplus[cell].remove(new)",
           "the new active unit must be taken out of exactly one list of its cell (occupants, else surplus)")
    # active cell of the new unit is computed from its position before the removal
    assigns = [a for a in ast.walk(main) if isinstance(a, ast.Assign) and self_attr(a.targets[0]) == roles.active_cell
               and isinstance(a.value, ast.Call)]
    okc = bool(assigns) and all("position_to_cell" in norm(a.value.func) and norm(a.value.args[0]) == f"{new_unit}.position" for a in assigns)
    rep.ob("R11.3-active-cell-from-position", okc, loc, "active cell = position_to_cell(new active unit's position)",
           "the recorded active cell must be the cell of the active unit's current position")
    # R11.3 same-unit branch refreshes the cell
    same = same_branch
    oks = len(same) >= 1 and any(isinstance(a, ast.Assign) and self_attr(a.targets[0]) == roles.active_cell and "position_to_cell" in norm(a.value)
                                  for st in same for a in ast.walk(st))
    rep.ob("R11.3-refresh-on-crossing", oks, loc, "same active unit: refresh the active cell",
           "when the active unit is unchanged (e.g. after a cell-boundary event) its recorded cell must be refreshed from its position")
    # irrelevant new active unit: both attributes cleared
    # the branch on the relevance of the new active unit, recognised by what its two sides do: one records the new unit as
    # active, the other clears both attributes
    okr = False
    for n in ast.walk(main):
        if not isinstance(n, ast.If):
            continue
        for clear, record in ((n.body, n.orelse), (n.orelse, n.body)):
            cl = [norm(a) for st in clear for a in ast.walk(st) if isinstance(a, ast.Assign)]
            rec = [a for st in record for a in ast.walk(st) if isinstance(a, ast.Assign) and self_attr(a.targets[0]) == roles.active_id
                   and norm(a.value) == f"{new_unit}.identifier"]
            if f"self.{roles.active_id} = None" in cl and f"self.{roles.active_cell} = None" in cl and rec:
                okr = True
    rep.ob("R11.1-irrelevant-active-cleared", okr, loc, "irrelevant active unit: no active cell",
           "an active unit that is not relevant to this cell system must be recorded nowhere")
    # ---- initialize ------------------------------------------------------------------------------------------------------
    check_relevance_predicate(cls, roles, rep)
    ini = methods.get("initialize")
    isites = [s for fn, s, _, _, _ in placement_sites if fn is ini]
    lociI = Loc(file, ini.lineno if ini else 0, f"{cls.name}.initialize")
    rep.ob("R11.1-initialize-places-once", len(isites) == 1, lociI, f"{len(isites)} placement site(s) in initialize",
           "every relevant unit must be filed exactly once at initialisation")
    if isites:
        s = isites[0]
        g = _enclosing_if(ini, s)
        rep.ob("R11.1-initialize-relevant-only", g is not None and isinstance(g.test, ast.Call) and self_attr(g.test.func) == roles.relevant and roles.relevant is not None
               and any(x is s for st in g.body for x in ast.walk(st)), lociI, g.test if g is not None else "guard",
               "only relevant units are recorded")
        # (a bound method `f = self._cells.position_to_cell` kept in a local is an alias, not a cell)
        p2c_alias = {a.targets[0].id for a in ast.walk(ini) if isinstance(a, ast.Assign) and isinstance(a.targets[0], ast.Name)
                     and isinstance(a.value, ast.Attribute) and a.value.attr == "position_to_cell"}
        cell_defs = [a for a in ast.walk(ini) if isinstance(a, ast.Assign) and isinstance(a.targets[0], ast.Name)
                     and isinstance(a.value, ast.Call) and a.value.args
                     and ("position_to_cell" in norm(a.value.func) or (isinstance(a.value.func, ast.Name) and a.value.func.id in p2c_alias))]
        rep.ob("R11.1-initialize-cell-from-position", bool(cell_defs) and all(norm(a.value.args[0]).endswith(".position") for a in cell_defs),
               lociI, cell_defs[0] if cell_defs else "cell", "the cell must be the cell of the unit's position")


def check_cell_bounds(prog: Program, rep: Report) -> None:
    """
    R11.6: the stored lower / upper corner of every cell lies inside the cell (the boundary handler lands the active unit exactly on
    these corners and the occupancy then asks position_to_cell for the same position).  Decided as a Hoare postcondition: the last
    loop that moves a corner coordinate before it is stored must exit with `int(coordinate / side) >= identifier` (lower corner) or
    `<= identifier` (upper corner) -- the cell index expression of the coordinate itself, not of a neighbouring float.
    Constructions that are not written as such search loops are left undecided.
    """
    cls = prog.class_named("CuboidCells")
    if cls is None or "__init__" not in cls.methods:
        raise AnalysisError("CuboidCells.__init__ not found")
    fn = canon(prog, cls, cls.methods["__init__"])
    RC = Resolver(fn)
    cell_calls = [c for c in ast.walk(fn) if isinstance(c, ast.Call) and norm(c.func) == "Cell" and len(c.args) == 3]
    if len(cell_calls) != 1:
        rep.ob("R11.6-corner-inside-cell", None, Loc(cls.file, fn.lineno, "CuboidCells.__init__"), "Cell(...)", "cell construction not recognised")
        return
    lists = []
    for a in cell_calls[0].args[1:]:
        while isinstance(a, ast.Call) and norm(a.func) in ("tuple", "list") and len(a.args) == 1:
            a = a.args[0]
        lists.append(a.id if isinstance(a, ast.Name) else None)
    for which, lname in zip(("lower", "upper"), lists):
        apps = [c for c in ast.walk(fn) if isinstance(c, ast.Call) and isinstance(c.func, ast.Attribute) and c.func.attr == "append"
                and norm(c.func.value) == lname and len(c.args) == 1 and isinstance(c.args[0], ast.Name)] if lname else []
        for c in apps:
            v = c.args[0].id
            block = _block_of(fn, c)
            i = _index_in(block, c)

            def last_mover(stmts: List[ast.stmt]) -> Optional[ast.stmt]:
                for st in reversed(stmts):
                    if any(isinstance(x, ast.Name) and x.id == v and isinstance(x.ctx, ast.Store) for x in ast.walk(st)):
                        return st
                return None
            st = last_mover(block[:i])
            # the search may be skipped for a coordinate that is exactly 0.0 (`if v > 0.0:` without else)
            while isinstance(st, ast.If) and not st.orelse and atoms(st.test) in ([f"0.0 < {v}"], [f"0 < {v}"]):
                st = last_mover(st.body)
            loc = Loc(cls.file, c.lineno, "CuboidCells.__init__")
            if not isinstance(st, ast.While) or st.orelse:
                rep.ob("R11.6-corner-inside-cell", None, loc, c, f"the {which} corner is not produced by a search loop")
                continue
            ex = atoms(st.test, False)
            sp = split_atom(ex[0]) if len(ex) == 1 else None
            verdict: Optional[bool] = None
            why = "exit condition of the last search loop not recognised"
            if sp is not None:
                l, op, r = sp
                idx_own = f"int({v} / "
                side_l, side_r = l.startswith("int("), r.startswith("int(")
                if side_l != side_r and op in ("<=", "<", "==", "!="):
                    cellidx, ident = (l, r) if side_l else (r, l)
                    if not cellidx.startswith(idx_own):
                        verdict, why = False, (f"the last search loop exits on the cell index of `{cellidx}`, which is not the stored coordinate "
                                               f"`{v}`: nothing establishes that `{v}` itself lies in the cell")
                    else:
                        # exit condition as  ident OP int(v / side)  or  int(v / side) OP ident
                        rel = {"<=": ">=", "<": ">", "==": "==", "!=": "!="}[op] if side_r else op         # index REL ident
                        good = {"lower": (">=", "=="), "upper": ("<=", "==")}[which]
                        verdict = rel in good
                        why = f"the last search loop exits with `{ex[0]}`: the {which} corner must end with cell index {good[0]} the identifier"
            rep.ob("R11.6-corner-inside-cell", verdict, loc, st.test, why)


class _NoValue(Exception):
    pass


def _sign_eval(e: ast.AST, is_charge, value: float):
    """value of a small arithmetic / boolean expression in which the sub-expressions accepted by is_charge have the given value"""
    if is_charge(e):
        return value
    if isinstance(e, ast.Constant):
        return e.value
    if isinstance(e, ast.UnaryOp):
        v = _sign_eval(e.operand, is_charge, value)
        return (not v) if isinstance(e.op, ast.Not) else (-v if isinstance(e.op, ast.USub) else +v)
    if isinstance(e, ast.BoolOp):
        vals = [_sign_eval(v, is_charge, value) for v in e.values]
        return all(vals) if isinstance(e.op, ast.And) else any(vals)
    if isinstance(e, ast.BinOp) and isinstance(e.op, (ast.Add, ast.Sub, ast.Mult)):
        l, r = _sign_eval(e.left, is_charge, value), _sign_eval(e.right, is_charge, value)
        if isinstance(l, bool) or isinstance(r, bool) or not isinstance(l, (int, float)) or not isinstance(r, (int, float)):
            raise _NoValue()
        return l + r if isinstance(e.op, ast.Add) else (l - r if isinstance(e.op, ast.Sub) else l * r)
    if isinstance(e, ast.Compare):
        vals = [_sign_eval(x, is_charge, value) for x in [e.left] + e.comparators]
        if any(v is None or isinstance(v, str) for v in vals):
            raise _NoValue()
        ok = True
        for op, a, b in zip(e.ops, vals, vals[1:]):
            if isinstance(op, ast.Eq):
                ok = ok and a == b
            elif isinstance(op, ast.NotEq):
                ok = ok and a != b
            elif isinstance(op, ast.Lt):
                ok = ok and a < b
            elif isinstance(op, ast.LtE):
                ok = ok and a <= b
            elif isinstance(op, ast.Gt):
                ok = ok and a > b
            elif isinstance(op, ast.GtE):
                ok = ok and a >= b
            else:
                raise _NoValue()
        return ok
    if isinstance(e, ast.Call) and isinstance(e.func, ast.Name) and e.func.id in ("abs", "bool", "float") and len(e.args) == 1 and not e.keywords:
        v = _sign_eval(e.args[0], is_charge, value)
        return abs(v) if e.func.id == "abs" else (bool(v) if e.func.id == "bool" else float(v))
    if isinstance(e, ast.IfExp):
        return _sign_eval(e.body if _sign_eval(e.test, is_charge, value) else e.orelse, is_charge, value)
    raise _NoValue()


def check_relevance_predicate(cls: ClassInfo, roles: "OccupancyRoles", rep: Report) -> None:
    """
    A cell system restricted to a charge records the units whose charge is non-zero (of either sign), an unrestricted one records
    every unit: the predicate bound in the constructor is evaluated over the sign domain of the charge (negative, zero, positive).
    """
    init = cls.methods.get("__init__")
    if init is None or roles.relevant is None:
        return
    lambdas = [x for n in ast.walk(init) if isinstance(n, ast.Assign) and any(self_attr(t) == roles.relevant for t in n.targets)
               for x in ast.walk(n.value) if isinstance(x, ast.Lambda)]
    for lam in lambdas:
        params = {a.arg for a in lam.args.args}

        def is_charge(e: ast.AST) -> bool:
            return isinstance(e, ast.Subscript) and isinstance(e.value, ast.Attribute) and e.value.attr == "charge" \
                and isinstance(e.value.value, ast.Name) and e.value.value.id in params
        loc = Loc(cls.file, lam.lineno, f"{cls.name}.__init__")
        uses_charge = any(is_charge(x) for x in ast.walk(lam.body))
        try:
            table = [bool(_sign_eval(lam.body, is_charge, v)) for v in (-2.0, -1.0, -0.25, 0.0, 0.25, 1.0, 2.0)]
        except (_NoValue, TypeError, ZeroDivisionError):
            rep.ob("R11.1-relevance-predicate", None, loc, lam, "relevance predicate not in the evaluated fragment")
            continue
        want = [True, True, True, False, True, True, True] if uses_charge else [True] * 7
        rep.ob("R11.1-relevance-predicate", table == want, loc, lam,
               f"truth table over charge = (-2, -1, -1/4, 0, 1/4, 1, 2) is {table}: a charge-restricted cell system must record exactly the "
               "units with a non-zero charge of either sign, an unrestricted one every unit")


def _dominating_statements(fn: ast.AST, node: ast.AST) -> List[ast.stmt]:
    """statements executed before `node` on every path that reaches it: the earlier statements of its block and of all enclosing blocks"""
    out: List[ast.stmt] = []

    def go(stmts: List[ast.stmt]) -> bool:
        for i, st in enumerate(stmts):
            if any(x is node for x in ast.walk(st)):
                out.extend(stmts[:i])
                for fld in ("body", "orelse", "finalbody"):
                    b = getattr(st, fld, None)
                    if isinstance(b, list) and b and isinstance(b[0], ast.stmt) and go(b):
                        return True
                if isinstance(st, ast.Try):
                    for h in st.handlers:
                        if go(h.body):
                            return True
                return True
        return False
    go(getattr(fn, "body", []))
    return out


def _block_of(fn: ast.AST, node: ast.AST) -> List[ast.stmt]:
    for n in ast.walk(fn):
        for fld in ("body", "orelse", "finalbody"):
            b = getattr(n, fld, None)
            if isinstance(b, list) and any(any(x is node for x in ast.walk(st)) for st in b):
                # innermost: keep searching deeper
                inner = None
                for st in b:
                    if any(x is node for x in ast.walk(st)) and st is not node:
                        sub = _block_of(st, node) if not isinstance(st, ast.Expr) else None
                        if sub:
                            inner = sub
                return inner or b
    return []


def _index_in(block: List[ast.stmt], node: ast.AST) -> int:
    for i, st in enumerate(block):
        if any(x is node for x in ast.walk(st)):
            return i
    return len(block)


def _enclosing_if(root: ast.AST, node: ast.AST) -> Optional[ast.If]:
    best = None
    for n in ast.walk(root):
        if isinstance(n, ast.If) and n is not node and any(x is node for st in n.body for x in ast.walk(st)):
            if best is None or n.lineno >= best.lineno:
                best = n
    return best


# ---------------------------------------------------------------------------------------------------------------------
# R11.4 landing table of the cell-boundary handler
# ---------------------------------------------------------------------------------------------------------------------
def check_landing_table(prog: Program, rep: Report) -> None:
    h = prog.class_named("CellBoundaryEventHandler")
    fn = h.methods.get("send_event_time")
    out = h.methods.get("send_out_state")
    if fn is None or out is None:
        raise AnalysisError("CellBoundaryEventHandler methods not found")
    file = h.file
    fn = canon(prog, h, fn)
    out = canon(prog, h, out, helpers=False)     # the time-slice helpers write positions too: the snap is the handler's own write
    # abstract execution of the loop body for a positive and for a negative velocity component: which neighbour cell is asked
    # for (the flag passed to neighbor_cell) and which of its faces becomes the boundary
    loops = [l for l in ast.walk(fn) if isinstance(l, ast.For) and isinstance(l.iter, ast.Call) and norm(l.iter.func) == "enumerate"
             and isinstance(l.target, ast.Tuple) and len(l.target.elts) == 2]
    rows = []
    if len(loops) == 1:
        dvar, vvar = norm(loops[0].target.elts[0]), norm(loops[0].target.elts[1])

        def run(positive: bool):
            env: Dict[str, Tuple[str, object]] = {}
            found: List[Tuple[str, object, str, str, ast.AST]] = []

            def truth(e: ast.AST) -> Optional[bool]:
                if isinstance(e, ast.Constant) and isinstance(e.value, bool):
                    return e.value
                if isinstance(e, ast.Name) and env.get(e.id, ("", None))[0] == "bool":
                    return env[e.id][1]  # type: ignore
                if isinstance(e, ast.UnaryOp) and isinstance(e.op, ast.Not):
                    v = truth(e.operand)
                    return None if v is None else not v
                if isinstance(e, ast.Compare) and len(e.ops) == 1:
                    l, r, op = e.left, e.comparators[0], e.ops[0]
                    zero = lambda x: isinstance(x, ast.Constant) and x.value == 0 and not isinstance(x.value, bool)  # noqa: E731
                    if norm(l) == vvar and zero(r):
                        return {ast.Gt: positive, ast.GtE: positive, ast.Lt: not positive, ast.LtE: not positive, ast.Eq: False,
                                ast.NotEq: True}.get(type(op))
                    if norm(r) == vvar and zero(l):
                        return {ast.Lt: positive, ast.LtE: positive, ast.Gt: not positive, ast.GtE: not positive, ast.Eq: False,
                                ast.NotEq: True}.get(type(op))
                return None

            def ncell(e: ast.AST):
                """(flag, direction argument) if e denotes the result of a neighbor_cell call"""
                if isinstance(e, ast.Call) and "neighbor_cell" in norm(e.func) and len(e.args) >= 3:
                    return truth(e.args[2]), norm(e.args[1])
                if isinstance(e, ast.Name) and env.get(e.id, ("", None))[0] == "ncell":
                    return env[e.id][1]
                return None

            def block(stmts: List[ast.stmt]) -> bool:
                """False when the iteration ends (continue / break)"""
                for st in stmts:
                    if isinstance(st, ast.If):
                        v = truth(st.test)
                        if v is None:
                            # not a sign test: both sides are possible, follow both in order
                            if not block(st.body) or not block(st.orelse):
                                return False
                            continue
                        if not block(st.body if v else st.orelse):
                            return False
                        continue
                    if isinstance(st, (ast.Continue, ast.Break, ast.Return)):
                        return False
                    if isinstance(st, ast.Assign) and len(st.targets) == 1 and isinstance(st.targets[0], ast.Name):
                        t = truth(st.value) if isinstance(st.value, (ast.Compare, ast.UnaryOp, ast.Constant)) else None
                        if t is not None:
                            env[st.targets[0].id] = ("bool", t)
                        nc = ncell(st.value)
                        if nc is not None:
                            env[st.targets[0].id] = ("ncell", nc)
                    for a in ast.walk(st):
                        if isinstance(a, ast.Subscript) and isinstance(a.value, ast.Attribute) and a.value.attr in ("cell_min", "cell_max"):
                            nc = ncell(a.value.value)
                            if nc is not None:
                                found.append((a.value.attr, nc[0], nc[1], norm(a.slice), st))
                return True
            block(loops[0].body)
            return found
        for positive in (True, False):
            for attr, flag, dirarg, idx, st in run(positive):
                rows.append((positive, attr, str(flag), dirarg, idx, st))
    want = {(True, "cell_min", "True"), (False, "cell_max", "False")}
    got = {(p_, attr, arg) for p_, attr, arg, _, _, _ in rows}
    rep.ob("R11.4-landing-table", got == want and len(rows) == 2, Loc(file, fn.lineno, f"{h.name}.send_event_time"),
           f"landing table {sorted(got)}",
           "moving in + direction must land on the minimum of the upper neighbour cell, moving in - direction on the maximum of the "
           "lower neighbour cell; otherwise the unit is placed in a cell it has not reached (or stays in the old one)")
    for p_, attr, arg, dirarg, idx, a in rows:
        rep.ob("R11.4-landing-direction", dirarg == idx, Loc(file, a.lineno, f"{h.name}.send_event_time"), a,
               "the neighbour cell and the boundary coordinate must be taken in the same direction")
    # the selected boundary and direction are stored together under the 'smaller time' guard
    # roles, not names: the direction attribute receives the loop variable that enumerates the directions, the boundary attribute the
    # face coordinate taken from the neighbour cell (the value whose landing table was checked above)
    loopvars = [norm(l.target.elts[0]) for l in ast.walk(fn) if isinstance(l, ast.For) and isinstance(l.target, ast.Tuple)]
    face_values = {norm(a.targets[0]) for _, _, _, _, _, a in rows if isinstance(a, ast.Assign)} | {norm(a.value) for _, _, _, _, _, a in rows if isinstance(a, ast.Assign)}
    RS = Resolver(fn)
    # plain copies of a face value (also through a tuple assignment) are the face value
    for _ in range(4):
        for a in ast.walk(fn):
            if isinstance(a, ast.Assign) and len(a.targets) == 1:
                t, v = a.targets[0], a.value
                pairs = [(t, v)] if isinstance(t, ast.Name) else \
                    list(zip(t.elts, v.elts)) if isinstance(t, (ast.Tuple, ast.List)) and isinstance(v, (ast.Tuple, ast.List)) and len(t.elts) == len(v.elts) else []
                for t_, v_ in pairs:
                    if isinstance(t_, ast.Name) and isinstance(v_, ast.Name) and v_.id in face_values:
                        face_values.add(t_.id)

    def stores_of(block):
        return {self_attr(a.targets[0]): a.value for a in block if isinstance(a, ast.Assign) and self_attr(a.targets[0])}
    sel = []
    for n in ast.walk(fn):
        if isinstance(n, ast.If) and isinstance(n.test, ast.Compare) and len(n.test.ops) == 1:
            st_ = stores_of(n.body)
            if any(norm(v) in loopvars for v in st_.values()) and len(st_) >= 2:
                sel.append(n)
    ok = False
    dir_attr = bnd_attr = None
    if len(sel) == 1:
        st_ = stores_of(sel[0].body)
        d_ = [a_ for a_, v in st_.items() if norm(v) in loopvars]
        b_ = [a_ for a_, v in st_.items() if a_ not in d_ and (norm(v) in face_values or ".cell_min[" in RS.text(v) or ".cell_max[" in RS.text(v))]
        if len(d_) == 1 and len(b_) == 1:
            dir_attr, bnd_attr = d_[0], b_[0]
        at = atoms(sel[0].test)
        sp = split_atom(at[0]) if len(at) == 1 else None
        # `candidate < current minimum` (however oriented): the minimum is updated with the candidate in the same block
        ok = sp is not None and sp[1] == "<" and dir_attr is not None \
            and any(isinstance(a, ast.Assign) and norm(a.targets[0]) == sp[2] and norm(a.value) == sp[0] for a in sel[0].body)
    rep.ob("R11.4-select-earliest", ok, Loc(file, sel[0].lineno if sel else fn.lineno, f"{h.name}.send_event_time"),
           sel[0].test if sel else "selection", "boundary and direction of the earliest crossing must be stored together")
    RO = Resolver(out)
    snaps = [a for a in ast.walk(out) if isinstance(a, ast.Assign) and isinstance(a.targets[0], ast.Subscript)
             and RO.text(a.targets[0].value).endswith(".position")]
    oks = len(snaps) == 1 and dir_attr is not None and self_attr(RO.res(snaps[0].targets[0].slice)) == dir_attr \
        and self_attr(RO.res(snaps[0].value)) == bnd_attr
    rep.ob("R11.4-snap-writes-selected-boundary", oks, Loc(file, out.lineno, f"{h.name}.send_out_state"), snaps[0] if snaps else "snap",
           "the out-state must put exactly the selected coordinate exactly on the selected boundary")


# ---------------------------------------------------------------------------------------------------------------------
# R10.1 / R10.2 set algebra of the cell taggers and the veto / bounding domains
# ---------------------------------------------------------------------------------------------------------------------
def _strip_order(it: ast.AST) -> ast.AST:
    # order-only wrappers do not change the domain
    while isinstance(it, ast.Call) and isinstance(it.func, ast.Name) and it.func.id in ("sorted", "list", "tuple", "reversed") and it.args:
        it = it.args[0]
    return it


def _precomputed_tables(prog: Program, cls: ClassInfo) -> Dict[str, Tuple[str, ast.AST]]:
    """attribute -> (key variable, value expression) for tables `self.T = {K: V(K) for K in ..}` / `for K in ..: self.T[K] = V(K)` of a class"""
    out: Dict[str, Tuple[str, ast.AST]] = {}
    for c in prog.mro(cls):
        for m in c.methods.values():
            for n in ast.walk(m):
                if isinstance(n, ast.Assign) and len(n.targets) == 1 and self_attr(n.targets[0]) and isinstance(n.value, ast.DictComp) \
                        and len(n.value.generators) == 1 and isinstance(n.value.generators[0].target, ast.Name) \
                        and norm(n.value.key) == n.value.generators[0].target.id and not n.value.generators[0].ifs:
                    out.setdefault(self_attr(n.targets[0]), (n.value.generators[0].target.id, n.value.value))
                if isinstance(n, ast.For) and isinstance(n.target, ast.Name):
                    for a in n.body:
                        if isinstance(a, ast.Assign) and len(a.targets) == 1 and isinstance(a.targets[0], ast.Subscript) \
                                and self_attr(a.targets[0].value) and norm(a.targets[0].slice) == n.target.id:
                            out.setdefault(self_attr(a.targets[0].value), (n.target.id, a.value))
    return out


def _domain_text(it: ast.AST, tables: Optional[Dict[str, Tuple[str, ast.AST]]]) -> str:
    it = _strip_order(it)
    if tables and isinstance(it, ast.Subscript) and self_attr(it.value) in tables and self_attr(it.value) != "_internal_state":
        kv, val = tables[self_attr(it.value)]

        class S(ast.NodeTransformer):
            def visit_Name(self, node):
                return ast.copy_location(ast.parse(ast.unparse(it.slice), mode="eval").body, node) if node.id == kv else node
        import copy as _copy
        return norm(_strip_order(S().visit(_copy.deepcopy(val))))
    return norm(it)


def _unresolved_domain(text_: str) -> bool:
    """a domain that comes out of a table or helper of the tagger which was not resolved: nothing can be said about it"""
    import re as _re
    return bool(_re.match(r"self\._(?!internal_state\b)\w+(\[|\()", text_))


def _comprehension_facts(fn: ast.FunctionDef, tables: Optional[Dict[str, Tuple[str, ast.AST]]] = None) -> Dict[str, object]:
    """
    Generators of the in-states of a cell tagger, whether written as comprehension clauses or as explicit loops:
    (loop variable, iterated domain, conditions) in nesting order.  Conditions of explicit loops are the path conditions of the
    yield inside the loop body.
    """
    facts: Dict[str, object] = {"active_from": None, "domains": [], "occupants": [], "surplus": False, "filters": []}
    yields = [n for n in ast.walk(fn) if isinstance(n, (ast.Yield, ast.YieldFrom))]
    for n in ast.walk(fn):
        if isinstance(n, ast.For) and "yield_active_cells" in norm(n.iter):
            facts["active_from"] = norm(n.target)
        elif isinstance(n, ast.For):
            inner = [y for y in yields if any(x is y for x in ast.walk(n))]
            conds: List[str] = []
            if inner:
                # conditions that belong to this loop level only (deeper loops report their own)
                conds = [c for c in (path_conditions(n.body, inner[0]) or [])]
                deeper = [l for l in ast.walk(n) if isinstance(l, ast.For) and l is not n and any(x is inner[0] for x in ast.walk(l))]
                for l in deeper:
                    for c in path_conditions(l.body, inner[0]) or []:
                        if c in conds:
                            conds.remove(c)
            facts["domains"].append((norm(n.target), _domain_text(n.iter, tables), [" and ".join(conds)] if conds else []))
        if isinstance(n, ast.comprehension):
            conds = []
            for i in n.ifs:
                conds.extend(atoms(i))
            facts["domains"].append((norm(n.target), _domain_text(n.iter, tables), [" and ".join(conds)] if conds else []))
        if isinstance(n, ast.Call) and norm(n.func).endswith("yield_surplus"):
            facts["surplus"] = True
    return facts


def _extracts_every(rets, fn) -> bool:
    """one of the returns hands out extract_from_global_state(i) for every looked-up identifier i, without a filter"""
    from .resolve import Resolver, elementwise
    R = Resolver(fn)
    for r in rets:
        ew = elementwise(fn, r.value) if r.value is not None else None
        if ew is None:
            continue
        elt, var, it, filtered = ew
        if not filtered and isinstance(elt, ast.Call) and norm(elt.func).endswith("extract_from_global_state") and len(elt.args) == 1 \
                and norm(elt.args[0]) == var and "get_info_internal_state" in R.text(it):
            return True
    return False


def _check_surplus_generator(prog: Program, rep: Report, t_s: ClassInfo, fs: ast.AST) -> None:
    """
    R10.1-surplus-generator-complete: the surplus tagger's domain is "every surplus unit" only if the generator it calls hands
    out the whole surplus table.  A guard on the way to a yield of the concrete `yield_surplus` is accepted when it can only skip
    empty entries (truthiness / length of the iterated entry) or when it reads a parameter that the tagger leaves at an empty
    default; a guard fed by an argument of the tagger's call removes units from the domain (no other cell tagger treats surplus
    units, R10.3-surplus-iff-capped); any other guard is undecided.
    """
    roles = OccupancyRoles(prog)
    ys = roles.cls.methods.get("yield_surplus")
    if ys is None:
        raise AnalysisError(f"{roles.cls.name}.yield_surplus not found")
    g = canon(prog, roles.cls, ys)
    params = [a for a in param_names(g) if a != "self"]
    defaults = {}
    pos = g.args.args[len(g.args.args) - len(g.args.defaults):] if g.args.defaults else []
    for a, d in list(zip(pos, g.args.defaults)) + [(a, d) for a, d in zip(g.args.kwonlyargs, g.args.kw_defaults) if d is not None]:
        defaults[a.arg] = d
    calls = [n for n in ast.walk(fs) if isinstance(n, ast.Call) and norm(n.func).endswith("yield_surplus")]
    passed: Set[str] = set()
    for c in calls:
        for i, _ in enumerate(c.args):
            if i < len(params):
                passed.add(params[i])
        passed.update(k.arg for k in c.keywords if k.arg)
        if any(k.arg is None for k in c.keywords) or any(isinstance(a, ast.Starred) for a in c.args):
            passed.update(params)
    iter_vars: Set[str] = set()
    for n in ast.walk(g):
        if isinstance(n, (ast.For, ast.comprehension)):
            iter_vars.update(x.id for x in ast.walk(n.target) if isinstance(x, ast.Name))
    guards: List[str] = []
    none_default = {a_ for a_, d_ in defaults.items() if isinstance(d_, ast.Constant) and d_.value is None and a_ not in passed}
    for n in ast.walk(g):
        if isinstance(n, (ast.Yield, ast.YieldFrom)):
            conds_ = path_conditions(body_without_docstring(g), n) or []
            # a parameter that the tagger leaves at its default None: `p is not None` paths are not taken, `p is None` holds
            if any(c_ in {f"{a_} is not None" for a_ in none_default} for c_ in conds_):
                continue
            guards.extend(c_ for c_ in conds_ if c_ not in {f"{a_} is None" for a_ in none_default})
        if isinstance(n, ast.comprehension):
            for i in n.ifs:
                guards.extend(atoms(i))

    def _empty_default(name: str) -> bool:
        d = defaults.get(name)
        return d is not None and ((isinstance(d, (ast.Tuple, ast.List, ast.Set)) and not d.elts) or (isinstance(d, ast.Dict) and not d.keys)
                                  or (isinstance(d, ast.Call) and norm(d.func) in ("frozenset", "set", "tuple", "list") and not d.args))

    verdict: Optional[bool] = True
    why = []
    for c in guards:
        try:
            names = {x.id for x in ast.walk(ast.parse(c.replace("not ", "", 1) if c.startswith("not (") else c, mode="eval")) if isinstance(x, ast.Name)}
        except SyntaxError:
            names = set(re.findall(r"[A-Za-z_][A-Za-z_0-9]*", c))
        used_params = names & set(params)
        bare = c.strip()
        if bare in iter_vars or bare in {f"len({v}) {op}" for v in iter_vars for op in ("> 0", "!= 0", ">= 1")}:
            continue        # skips empty entries only
        if used_params and used_params <= {p_ for p_ in params if p_ not in passed and _empty_default(p_)} and " not in " in c:
            continue        # membership in a collection that the tagger leaves empty: vacuous
        if used_params & passed:
            verdict = False
            why.append(c)
        elif verdict is not False:
            verdict = None
            why.append(c)
    rep.ob("R10.1-surplus-generator-complete", verdict, Loc(roles.cls.file, ys.lineno, f"{roles.cls.name}.yield_surplus"),
           f"guards on the way to a yield: {guards or 'none'}; parameters bound by {t_s.name}: {sorted(passed) or 'none'}"
           + (f"; restricting: {why}" if why else ""),
           "the surplus tagger must pair the active unit with every surplus unit of every cell: the generator it calls may not drop "
           "the surplus units of some cells (no other cell tagger treats surplus units)")


def check_tagger_algebra(prog: Program, rep: Report) -> None:
    t_b = prog.class_named("CellBoundingPotentialTagger")
    t_e = prog.class_named("ExcludedCellsTagger")
    t_s = prog.class_named("SurplusCellsTagger")
    t_v = prog.class_named("CellVetoTagger")
    t_c = prog.class_named("CellBoundaryTagger")
    m = "yield_identifiers_send_event_time"
    fb, fe, fs, fv, fc = (None if t.methods.get(m) is None else canon(prog, t, t.methods[m]) for t in (t_b, t_e, t_s, t_v, t_c))
    for t, f in ((t_b, fb), (t_e, fe), (t_s, fs), (t_v, fv), (t_c, fc)):
        if f is None:
            raise AnalysisError(f"{t.name}.{m} not found")
        facts = _comprehension_facts(f)
        rep.ob("R10.1-active-from-occupancy", facts["active_from"] is not None, Loc(t.file, f.lineno, f"{t.name}.{m}"),
               f"active cell/unit from yield_active_cells(): {facts['active_from']}",
               "every cell tagger must take the active cell and unit from the same cell occupancy (yield_active_cells)")
    # excluded: occupants of nearby_cells(active_cell)
    fe_f = _comprehension_facts(fe, _precomputed_tables(prog, t_e))
    act = (fe_f["active_from"] or "(?, ?)").strip("()").split(",")[0].strip()
    doms = fe_f["domains"]
    ok_e = len(doms) == 2 and doms[0][1].endswith(f"cells.nearby_cells({act})") and not doms[0][2] \
        and doms[1][1] == f"self._internal_state[{doms[0][0]}]" and not doms[1][2]
    if not ok_e and any(_unresolved_domain(d[1]) for d in doms):
        ok_e = None
    rep.ob("R10.1-excluded-is-nearby", ok_e, Loc(t_e.file, fe.lineno, f"{t_e.name}.{m}"), f"domains {doms}",
           "the excluded-cells tagger must pair the active unit with every occupant of every nearby cell of the active cell")
    # bounding: occupants of all cells not in nearby_cells(active_cell)
    fb_f = _comprehension_facts(fb, _precomputed_tables(prog, t_b))
    actb = (fb_f["active_from"] or "(?, ?)").strip("()").split(",")[0].strip()
    cell_gens = [d for d in fb_f["domains"] if d[1].endswith("cells.yield_cells()")]
    ok_b = False
    if len(cell_gens) == 1:
        var, _, ifs = cell_gens[0]
        conds = [c for c in " and ".join(ifs).split(" and ") if c]
        ok_b = f"{var} not in self._internal_state.cells.nearby_cells({actb})" in conds
        # the occupants of that very cell are what is yielded
        occ_src = [d for d in fb_f["domains"] if d[1] == f"self._internal_state[{var}]"]
        yielded = [norm(x) for y in ast.walk(fb) if isinstance(y, (ast.Yield, ast.YieldFrom)) and y.value is not None for x in ast.walk(y.value)
                   if isinstance(x, ast.Subscript)]
        ok_b = ok_b and (len(occ_src) == 1 or f"self._internal_state[{var}]" in yielded)
        extra = [c for c in conds if "nearby_cells" not in c and c != f"self._internal_state[{var}]"]
        ok_b = ok_b and not extra
    if not ok_b and any(_unresolved_domain(d[1]) for d in fb_f["domains"]):
        ok_b = None
    rep.ob("R10.1-bounding-is-complement", ok_b, Loc(t_b.file, fb.lineno, f"{t_b.name}.{m}"), f"domains {fb_f['domains']}",
           "the cell-bounding tagger must treat the occupants of exactly the cells that are not nearby cells of the active cell "
           "(the complement of the excluded-cells tagger's domain, from the same cell system)")
    # surplus
    fs_f = _comprehension_facts(fs)
    rep.ob("R10.1-surplus-all", bool(fs_f["surplus"]) and all(not d[2] for d in fs_f["domains"]), Loc(t_s.file, fs.lineno, f"{t_s.name}.{m}"),
           f"domains {fs_f['domains']}", "the surplus tagger must pair the active unit with every surplus unit")
    _check_surplus_generator(prog, rep, t_s, fs)
    # veto / boundary taggers: in-state is the active unit only
    for t, f in ((t_v, fv), (t_c, fc)):
        ys = [n for n in ast.walk(f) if isinstance(n, ast.Yield)]
        ok = len(ys) == 1 and isinstance(ys[0].value, ast.Tuple) and len(ys[0].value.elts) == 1
        rep.ob("R10.1-active-only-in-state", ok, Loc(t.file, f.lineno, f"{t.name}.{m}"), ys[0].value if ys else m,
               "the in-state of a cell-veto / cell-boundary event is the active unit alone")
    # R10.2 veto handler and bounding potential: tables over AllCells \ Nearby(zero_cell)
    for cname, fname in (("CellVetoEventHandler", "initialize"), ("CellBoundingPotential", "initialize")):
        c = prog.class_named(cname)
        f = canon(prog, c, c.methods[fname]) if fname in c.methods else None   # helpers / generator helpers inlined
        if f is None:
            raise AnalysisError(f"{cname}.{fname} not found")
        loops = [n for n in ast.walk(f) if isinstance(n, ast.For) and norm(n.iter).endswith("yield_cells()")]
        if not loops:
            rep.ob("R10.2-far-field-domain", None, Loc(c.file, f.lineno, f"{cname}.{fname}"), f"{cname}.{fname}",
                   "idiom not recognised: no loop over yield_cells() in the routine that builds the far-field tables")
        for lp in loops:
            var = norm(lp.target)
            # everything the loop files (stores into attributes / tables, items appended) happens exactly for the cells that are not
            # nearby cells of the zero cell: the path conditions of every such statement are {var not in <cells>.nearby_cells(<zero cell>)}
            payload = [n for n in ast.walk(lp) if (isinstance(n, ast.Assign) and any(isinstance(t, ast.Subscript) or self_attr(t) for t in n.targets))
                       or (isinstance(n, ast.Call) and isinstance(n.func, ast.Attribute) and n.func.attr == "append")]

            RZ = Resolver(f)

            def far_only(conds: List[str]) -> bool:
                hits = []
                for c_ in conds:
                    sp = split_atom(c_)
                    if sp is not None and sp[2].isidentifier() and sp[2] in RZ.defs:
                        # the nearby cells of the zero cell bound to a local first
                        sp = (sp[0], sp[1], RZ.text(RZ.defs[sp[2]]))
                    if sp is not None and sp[0] == var and sp[1] == "not in" and ".nearby_cells(" in sp[2] and sp[2].rstrip(")").endswith("zero_cell"):
                        hits.append(c_)
                return len(hits) == 1 and len(conds) == 1
            exits: List[str] = []
            ok = bool(payload) and all(far_only(path_conditions(lp.body, n, exits) or []) for n in payload) and not exits
            first_if = next((n for n in ast.walk(lp) if isinstance(n, ast.If)), None)
            rep.ob("R10.2-far-field-domain", ok, Loc(c.file, lp.lineno, f"{cname}.{fname}"), first_if.test if first_if is not None else lp.iter,
                   "the far-field tables (cell-veto walker, cell bounds) must range over exactly the cells that are not nearby "
                   "cells of the zero cell -- the relative complement of what the excluded-cells tagger treats explicitly")
            rels = [c_ for c_ in ast.walk(lp) if isinstance(c_, ast.Call) and norm(c_.func).endswith("relative_cell")]
            rep.ob("R10.2-keyed-by-relative-cell", bool(rels) and all(len(c_.args) == 2 and norm(c_.args[0]) == var and norm(c_.args[1]).endswith("zero_cell")
                                                                    for c_ in rels),
                   Loc(c.file, lp.lineno, f"{cname}.{fname}"), rels[0] if rels else "key", "bounds must be keyed by the cell relative to the zero cell")
    # target lookup
    med = prog.class_named("Mediator")
    ga = med.methods.get("get_arguments_cell_veto_event_handler")
    if ga is not None:
        ga = canon(prog, med, ga)          # private helpers of the mediator read in place
    ta = prog.class_named("TagActivator").methods.get("get_info_internal_state")
    ok1 = ga is not None and any(isinstance(n, ast.Call) and norm(n.func).endswith("get_info_internal_state") and len(n.args) == 2
                                  and norm(n.args[1]) == param_names(ga)[0] for n in ast.walk(ga))
    ok2 = ta is not None and any(isinstance(n, ast.Return) and norm(n.value).endswith(f".internal_state[{param_names(ta)[1]}]") for n in ast.walk(ta))
    rep.ob("R10.2-target-lookup", ok1 and ok2, Loc(med.file, ga.lineno if ga else 0, "Mediator.get_arguments_cell_veto_event_handler"),
           "target = internal_state[sampled cell] of the veto tagger", "the target of a cell-veto event must be the occupant list of the sampled cell in the veto tagger's own cell occupancy")
    if ga is not None:
        rets = [n for n in ast.walk(ga) if isinstance(n, ast.Return)]
        # `return A if c else B` stands for two returns
        split_ = []
        for r in rets:
            vals_ = [r.value]
            while any(isinstance(v_, ast.IfExp) for v_ in vals_):
                vals_ = [w for v_ in vals_ for w in ((v_.body, v_.orelse) if isinstance(v_, ast.IfExp) else (v_,))]
            split_ += [ast.copy_location(ast.Return(value=v_), r) for v_ in vals_]
        rets = split_
        rep.ob("R10.2-target-all-occupants", _extracts_every(rets, ga) and any(r.value is not None and norm(r.value) == "(None,)" for r in rets),
               Loc(med.file, ga.lineno, "Mediator.get_arguments_cell_veto_event_handler"), "extract every occupant, or (None,) for an empty cell",
               "every occupant of the target cell must be handed to the veto handler; an empty cell yields None")
    # veto handler: target cell = translate(active_cell, sampled relative cell)
    cvc = prog.class_named("CellVetoEventHandler")
    cv = canon(prog, cvc, cvc.methods["send_event_time"]) if "send_event_time" in cvc.methods else None
    if cv is None:
        raise AnalysisError("CellVetoEventHandler.send_event_time not found")
    RC = Resolver(cv)
    tr = [n for n in ast.walk(cv) if isinstance(n, ast.Call) and norm(n.func).endswith("translate")]
    ok = False
    if len(tr) == 1 and len(tr[0].args) == 2:
        a0, a1 = RC.res(tr[0].args[0]), RC.res(tr[0].args[1])
        # first argument: the cell of the active unit's position; second: the relative cell the walker sampled
        ok = isinstance(a0, ast.Call) and norm(a0.func).endswith("position_to_cell") and isinstance(a1, ast.Call) \
            and norm(a1.func).endswith("sample_cell") and not a1.args
    rep.ob("R10.2-offset-to-target", ok, Loc(prog.class_named("CellVetoEventHandler").file, cv.lineno, "CellVetoEventHandler.send_event_time"),
           tr[0] if tr else "translate", "the target cell must be the active unit's cell translated by the sampled relative cell")


def depends_on(fn: ast.FunctionDef, expr: ast.AST, source) -> bool:
    """
    Whether `expr` (inside fn) depends on a source expression -- `source(node)` tells which nodes are sources -- through data
    dependences (assignments) or control dependences (a local assigned under a test / loop condition that depends on the source).
    Flow-insensitive may-analysis over the locals of the function.
    """
    def hot(e: ast.AST, tainted: Set[str]) -> bool:
        return any(source(x) or (isinstance(x, ast.Name) and x.id in tainted) for x in ast.walk(e))

    tainted: Set[str] = set()
    changed = True
    while changed:
        changed = False

        def visit(stmts: List[ast.stmt], ctrl: bool) -> None:
            nonlocal changed
            for st in stmts:
                if isinstance(st, (ast.FunctionDef, ast.ClassDef)):
                    continue
                targets: List[ast.AST] = []
                value: Optional[ast.AST] = None
                if isinstance(st, ast.Assign):
                    targets, value = st.targets, st.value
                elif isinstance(st, (ast.AugAssign, ast.AnnAssign)):
                    targets, value = [st.target], st.value
                elif isinstance(st, ast.For):
                    targets, value = [st.target], st.iter
                names = {x.id for t in targets for x in ast.walk(t) if isinstance(x, ast.Name)}
                # x.attr = v / x[i] = v makes x carry v
                if names and (ctrl or (value is not None and hot(value, tainted))):
                    if not names <= tainted:
                        tainted.update(names)
                        changed = True
                inner = ctrl
                if isinstance(st, (ast.If, ast.While)):
                    inner = ctrl or hot(st.test, tainted)
                elif isinstance(st, ast.For):
                    inner = ctrl or hot(st.iter, tainted)
                for fld in ("body", "orelse", "finalbody"):
                    b = getattr(st, fld, None)
                    if isinstance(b, list) and b and isinstance(b[0], ast.stmt):
                        visit(b, inner)
                if isinstance(st, ast.Try):
                    for h in st.handlers:
                        visit(h.body, ctrl)
        visit(fn.body, False)
    return hot(expr, tainted)


def check_active_cell_level(prog: Program, rep: Report, rule: str) -> None:
    """
    The cell-veto handler offsets the sampled relative cell from the cell of the active unit ON THE CELL LEVEL (the composite
    object for a cell level above the leaves): the position handed to position_to_cell must be selected using the configured cell
    level -- the active leaf unit's own position lies in another cell whenever the leaf is not on the cell level.
    """
    cvc = prog.class_named("CellVetoEventHandler")
    if cvc is None or "send_event_time" not in cvc.methods:
        raise AnalysisError("CellVetoEventHandler.send_event_time not found")
    cv = canon(prog, cvc, cvc.methods["send_event_time"])
    init_stores = [self_attr(t) for m in cvc.methods.values() for a in ast.walk(m) if isinstance(a, ast.Assign) for t in a.targets
                   if self_attr(t) and isinstance(a.value, ast.Name) and a.value.id == "cell_level"]
    level_attrs = set(init_stores)
    if not level_attrs:
        raise AnalysisError("CellVetoEventHandler does not store the cell level")
    calls = [n for n in ast.walk(cv) if isinstance(n, ast.Call) and norm(n.func).endswith("position_to_cell") and len(n.args) == 1]
    loc = Loc(cvc.file, cv.lineno, "CellVetoEventHandler.send_event_time")
    if not calls:
        rep.ob(rule, False, loc, "position_to_cell", "the active cell is not computed from a position")
    # a value computed by a method of the handler that itself reads the cell level depends on it
    methods_all = prog.all_methods(cvc)
    reads_level: Set[str] = set()
    for _ in range(3):
        for name, (_, m) in methods_all.items():
            if name not in reads_level and any(self_attr(x) in level_attrs or (isinstance(x, ast.Call) and isinstance(x.func, ast.Attribute)
                                                                                and isinstance(x.func.value, ast.Name) and x.func.value.id == "self"
                                                                                and x.func.attr in reads_level) for x in ast.walk(m)):
                reads_level.add(name)

    def is_source(x: ast.AST) -> bool:
        return self_attr(x) in level_attrs or (isinstance(x, ast.Call) and isinstance(x.func, ast.Attribute) and isinstance(x.func.value, ast.Name)
                                               and x.func.value.id == "self" and x.func.attr in reads_level and x.func.attr != "send_event_time")
    for c in calls:
        ok = depends_on(cv, c.args[0], is_source)
        rep.ob(rule, ok, Loc(cvc.file, c.lineno, loc.qual), c,
               f"the position whose cell is the origin of the sampled offset does not depend on the cell level (self.{sorted(level_attrs)[0]}): "
               "for a composite-object cell system the leaf unit's position is not the position the cell occupancy is kept for")


# ---------------------------------------------------------------------------------------------------------------------
# R10.3 per-config family completeness
# ---------------------------------------------------------------------------------------------------------------------
def check_config_families(prog: Program, cfg: IniConfig, graph: ConfigGraph, rep: Report) -> None:
    states = {s.section: s for s in cfg.internal_states()}
    from .inifront import to_snake_case
    by_label: Dict[str, List] = {}
    for t in graph.taggers:
        if t.state_label:
            by_label.setdefault(t.state_label, []).append(t)
    for label, ts in sorted(by_label.items()):
        st = next((s for s in states.values() if to_snake_case(s.section) == label), None)
        loc = Loc(cfg.file, 0, f"internal state {label}")
        if st is None:
            rep.ob("R10.3-state-exists", False, loc, label, f"internal state `{label}` used by taggers does not exist")
            continue
        cap = st.get("maximum_number_occupants")
        kinds = {"excluded": [], "boundary": [], "surplus": [], "veto": [], "bounding": []}
        for t in ts:
            for k, cname in (("excluded", "ExcludedCellsTagger"), ("boundary", "CellBoundaryTagger"), ("surplus", "SurplusCellsTagger"),
                             ("veto", "CellVetoTagger"), ("bounding", "CellBoundingPotentialTagger")):
                if prog.is_subclass(t.cls, cname):
                    kinds[k].append(t.tag)
        rep.ob("R10.3-one-excluded", len(kinds["excluded"]) == 1, loc, f"excluded-cells taggers {kinds['excluded']}",
               "each cell system needs exactly one tagger for the explicit pair events with occupants of nearby cells")
        rep.ob("R10.3-one-boundary", len(kinds["boundary"]) == 1, loc, f"cell-boundary taggers {kinds['boundary']}",
               "each cell system needs exactly one cell-boundary tagger (otherwise the active unit leaves its cell unnoticed)")
        want_surplus = isinstance(cap, int) and cap > 0
        rep.ob("R10.3-surplus-iff-capped", (len(kinds["surplus"]) == 1) == want_surplus and len(kinds["surplus"]) <= 1, loc,
               f"occupant cap {cap}, surplus taggers {kinds['surplus']}",
               "with a positive occupant limit surplus units exist and need exactly one surplus tagger (else they are missed); "
               "without a limit there are none")
        far = kinds["veto"] + kinds["bounding"]
        hard_core = False
        if kinds["excluded"]:
            ex = graph.by_tag[kinds["excluded"][0]]
            pot = ex.handler_obj.get("potential") if ex.handler_obj else None
            if isinstance(pot, Obj):
                d = prog.resolve_method(pot.cls, "derivative")
                hard_core = d is not None and any(isinstance(n, ast.Raise) and "NotImplementedError" in norm(n.exc or ast.Constant(value=""))
                                                  for n in body_without_docstring(d[1]))
        rep.ob("R10.3-far-field", len(far) == 1 or (len(far) == 0 and hard_core), loc,
               f"far-field taggers {far}, hard-core potential: {hard_core}",
               "units in non-nearby cells must be treated by exactly one far-field tagger (cell-veto or cell-bounding); it may be "
               "absent only for a finite-range hard-core potential")
