"""
Canonical form of a function for structural rules, so that behaviour-preserving edits (introducing or removing locals,
extracting or inlining private helpers, inverting an `if`, guard clauses vs. nesting, `x = x + y` vs `x += y`) do not change
what a rule sees.  Purely syntactic, on deep copies; line numbers of the original statements are kept.

    canon(prog, cls, fn, exclude)   ->  ast.FunctionDef

Steps: (1) inline calls of small private helpers of the class (statement helpers and expression helpers), except names in
`exclude` (role-identified primitives that a rule wants to see as calls); (2) guard clauses become if/else; (3) `not`-tests
are flipped; (4) `x = x + y` becomes `x += y`; (5) copy propagation of single-assignment locals whose right-hand side has
no side effect and draws no random number.
"""
import ast
import copy
from typing import Dict, Iterable, List, Optional, Set

from .pyfront import ClassInfo, Program, body_without_docstring, param_names

IMPURE_CALLS = ("pop", "append", "extend", "remove", "add", "clear", "update", "setdefault", "recv", "send", "set", "acquire", "release",
                "wait", "insert", "reset", "uniform", "random", "expovariate", "choice", "randint", "sample_cell", "get_active_identifier",
                "push_event", "trash_event", "write", "start", "join", "terminate", "popleft")


class _Subst(ast.NodeTransformer):
    def __init__(self, mapping: Dict[str, ast.AST]) -> None:
        self.mapping = mapping

    def visit_Name(self, node: ast.Name):
        if isinstance(node.ctx, ast.Load) and node.id in self.mapping:
            return ast.copy_location(copy.deepcopy(self.mapping[node.id]), node)
        return node


def _terminates(stmts: List[ast.stmt]) -> bool:
    return bool(stmts) and isinstance(stmts[-1], (ast.Return, ast.Raise, ast.Continue, ast.Break))


def _stores(fn: ast.AST) -> Dict[str, int]:
    counts: Dict[str, int] = {}
    for n in ast.walk(fn):
        if isinstance(n, ast.Name) and isinstance(n.ctx, (ast.Store, ast.Del)):
            counts[n.id] = counts.get(n.id, 0) + 1
        elif isinstance(n, ast.arg):
            counts[n.arg] = counts.get(n.arg, 0) + 1
    return counts


PURE_CALLS = {"len", "sum", "min", "max", "abs", "sorted", "list", "tuple", "set", "dict", "range", "enumerate", "zip", "float", "int", "str",
              "bool", "isinstance", "round", "any", "all", "frozenset", "reversed", "repr", "type", "copy", "get", "keys", "values", "items",
              "index", "count", "format", "accumulate", "attrgetter", "itemgetter", "sqrt", "floor", "ceil", "copysign", "isnan", "isinf",
              "fabs", "exp", "log", "sin", "cos", "pow", "Time", "from_handle", "_from_handle", "getattr", "hasattr", "id", "divmod",
              "nearby_cells", "position_to_cell", "relative_cell", "translate", "neighbor_cell"}


def _is_pure(e: ast.AST) -> bool:
    """no side effect, no random draw, and cheap to duplicate: only calls known to be pure functions of their arguments"""
    for n in ast.walk(e):
        if isinstance(n, ast.Call):
            name = n.func.attr if isinstance(n.func, ast.Attribute) else (n.func.id if isinstance(n.func, ast.Name) else "")
            if name in IMPURE_CALLS or name.startswith("_new") or name.startswith("construct"):
                return False
            root = n.func
            while isinstance(root, ast.Attribute):
                root = root.value
            from_setting = isinstance(root, ast.Name) and root.id == "setting" and not name.startswith(("set", "reset", "init"))
            if name not in PURE_CALLS and not from_setting:
                return False
        if isinstance(n, (ast.Yield, ast.YieldFrom, ast.Await, ast.NamedExpr)):
            return False
    return True


def _fix_ifs(stmts: List[ast.stmt]) -> List[ast.stmt]:
    out: List[ast.stmt] = []
    i = 0
    while i < len(stmts):
        s = stmts[i]
        for fld in ("body", "orelse", "finalbody"):
            b = getattr(s, fld, None)
            if isinstance(b, list) and b and isinstance(b[0], ast.stmt):
                setattr(s, fld, _fix_ifs(b))
        if isinstance(s, ast.Try):
            for h in s.handlers:
                h.body = _fix_ifs(h.body)
        if isinstance(s, ast.If):
            # guard clause -> if/else
            if _terminates(s.body) and not s.orelse and i + 1 < len(stmts) and not isinstance(s.body[-1], (ast.Continue, ast.Break)):
                s.orelse = _fix_ifs(stmts[i + 1:])
                i = len(stmts)
            # not-test -> swap
            if isinstance(s.test, ast.UnaryOp) and isinstance(s.test.op, ast.Not) and s.orelse:
                s.test = s.test.operand
                s.body, s.orelse = s.orelse, s.body
        # x = x + y  ->  x += y
        if isinstance(s, ast.Assign) and len(s.targets) == 1 and isinstance(s.value, ast.BinOp) \
                and isinstance(s.value.op, (ast.Add, ast.Sub, ast.Mult)) and ast.dump(s.targets[0]).replace("Store()", "Load()") == ast.dump(s.value.left):
            s = ast.copy_location(ast.AugAssign(target=s.targets[0], op=s.value.op, value=s.value.right), s)
        out.append(s)
        i += 1
    return out


def _direct_mods(fn: ast.AST) -> Set[str]:
    out: Set[str] = set()
    for x in ast.walk(fn):
        if isinstance(x, ast.Attribute) and isinstance(x.ctx, (ast.Store, ast.Del)):
            out.add(x.attr)
        elif isinstance(x, ast.Subscript) and isinstance(x.ctx, (ast.Store, ast.Del)):
            v = x.value
            while isinstance(v, ast.Subscript):
                v = v.value
            if isinstance(v, ast.Attribute):
                out.add(v.attr)
        elif isinstance(x, ast.Call) and isinstance(x.func, ast.Attribute) and x.func.attr in IMPURE_CALLS and isinstance(x.func.value, ast.Attribute):
            out.add(x.func.value.attr)
    return out


def mod_summaries(prog: Program) -> Dict[str, Set[str]]:
    """method name -> attribute names that some method of that name (in any class) may write, directly or through self-calls"""
    cached = prog.__dict__.get("_jfsa_mods")
    if cached is not None:
        return cached
    direct: Dict[str, Set[str]] = {}
    calls: Dict[str, Set[str]] = {}
    for ci in prog.classes:
        for name, fn in ci.methods.items():
            direct.setdefault(name, set()).update(_direct_mods(fn))
            cs = calls.setdefault(name, set())
            for x in ast.walk(fn):
                if isinstance(x, ast.Call) and isinstance(x.func, ast.Attribute) and isinstance(x.func.value, ast.Name) and x.func.value.id == "self":
                    cs.add(x.func.attr)
                # calls on other objects may write too: unknown
    mods = {k: set(v) for k, v in direct.items()}
    changed = True
    while changed:
        changed = False
        for name, cs in calls.items():
            for c in cs:
                extra = mods.get(c)
                if extra is None:
                    continue
                if not extra <= mods[name]:
                    mods[name] |= extra
                    changed = True
    prog.__dict__["_jfsa_mods"] = mods
    return mods


def _stable_attrs(prog: Program) -> Set[str]:
    """attribute names of the package that are only ever bound inside `__init__` (and method names): reading them commutes with any call"""
    cached = prog.__dict__.get("_jfsa_stable_attrs")
    if cached is not None:
        return cached
    every: Set[str] = set()
    changed: Set[str] = set()
    for mi, ci, fn in prog.functions():
        init = fn.name in ("__init__", "__setstate__")
        for x in ast.walk(fn):
            if isinstance(x, ast.Attribute):
                every.add(x.attr)
                if isinstance(x.ctx, (ast.Store, ast.Del)) and not init:
                    changed.add(x.attr)
            elif isinstance(x, ast.Subscript) and isinstance(x.ctx, (ast.Store, ast.Del)) and isinstance(x.value, ast.Attribute):
                changed.add(x.value.attr)
            elif isinstance(x, ast.Call) and isinstance(x.func, ast.Attribute) and isinstance(x.func.value, ast.Attribute) \
                    and x.func.attr in ("update", "append", "extend", "insert", "remove", "pop", "clear", "add", "discard", "setdefault",
                                        "popleft", "appendleft", "sort", "reverse"):
                changed.add(x.func.value.attr)
            elif isinstance(x, ast.Call) and isinstance(x.func, ast.Name) and x.func.id in ("setattr", "delattr"):
                if mi.file.endswith("base/initializer.py"):
                    # the Initializer swaps methods for an error raiser until `initialize` ran and puts the originals back: in a run
                    # that does not raise, every method read is the original
                    continue
                if fn.name in ("__deepcopy__", "__copy__") and x.args and not (isinstance(x.args[0], ast.Name) and x.args[0].id == "self"):
                    continue            # fills the fresh copy: construction
                if len(x.args) >= 2 and isinstance(x.args[1], ast.Constant) and isinstance(x.args[1].value, str):
                    if not init:
                        changed.add(x.args[1].value)
                else:
                    changed |= every        # a computed attribute name: nothing is known to be stable
                    prog.__dict__["_jfsa_stable_attrs"] = set()
                    return set()
    out = every - changed
    prog.__dict__["_jfsa_stable_attrs"] = out
    return out


def _propagate(fn: ast.FunctionDef, prog: Optional[Program] = None) -> None:
    mods = mod_summaries(prog) if prog is not None else None
    # names declared global / nonlocal are not locals: their assignments are effects
    skip: Set[str] = {n for g in ast.walk(fn) if isinstance(g, (ast.Global, ast.Nonlocal)) for n in g.names}
    for _ in range(40):
        nodes = list(ast.walk(fn))
        if not any(isinstance(n, ast.Assign) and len(n.targets) == 1 and isinstance(n.targets[0], ast.Name) and n.targets[0].id not in skip
                   for n in nodes):
            return
        counts = _stores(fn)
        params = {a.arg for a in fn.args.posonlyargs + fn.args.args + fn.args.kwonlyargs}
        attr_stores = set()
        mutation_sites = []
        self_calls: List[ast.Call] = []
        for x in nodes:
            if isinstance(x, ast.Attribute) and isinstance(x.ctx, (ast.Store, ast.Del)):
                attr_stores.add(x.attr)
                mutation_sites.append((x.attr, x))
            elif isinstance(x, ast.Subscript) and isinstance(x.ctx, (ast.Store, ast.Del)) and isinstance(x.value, ast.Attribute):
                attr_stores.add(x.value.attr)
                mutation_sites.append((x.value.attr, x))
            elif isinstance(x, ast.Call) and isinstance(x.func, ast.Attribute) and x.func.attr in ("update", "append", "remove", "pop", "clear") \
                    and isinstance(x.func.value, ast.Attribute):
                attr_stores.add(x.func.value.attr)
                mutation_sites.append((x.func.value.attr, x))
            elif isinstance(x, ast.Call) and isinstance(x.func, ast.Attribute) and isinstance(x.func.value, ast.Name) \
                    and x.func.value.id == "self":
                self_calls.append(x)
        cand: Optional[ast.Assign] = None
        for n in nodes:
            if isinstance(n, ast.Assign) and len(n.targets) == 1 and isinstance(n.targets[0], ast.Name):
                name = n.targets[0].id
                if counts.get(name, 0) != 1 or name in params or name in skip or not _is_pure(n.value):
                    continue
                free = {x.id for x in ast.walk(n.value) if isinstance(x, ast.Name)}
                if name in free:
                    continue
                rebound = [f for f in free if counts.get(f, 0) > 1]
                if rebound and not _stable_within_loop(fn, n, name, rebound):
                    continue
                # the value must not depend on state that the function itself changes (attribute or element stores)
                read_attrs = {x.attr for x in ast.walk(n.value) if isinstance(x, ast.Attribute)}
                read_recv = {(ast.unparse(x.value), x.attr) for x in ast.walk(n.value) if isinstance(x, ast.Attribute)}
                relevant = [m for m in mutation_sites if m[0] in read_attrs and (_recv_text(m[1]), m[0]) in read_recv]
                chain_ = n.value
                while isinstance(chain_, ast.Attribute):
                    chain_ = chain_.value
                is_chain = isinstance(n.value, ast.Attribute) and isinstance(chain_, ast.Name)
                if is_chain:
                    # a bare `obj.attr` names the object held by the attribute: changes IN that object (element stores, append, ..)
                    # are seen through either name; only a re-binding of the attribute separates them
                    relevant = [m for m in relevant if isinstance(m[1], ast.Attribute)]
                bare_alias = is_chain
                if read_attrs and self_calls:
                    # a method of the object itself may change the fields the value reads (write summaries when the program is
                    # known, otherwise any self-call counts); a callable kept in an instance attribute (not a method of any class) is
                    # a plain function without access to `self`: it cannot re-bind the attribute that a bare alias names
                    relevant = relevant + [("*", c) for c in self_calls if not any(c is x for x in ast.walk(n.value))
                                           and (mods is None or (c.func.attr not in mods and not bare_alias) or
                                                (c.func.attr in mods and (mods[c.func.attr] & read_attrs)))]
                if relevant and prog is not None and not (read_attrs - _stable_attrs(prog)):
                    # every attribute read is bound in constructors only (or is a method): no call can change what the value reads
                    relevant = []
                if relevant:
                    # allowed only if no change of these attributes lies between the definition and its last use (in evaluation
                    # order), and no loop that does not contain the definition contains both a use and a change
                    order = _eval_order(fn)
                    uses_ = [x for x in nodes if isinstance(x, ast.Name) and x.id == name and isinstance(x.ctx, ast.Load)]
                    if not uses_:
                        continue
                    d0 = order.get(id(n.targets[0]), 0)
                    last = max(order.get(id(u), 0) for u in uses_)
                    if any(d0 < order.get(id(m[1]), 0) <= last for m in relevant):
                        continue
                    shared_loop = False
                    for lp in nodes:
                        if isinstance(lp, (ast.For, ast.While)):
                            inside = {id(x) for x in ast.walk(lp)}
                            if id(n) not in inside and any(id(u) in inside for u in uses_) and any(id(m[1]) in inside for m in relevant):
                                shared_loop = True
                    if shared_loop:
                        continue
                # do not move an expression into or out of a loop / comprehension scope that rebinds its names
                cand = n
                break
        if cand is None:
            return
        name = cand.targets[0].id
        uses = [x for x in nodes if isinstance(x, ast.Name) and x.id == name and isinstance(x.ctx, ast.Load)]
        if not uses:
            # unused local: leave it (removing is not our business), but stop considering it
            skip.add(name)
            continue
        if len(uses) > 1 and not _cheap(cand.value):
            # a computed value that is used several times stays a local (rules that count computations see it once)
            skip.add(name)
            continue
        _Subst({name: cand.value}).visit(fn)
        _remove_stmt(fn, cand)


def _eval_order(fn: ast.AST) -> Dict[int, int]:
    """approximate evaluation order: right-hand sides before targets, otherwise source order"""
    order: Dict[int, int] = {}

    def visit(n: ast.AST) -> None:
        if isinstance(n, (ast.Assign, ast.AugAssign, ast.AnnAssign)):
            if getattr(n, "value", None) is not None:
                visit(n.value)
            for t in (n.targets if isinstance(n, ast.Assign) else [n.target]):
                visit(t)
            order[id(n)] = len(order) + 1
            return
        if isinstance(n, ast.Call):
            for c in list(n.args) + [k.value for k in n.keywords]:
                visit(c)
            visit(n.func)
            order[id(n)] = len(order) + 1
            return
        for c in ast.iter_child_nodes(n):
            visit(c)
        order[id(n)] = len(order) + 1
    visit(fn)
    return order


def _stable_within_loop(fn: ast.AST, definition: ast.Assign, name: str, rebound: List[str]) -> bool:
    """
    The free variables `rebound` are assigned several times in the function.  The definition may still be propagated if an
    enclosing for loop binds each of them (as loop target), contains the definition and every use of `name`, and contains no other
    assignment to them.
    """
    uses = [x for x in ast.walk(fn) if isinstance(x, ast.Name) and x.id == name and isinstance(x.ctx, ast.Load)]
    for f in rebound:
        ok = False
        for lp in ast.walk(fn):
            if not isinstance(lp, (ast.For, ast.comprehension)):
                continue
            if isinstance(lp, ast.comprehension):
                continue
            targets = {x.id for x in ast.walk(lp.target) if isinstance(x, ast.Name)}
            if f not in targets:
                continue
            inside = {id(x) for st in lp.body for x in ast.walk(st)}
            if id(definition) not in inside or not all(id(u) in inside for u in uses):
                continue
            other = [x for st in lp.body for x in ast.walk(st) if isinstance(x, ast.Name) and x.id == f and isinstance(x.ctx, (ast.Store, ast.Del))]
            if not other:
                ok = True
                break
        if not ok:
            return False
    return True


def _cheap(e: ast.AST) -> bool:
    """a name, constant, attribute chain or subscript of those: duplicating it duplicates no computation"""
    if isinstance(e, (ast.Name, ast.Constant)):
        return True
    if isinstance(e, ast.Attribute):
        return _cheap(e.value)
    if isinstance(e, ast.Subscript):
        return _cheap(e.value) and _cheap(e.slice)
    if isinstance(e, ast.UnaryOp):
        return _cheap(e.operand)
    if isinstance(e, ast.Tuple) and 1 <= len(e.elts) <= 4:
        # a small tuple display of cheap parts (tuples are immutable: no identity to preserve)
        return all(_cheap(x) for x in e.elts)
    return False


class _FoldTupleIndex(ast.NodeTransformer):
    """(a, b)[0] -> a"""
    def visit_Subscript(self, node: ast.Subscript):
        self.generic_visit(node)
        if isinstance(node.value, ast.Tuple) and isinstance(node.slice, ast.Constant) and isinstance(node.slice.value, int) \
                and not isinstance(node.slice.value, bool) and -len(node.value.elts) <= node.slice.value < len(node.value.elts) \
                and not any(isinstance(x, ast.Starred) for x in node.value.elts) and isinstance(node.ctx, ast.Load):
            return node.value.elts[node.slice.value]
        return node


def _recv_text(node: ast.AST) -> str:
    """receiver text of a mutation site: X for `X.attr = ..`, `X.attr[i] = ..`, `X.attr.update(..)`"""
    if isinstance(node, ast.Attribute):
        return ast.unparse(node.value)
    if isinstance(node, ast.Subscript) and isinstance(node.value, ast.Attribute):
        return ast.unparse(node.value.value)
    if isinstance(node, ast.Call) and isinstance(node.func, ast.Attribute) and isinstance(node.func.value, ast.Attribute):
        return ast.unparse(node.func.value.value)
    return "?"


def _remove_stmt(root: ast.AST, stmt: ast.stmt) -> None:
    for n in ast.walk(root):
        for fld in ("body", "orelse", "finalbody"):
            b = getattr(n, fld, None)
            if isinstance(b, list) and any(x is stmt for x in b):
                b[:] = [x for x in b if x is not stmt] or [ast.copy_location(ast.Pass(), stmt)]
                return
        if isinstance(n, ast.Try):
            for h in n.handlers:
                if any(x is stmt for x in h.body):
                    h.body[:] = [x for x in h.body if x is not stmt] or [ast.copy_location(ast.Pass(), stmt)]
                    return


def _passthrough_vararg(fn: ast.FunctionDef) -> bool:
    """`*args` that the body only hands on, once, as `*args` of a call"""
    v = fn.args.vararg.arg if fn.args.vararg else None
    if v is None:
        return False
    uses = [x for x in ast.walk(fn) if isinstance(x, ast.Name) and x.id == v]
    starred = [x for x in ast.walk(fn) if isinstance(x, ast.Starred) and isinstance(x.value, ast.Name) and x.value.id == v]
    return len(uses) == 1 and len(starred) == 1


def _helper_kind(fn: ast.FunctionDef) -> Optional[str]:
    """
    'tail'  : arbitrary body (may return early): inlinable where the call is `return self._h(..)`, and, if it never returns a
              value, where the call is the last statement of a block that ends the function;
    'stmts' : no return at all: inlinable as a statement anywhere;
    'value' : straight-line prefix followed by one final `return <expr>` and no other return: inlinable inside any simple statement.
    """
    body = flat(body_without_docstring(fn))
    if not body or len(body) > 40:
        return None
    static = [d for d in fn.decorator_list if isinstance(d, ast.Name) and d.id == "staticmethod"]
    if fn.args.kwarg or len(fn.decorator_list) != len(static):
        return None
    if fn.args.vararg and not _passthrough_vararg(fn):
        return None
    if any(isinstance(n, (ast.Yield, ast.YieldFrom, ast.Await)) for n in ast.walk(fn)):
        return None
    # a helper that calls itself is a loop, not a block of statements
    if any(isinstance(n, ast.Call) and isinstance(n.func, ast.Attribute) and n.func.attr == fn.name and isinstance(n.func.value, ast.Name)
           and n.func.value.id in ("self", "cls") for n in ast.walk(fn)):
        return None
    rets = [n for n in ast.walk(fn) if isinstance(n, ast.Return)]
    if not rets:
        return "stmts"
    if len(rets) == 1 and rets[0] is body[-1] and rets[0].value is not None:
        return "value"
    return "tail"


def _decision_tree_as_value(h: ast.FunctionDef) -> ast.FunctionDef:
    """
    a helper whose body is nothing but a decision tree of returns (`if c: return a` / `return b`, nested) is the helper
    `return a if c else b`: as such it can be inlined into an expression
    """
    cached = h.__dict__.get("_jfsa_value_form")
    if cached is not None:
        return cached

    def tree(stmts: List[ast.stmt]) -> Optional[ast.AST]:
        stmts = [x for x in stmts if not (isinstance(x, ast.Expr) and isinstance(x.value, ast.Constant))]
        if len(stmts) == 1 and isinstance(stmts[0], ast.Return) and stmts[0].value is not None:
            return stmts[0].value
        if len(stmts) == 1 and isinstance(stmts[0], ast.If) and stmts[0].orelse:
            a, b = tree(stmts[0].body), tree(stmts[0].orelse)
            if a is not None and b is not None:
                return ast.copy_location(ast.IfExp(test=stmts[0].test, body=a, orelse=b), stmts[0])
        if len(stmts) >= 2 and isinstance(stmts[0], ast.If) and not stmts[0].orelse:
            a, b = tree(stmts[0].body), tree(stmts[1:])
            if a is not None and b is not None:
                return ast.copy_location(ast.IfExp(test=stmts[0].test, body=a, orelse=b), stmts[0])
        return None
    out = h
    rets = [n for n in ast.walk(h) if isinstance(n, ast.Return)]
    if len(rets) > 1:
        # a straight-line prefix (assignments / asserts without a return inside) may precede the decision tree
        body = body_without_docstring(h)
        k = 0
        while k < len(body) and isinstance(body[k], (ast.Assign, ast.AugAssign, ast.AnnAssign, ast.Assert, ast.Expr)) \
                and not any(isinstance(x, ast.Return) for x in ast.walk(body[k])):
            k += 1
        v = tree(body[k:])
        if v is not None:
            out = copy.copy(h)
            out.body = list(body[:k]) + [ast.copy_location(ast.Return(value=copy.deepcopy(v)), h.body[-1])]
            ast.fix_missing_locations(out)
    h.__dict__["_jfsa_value_form"] = out
    return out


_COUNTER = [0]


def _instantiate(h: ast.FunctionDef, call: ast.Call, host: ast.FunctionDef):
    """deep copy of the helper body with parameters bound by assignments and locals renamed apart; None if not applicable"""
    ps = param_names(h)
    defaults = h.args.defaults
    args = list(call.args)
    if any(isinstance(a, ast.Starred) for a in args):
        return None
    kw = {k.arg: k.value for k in call.keywords}
    if None in kw:
        return None
    bound: Dict[str, ast.AST] = {}
    for i, p_ in enumerate(ps):
        if i < len(args):
            bound[p_] = args[i]
        elif p_ in kw:
            bound[p_] = kw.pop(p_)
        elif i >= len(ps) - len(defaults):
            bound[p_] = defaults[i - (len(ps) - len(defaults))]
        else:
            return None
    extra: List[ast.AST] = []
    if h.args.vararg is not None:
        if not _passthrough_vararg(h):
            return None
        extra, args = args[len(ps):], args[:len(ps)]
    if kw or len(args) > len(ps):
        return None
    _COUNTER[0] += 1
    tag = f"@{h.name}#{_COUNTER[0]}"
    hb = copy.deepcopy(flat(body_without_docstring(h)))
    if h.args.vararg is not None:
        vname = h.args.vararg.arg
        for c_ in [x for st_ in hb for x in ast.walk(st_) if isinstance(x, ast.Call)]:
            new_args: List[ast.AST] = []
            for a_ in c_.args:
                if isinstance(a_, ast.Starred) and isinstance(a_.value, ast.Name) and a_.value.id == vname:
                    new_args.extend(copy.deepcopy(e_) for e_ in extra)
                else:
                    new_args.append(a_)
            c_.args = new_args
    mod = ast.Module(body=hb, type_ignores=[])
    local_names = set(_stores(mod)) | set(ps)
    for x in ast.walk(mod):
        if isinstance(x, ast.Name) and x.id in local_names:
            x.id = x.id + tag
    pre: List[ast.stmt] = []
    for p_, a in bound.items():
        st = ast.Assign(targets=[ast.Name(id=p_ + tag, ctx=ast.Store())], value=copy.deepcopy(a))
        pre.append(ast.copy_location(st, call))
    for st in hb:
        for x in ast.walk(st):
            if hasattr(x, "lineno"):
                x.lineno = getattr(call, "lineno", x.lineno)
                x.end_lineno = getattr(call, "end_lineno", None)
    return pre + hb


def _inline_helpers(prog: Program, cls: ClassInfo, fn: ast.FunctionDef, exclude: Set[str], depth: int = 0, public: bool = False,
                    module_functions: bool = False) -> None:
    if depth > 3:
        return
    methods = prog.all_methods(cls)

    class_names = {c.name for c in prog.mro(cls)} | {"self", "cls"}

    def helper_of(call: ast.AST):
        if module_functions and isinstance(call, ast.Call) and isinstance(call.func, ast.Name) and call.func.id != fn.name:
            # a small function of the package called by name (defined in this module or imported): read where it is used
            r = prog.resolve_name(cls.module, call.func.id)
            if isinstance(r, tuple) and len(r) == 3 and r[0] == "func" and isinstance(r[2], ast.FunctionDef) \
                    and len(body_without_docstring(r[2])) <= 12 and not r[2].decorator_list \
                    and not any(isinstance(x, ast.Name) and x.id == r[2].name for x in ast.walk(r[2])) \
                    and not any(isinstance(x, (ast.Global, ast.Nonlocal, ast.FunctionDef, ast.Lambda)) for b_ in r[2].body for x in ast.walk(b_)):
                h = _decision_tree_as_value(r[2])
                kind = _helper_kind(h)
                if kind:
                    return h, kind
            return None
        if isinstance(call, ast.Call) and isinstance(call.func, ast.Attribute) and isinstance(call.func.value, ast.Name) \
                and call.func.value.id in class_names and (call.func.attr.startswith("_") or public) and not call.func.attr.startswith("__") \
                and call.func.attr in methods and call.func.attr not in exclude and call.func.attr != fn.name:
            owner, h = methods[call.func.attr]
            if owner.is_abstract_method(call.func.attr):
                return None
            is_static = any(isinstance(d, ast.Name) and d.id == "staticmethod" for d in h.decorator_list)
            # a static helper may be called through the class or the instance; an instance method only through self
            if not is_static and call.func.value.id != "self":
                return None
            # overridden somewhere below the class: the callee is not unique, leave the call
            h = _decision_tree_as_value(h)
            kind = _helper_kind(h)
            if kind:
                return h, kind
        return None

    def generator_of(call: ast.AST):
        """a private generator method whose yields are plain `yield <expr>` statements (no yield from, no value returned)"""
        h = None
        if module_functions and isinstance(call, ast.Call) and isinstance(call.func, ast.Name) and call.func.id != fn.name and not call.keywords:
            # a generator function of the package called by name
            r_ = prog.resolve_name(cls.module, call.func.id)
            if isinstance(r_, tuple) and len(r_) == 3 and r_[0] == "func" and isinstance(r_[2], ast.FunctionDef) \
                    and any(isinstance(x, (ast.Yield, ast.YieldFrom)) for x in ast.walk(r_[2])) \
                    and not any(isinstance(x, ast.Name) and x.id == r_[2].name for x in ast.walk(r_[2])) \
                    and not any(isinstance(x, (ast.Global, ast.Nonlocal, ast.Lambda)) for x in ast.walk(r_[2])):
                h = r_[2]
                if h.decorator_list or h.args.vararg or h.args.kwarg:
                    return None
        if h is None and isinstance(call, ast.Call) and isinstance(call.func, ast.Attribute) and isinstance(call.func.value, ast.Name) \
                and call.func.value.id == "self" and call.func.attr.startswith("_") and call.func.attr in methods \
                and call.func.attr not in exclude and call.func.attr != fn.name:
            owner, h = methods[call.func.attr]
            if owner.is_abstract_method(call.func.attr) or h.decorator_list or h.args.vararg or h.args.kwarg:
                return None
        if h is not None:
            if any(isinstance(x, ast.YieldFrom) for x in ast.walk(h)):
                # `yield from X` as a statement is `for y in X: yield y`
                h = copy.deepcopy(h)
                h.__dict__.pop("_jfsa_canon", None)

                class _YF(ast.NodeTransformer):
                    def visit_Expr(self, node: ast.Expr):
                        if isinstance(node.value, ast.YieldFrom):
                            _COUNTER[0] += 1
                            v = f"item@yieldfrom#{_COUNTER[0]}"
                            loop = ast.For(target=ast.Name(id=v, ctx=ast.Store()), iter=node.value.value,
                                           body=[ast.Expr(value=ast.Yield(value=ast.Name(id=v, ctx=ast.Load())))], orelse=[])
                            return ast.fix_missing_locations(ast.copy_location(loop, node))
                        return node
                h = _YF().visit(h)
            ys = [x for x in ast.walk(h) if isinstance(x, (ast.Yield, ast.YieldFrom))]
            if not ys or any(isinstance(x, ast.YieldFrom) for x in ys):
                return None
            plain = {id(e.value) for e in ast.walk(h) if isinstance(e, ast.Expr) and isinstance(e.value, ast.Yield)}
            if any(id(y) not in plain for y in ys):
                return None
            if any(isinstance(x, ast.Return) and x.value is not None for x in ast.walk(h)):
                return None
            # a bare `return` ends the generator: expressible where the generator is inlined only if it sits directly in the single
            # top-level loop of the generator body (then it is a `break` of that loop)
            if any(isinstance(x, ast.Return) for x in ast.walk(h)):
                body_ = flat(body_without_docstring(h))
                loops_ = [x for x in body_ if isinstance(x, (ast.For, ast.While))]
                if len(loops_) != 1 or body_[-1] is not loops_[0]:
                    return None
                inner_loops = [y for y in ast.walk(loops_[0]) if isinstance(y, (ast.For, ast.While)) and y is not loops_[0]]
                rets_ = [x for x in ast.walk(h) if isinstance(x, ast.Return)]
                if any(not any(r_ is y for y in ast.walk(loops_[0])) or any(r_ is y for il in inner_loops for y in ast.walk(il)) for r_ in rets_):
                    return None
            return h
        return None

    changed = False

    # one-expression helpers (`return <expr>` only, also a decision tree of returns) are replaced wherever they are called, also
    # inside comprehensions and lambdas, by substituting the arguments (simple arguments, or parameters used once)
    class _Beta(ast.NodeTransformer):
        def visit_Call(self, node: ast.Call):
            nonlocal changed
            self.generic_visit(node)
            hk = helper_of(node)
            if hk is None or hk[1] != "value" or node.keywords or any(isinstance(a, ast.Starred) for a in node.args):
                return node
            h = hk[0]
            body = body_without_docstring(h)
            if len(body) != 1 or h.args.defaults:
                return node
            ps = [p_ for p_ in param_names(h)]
            if any(isinstance(x, ast.Name) and x.id in ("self", "cls") for x in ast.walk(body[0].value)):
                return node
            r = _ExprNorm({})._beta(ps, body[0].value, list(node.args))
            if r is None:
                return node
            changed = True
            return ast.copy_location(r, node)
    fn.body = [_Beta().visit(st) for st in fn.body]

    def do_block(b: List[ast.stmt], ends_function: bool) -> List[ast.stmt]:
        nonlocal changed
        expanded: List[ast.stmt] = []
        for st in b:
            if isinstance(st, ast.Assign) and len(st.targets) == 1 and isinstance(st.value, ast.Call) and isinstance(st.value.func, ast.Name) \
                    and st.value.func.id in ("list", "tuple") and len(st.value.args) == 1 and generator_of(st.value.args[0]) is not None:
                _COUNTER[0] += 1
                v_ = f"item@collect#{_COUNTER[0]}"
                tl = copy.deepcopy(st.targets[0])
                for x_ in ast.walk(tl):
                    if hasattr(x_, "ctx"):
                        x_.ctx = ast.Load()
                init_ = ast.copy_location(ast.Assign(targets=[st.targets[0]], value=ast.List(elts=[], ctx=ast.Load())), st)
                app_ = ast.Expr(value=ast.Call(func=ast.Attribute(value=tl, attr="append", ctx=ast.Load()), args=[ast.Name(id=v_, ctx=ast.Load())], keywords=[]))
                loop_ = ast.copy_location(ast.For(target=ast.Name(id=v_, ctx=ast.Store()), iter=st.value.args[0], body=[app_], orelse=[]), st)
                ast.fix_missing_locations(init_)
                ast.fix_missing_locations(loop_)
                expanded.extend([init_, loop_])
            else:
                expanded.append(st)
        b = expanded
        new: List[ast.stmt] = []
        for k, st in enumerate(b):
            last = k == len(b) - 1
            # nested blocks
            for fld in ("body", "orelse", "finalbody"):
                sub = getattr(st, fld, None)
                if isinstance(sub, list) and sub and isinstance(sub[0], ast.stmt):
                    inner_ends = ends_function and last and isinstance(st, (ast.If, ast.With, ast.Try))
                    setattr(st, fld, do_block(sub, inner_ends))
            if isinstance(st, ast.Try):
                for hd in st.handlers:
                    hd.body = do_block(hd.body, ends_function and last)
            # for x in self._generator(..): body   ->   the generator's body with every `yield e` replaced by `x = e; body`
            if isinstance(st, ast.For) and not st.orelse and isinstance(st.iter, ast.Call) and not any(
                    isinstance(x, (ast.Break, ast.Continue)) for b_ in st.body for x in ast.walk(b_)):
                g = generator_of(st.iter)
                if g is not None:
                    inst = _instantiate(g, st.iter, fn)
                    if inst is not None:
                        class Y(ast.NodeTransformer):
                            def visit_Expr(self, node):
                                if isinstance(node.value, ast.Yield) and node.value.value is not None:
                                    bind = ast.copy_location(ast.Assign(targets=[copy.deepcopy(st.target)], value=node.value.value), st)
                                    return [bind] + copy.deepcopy(st.body)
                                return node

                            def visit_Return(self, node):
                                return ast.copy_location(ast.Break(), node)     # end of the generator = end of its single loop
                        wrapper = ast.Module(body=inst, type_ignores=[])
                        Y().visit(wrapper)
                        new.extend(wrapper.body)
                        changed = True
                        continue
            # yield from self._generator(..)   ->   the generator's body (its yields are ours)
            if isinstance(st, ast.Expr) and isinstance(st.value, ast.YieldFrom):
                g = generator_of(st.value.value)
                if g is not None and not any(isinstance(x, ast.Return) for x in ast.walk(g)):
                    inst = _instantiate(g, st.value.value, fn)
                    if inst is not None:
                        new.extend(inst)
                        changed = True
                        continue
            # return self._h(..)
            if isinstance(st, ast.Return) and st.value is not None:
                r = helper_of(st.value)
                if r:
                    inst = _instantiate(r[0], st.value, fn)
                    if inst is not None:
                        if r[1] == "stmts":
                            inst = inst + [ast.copy_location(ast.Return(value=ast.Constant(value=None)), st)]
                        new.extend(inst)
                        changed = True
                        continue
            # self._h(..) as a statement
            if isinstance(st, ast.Expr):
                r = helper_of(st.value)
                if r and (r[1] == "stmts" or (r[1] == "tail" and ends_function and last
                                              and all(x.value is None for x in ast.walk(r[0]) if isinstance(x, ast.Return)))):
                    inst = _instantiate(r[0], st.value, fn)
                    if inst is not None:
                        new.extend(inst)
                        changed = True
                        continue
                if r and r[1] == "value":
                    inst = _instantiate(r[0], st.value, fn)
                    if inst is not None:
                        new.extend(inst[:-1] + [ast.copy_location(ast.Expr(value=inst[-1].value), st)])
                        changed = True
                        continue
            # value helpers inside a simple statement
            if isinstance(st, (ast.Assign, ast.AugAssign, ast.AnnAssign, ast.Return, ast.Expr)):
                calls = [c for c in ast.walk(st) if helper_of(c) and helper_of(c)[1] == "value"]
                # never inside a lambda / comprehension (different scope, evaluated repeatedly)
                scoped = {id(x) for sc in ast.walk(st) if isinstance(sc, (ast.Lambda, ast.ListComp, ast.SetComp, ast.DictComp, ast.GeneratorExp))
                          for x in ast.walk(sc)}
                calls = [c for c in calls if id(c) not in scoped]
                if calls:
                    c = calls[0]
                    inst = _instantiate(helper_of(c)[0], c, fn)
                    if inst is not None:
                        new.extend(inst[:-1])

                        class R(ast.NodeTransformer):
                            def visit_Call(self, node):
                                if node is c:
                                    return inst[-1].value
                                return self.generic_visit(node)
                        new.append(R().visit(st))
                        changed = True
                        continue
            new.append(st)
        return new

    fn.body = do_block(fn.body, True)
    if changed:
        ast.fix_missing_locations(fn)
        _inline_helpers(prog, cls, fn, exclude, depth + 1, public, module_functions)


def _return_pairs(fn: ast.AST) -> Dict[str, int]:
    """name -> number of `name = E; return name` statement pairs"""
    pairs: Dict[str, int] = {}
    for n in ast.walk(fn):
        for fld in ("body", "orelse", "finalbody"):
            b = getattr(n, fld, None)
            if isinstance(b, list):
                for a, r in zip(b, b[1:]):
                    if isinstance(a, ast.Assign) and len(a.targets) == 1 and isinstance(a.targets[0], ast.Name) and isinstance(r, ast.Return) \
                            and isinstance(r.value, ast.Name) and r.value.id == a.targets[0].id:
                        pairs[r.value.id] = pairs.get(r.value.id, 0) + 1
        if isinstance(n, ast.Try):
            for h in n.handlers:
                for a, r in zip(h.body, h.body[1:]):
                    if isinstance(a, ast.Assign) and len(a.targets) == 1 and isinstance(a.targets[0], ast.Name) and isinstance(r, ast.Return) \
                            and isinstance(r.value, ast.Name) and r.value.id == a.targets[0].id:
                        pairs[r.value.id] = pairs.get(r.value.id, 0) + 1
    return pairs


def _merge_adjacent(stmts: List[ast.stmt], counts: Dict[str, int], loads: Dict[str, int], pairs: Optional[Dict[str, int]] = None) -> List[ast.stmt]:
    pairs = pairs or {}
    """`x = E; return x` -> `return E` and `c = E; if c: ..` -> `if E: ..` for a local that is assigned once and read once: the value is
    evaluated at the same point either way, whatever E does"""
    out: List[ast.stmt] = []
    i = 0
    while i < len(stmts):
        s = stmts[i]
        for fld in ("body", "orelse", "finalbody"):
            b = getattr(s, fld, None)
            if isinstance(b, list) and b and isinstance(b[0], ast.stmt):
                setattr(s, fld, _merge_adjacent(b, counts, loads, pairs))
        if isinstance(s, ast.Try):
            for h in s.handlers:
                h.body = _merge_adjacent(h.body, counts, loads, pairs)
        nxt = stmts[i + 1] if i + 1 < len(stmts) else None
        if isinstance(s, ast.Assign) and len(s.targets) == 1 and isinstance(s.targets[0], ast.Name) and nxt is not None:
            name = s.targets[0].id
            if isinstance(nxt, ast.Return) and isinstance(nxt.value, ast.Name) and nxt.value.id == name \
                    and loads.get(name, 0) == pairs.get(name, -1) and counts.get(name, 0) == pairs.get(name, -1):
                # every read of the name is such a `return name` right after an assignment to it
                out.append(ast.copy_location(ast.Return(value=s.value), s))
                i += 2
                continue
            if counts.get(name, 0) == 1 and loads.get(name, 0) == 1:
                if isinstance(nxt, ast.Return) and isinstance(nxt.value, ast.Name) and nxt.value.id == name:
                    out.append(ast.copy_location(ast.Return(value=s.value), s))
                    i += 2
                    continue
                if isinstance(nxt, ast.If) and isinstance(nxt.test, ast.Name) and nxt.test.id == name:
                    nxt.test = s.value
                    i += 1
                    continue
        out.append(s)
        i += 1
    return out


def _append_loops(stmts: List[ast.stmt]) -> List[ast.stmt]:
    """`x = []` directly followed by `for t in it: [if c:] x.append(e)`  ->  `x = [e for t in it [if c]]`"""
    out: List[ast.stmt] = []
    i = 0
    while i < len(stmts):
        s = stmts[i]
        for fld in ("body", "orelse", "finalbody"):
            b = getattr(s, fld, None)
            if isinstance(b, list) and b and isinstance(b[0], ast.stmt):
                setattr(s, fld, _append_loops(b))
        if isinstance(s, ast.Try):
            for h in s.handlers:
                h.body = _append_loops(h.body)
        nxt = stmts[i + 1] if i + 1 < len(stmts) else None
        if isinstance(s, ast.Assign) and len(s.targets) == 1 and isinstance(s.targets[0], ast.Name) and isinstance(s.value, ast.List) \
                and not s.value.elts and isinstance(nxt, ast.For) and not nxt.orelse:
            x = s.targets[0].id
            gens: List[ast.comprehension] = []
            cur: ast.stmt = nxt
            elt = None
            ok = True
            while ok:
                if isinstance(cur, ast.For) and not cur.orelse and len(cur.body) == 1:
                    gens.append(ast.comprehension(target=cur.target, iter=cur.iter, ifs=[], is_async=0))
                    cur = cur.body[0]
                elif isinstance(cur, ast.If) and not cur.orelse and len(cur.body) == 1 and gens:
                    gens[-1].ifs.append(cur.test)
                    cur = cur.body[0]
                elif isinstance(cur, ast.Expr) and isinstance(cur.value, ast.Call) and isinstance(cur.value.func, ast.Attribute) \
                        and cur.value.func.attr == "append" and isinstance(cur.value.func.value, ast.Name) and cur.value.func.value.id == x \
                        and len(cur.value.args) == 1 and not cur.value.keywords and gens:
                    elt = cur.value.args[0]
                    break
                else:
                    ok = False
            mentions_x = any(isinstance(n, ast.Name) and n.id == x for g in gens for part in [g.iter] + g.ifs for n in ast.walk(part)) \
                or (elt is not None and any(isinstance(n, ast.Name) and n.id == x for n in ast.walk(elt)))
            impure = any(isinstance(n, (ast.Yield, ast.YieldFrom, ast.Await)) for g in gens for part in [g.iter] + g.ifs for n in ast.walk(part))
            if ok and elt is not None and not mentions_x and not impure:
                comp = ast.copy_location(ast.ListComp(elt=elt, generators=gens), nxt)
                out.append(ast.copy_location(ast.Assign(targets=[s.targets[0]], value=comp), s))
                i += 2
                continue
        out.append(s)
        i += 1
    return out


def _local_generators(fn: ast.AST) -> Dict[str, ast.AST]:
    """single-assignment locals bound to a generator expression whose every other occurrence is the iterable of a for statement"""
    cached = fn.__dict__.get("_jfsa_local_generators")
    if cached is not None:
        return cached
    out: Dict[str, ast.GeneratorExp] = {}
    stores = _stores(fn)
    for a in ast.walk(fn):
        if isinstance(a, ast.Assign) and len(a.targets) == 1 and isinstance(a.targets[0], ast.Name) and isinstance(a.value, (ast.GeneratorExp, ast.ListComp)) \
                and stores.get(a.targets[0].id) == 1:
            name = a.targets[0].id
            loads = [x for x in ast.walk(fn) if isinstance(x, ast.Name) and x.id == name and isinstance(x.ctx, ast.Load)]
            iters = [f.iter for f in ast.walk(fn) if isinstance(f, ast.For) and isinstance(f.iter, ast.Name) and f.iter.id == name]
            if loads and len(loads) == len(iters):
                out[name] = a.value
    fn.__dict__["_jfsa_local_generators"] = out
    return out


def _genexp_loops(stmts: List[ast.stmt], fn: ast.AST) -> List[ast.stmt]:
    """
    `for t in (e for a in A for b in B if c): body` (the generator written in place, or bound by the statement just before to a
    local that is used nowhere else)  ->  `for a in A: for b in B: if c: t = e; body`  (a generator expression is evaluated lazily,
    so the interleaving with the body is the same)
    """
    out: List[ast.stmt] = []
    i = 0
    while i < len(stmts):
        s = stmts[i]
        nxt = stmts[i + 1] if i + 1 < len(stmts) else None
        gen = None
        loop = None
        if isinstance(s, ast.For) and isinstance(s.iter, ast.GeneratorExp) and not s.orelse:
            gen, loop, step = s.iter, s, 1
        elif isinstance(s, ast.Assign) and len(s.targets) == 1 and isinstance(s.targets[0], ast.Name) and isinstance(s.value, ast.GeneratorExp) \
                and isinstance(nxt, ast.For) and isinstance(nxt.iter, ast.Name) and nxt.iter.id == s.targets[0].id and not nxt.orelse \
                and sum(1 for x in ast.walk(fn) if isinstance(x, ast.Name) and x.id == s.targets[0].id) == 2:
            gen, loop, step = s.value, nxt, 2
        elif isinstance(s, ast.For) and isinstance(s.iter, ast.Name) and not s.orelse and s.iter.id in _local_generators(fn):
            # a generator bound to a local earlier; every use of the local is the iterable of a `for` (in exclusive branches)
            gen, loop, step = copy.deepcopy(_local_generators(fn)[s.iter.id]), s, 1
        if isinstance(s, ast.Expr) and isinstance(s.value, ast.YieldFrom) and isinstance(s.value.value, ast.GeneratorExp):
            # `yield from (e for a in A if c)`  ->  `for a in A: if c: yield e`
            g0 = s.value.value
            inner0: List[ast.stmt] = [ast.copy_location(ast.Expr(value=ast.copy_location(ast.Yield(value=g0.elt), s)), s)]
            for g in reversed(g0.generators):
                for c in reversed(g.ifs):
                    inner0 = [ast.copy_location(ast.If(test=c, body=inner0, orelse=[]), s)]
                inner0 = [ast.copy_location(ast.For(target=g.target, iter=g.iter, body=inner0, orelse=[]), s)]
            out.extend(_genexp_loops(inner0, fn))
            i += 1
            continue
        if gen is not None and (len(gen.generators) == 1 or not any(isinstance(x, (ast.Break,)) for b_ in loop.body for x in ast.walk(b_))):
            # `for t in (x for x in A if c(x))`: the generator's own variable is renamed to the loop target
            if isinstance(loop.target, ast.Name) and isinstance(gen.elt, ast.Name) and gen.elt.id != loop.target.id \
                    and any(isinstance(g_.target, ast.Name) and g_.target.id == gen.elt.id for g_ in gen.generators) \
                    and not any(isinstance(x, ast.Name) and x.id == loop.target.id for g_ in gen.generators for x in ast.walk(g_)):
                class _Ren(ast.NodeTransformer):
                    def visit_Name(self, node: ast.Name):
                        if node.id == old_name:
                            node.id = new_name
                        return node
                old_name, new_name = gen.elt.id, loop.target.id
                gen = copy.deepcopy(gen)
                _Ren().visit(gen)
            same = ast.unparse(loop.target) == ast.unparse(gen.elt)
            inner: List[ast.stmt] = ([] if same else [ast.copy_location(ast.Assign(targets=[loop.target], value=gen.elt), loop)]) + loop.body
            for g in reversed(gen.generators):
                for c in reversed(g.ifs):
                    inner = [ast.copy_location(ast.If(test=c, body=inner, orelse=[]), loop)]
                inner = [ast.copy_location(ast.For(target=g.target, iter=g.iter, body=inner, orelse=[]), loop)]
            out.extend(_genexp_loops(inner, fn))
            i += step
            continue
        for fld in ("body", "orelse", "finalbody"):
            b = getattr(s, fld, None)
            if isinstance(b, list) and b and isinstance(b[0], ast.stmt):
                setattr(s, fld, _genexp_loops(b, fn))
        if isinstance(s, ast.Try):
            for h in s.handlers:
                h.body = _genexp_loops(h.body, fn)
        out.append(s)
        i += 1
    return out


def _split_tuple_assigns(stmts: List[ast.stmt]) -> List[ast.stmt]:
    """`a, b = x, y` -> `a = x; b = y` when no later value reads an earlier target (then the parallel assignment is sequential)"""
    out: List[ast.stmt] = []
    for s in stmts:
        for fld in ("body", "orelse", "finalbody"):
            b = getattr(s, fld, None)
            if isinstance(b, list) and b and isinstance(b[0], ast.stmt):
                setattr(s, fld, _split_tuple_assigns(b))
        if isinstance(s, ast.Try):
            for h in s.handlers:
                h.body = _split_tuple_assigns(h.body)
        if isinstance(s, ast.Assign) and len(s.targets) == 1 and isinstance(s.targets[0], ast.Tuple) and isinstance(s.value, ast.Tuple) \
                and len(s.targets[0].elts) == len(s.value.elts) and not any(isinstance(e, ast.Starred) for e in s.targets[0].elts + s.value.elts):
            ts = [ast.unparse(t) for t in s.targets[0].elts]
            vs = [ast.unparse(v) for v in s.value.elts]
            roots = [t.split(".")[0].split("[")[0] for t in ts]
            independent = all(ts[i] not in vs[j] and not (roots[i] == ts[i] and roots[i] in {x.id for x in ast.walk(s.value.elts[j]) if isinstance(x, ast.Name)})
                              for j in range(len(vs)) for i in range(j))
            if independent:
                for t, v in zip(s.targets[0].elts, s.value.elts):
                    out.append(ast.copy_location(ast.Assign(targets=[t], value=v), s))
                continue
        out.append(s)
    return out


def _strip_order(e: ast.AST) -> ast.AST:
    while True:
        if isinstance(e, ast.Call) and isinstance(e.func, ast.Name) and e.func.id in ("list", "tuple", "reversed", "iter", "sorted", "deque") and len(e.args) == 1:
            e = e.args[0]
        elif isinstance(e, ast.Call) and isinstance(e.func, ast.Attribute) and e.func.attr == "deque" and len(e.args) == 1:
            e = e.args[0]
        elif isinstance(e, ast.Subscript) and isinstance(e.slice, ast.Slice) and e.slice.lower is None and e.slice.upper is None:
            e = e.value   # x[:] / x[::-1]: a copy, possibly reversed
        else:
            return e


def _worklists(stmts: List[ast.stmt]) -> List[ast.stmt]:
    """
    A tree traversal written with an explicit work list,
        w = list(ROOTS) [; w.reverse()]
        while w:
            c = w.pop()
            <action on c>
            w.extend(reversed(c.children))
    is listed as   for c in __subtree_nodes__(ROOTS): <action on c>   (every node of the trees below ROOTS is visited once; the
    visiting order is not part of the normal form).
    """
    out: List[ast.stmt] = []
    i = 0
    while i < len(stmts):
        s = stmts[i]
        for fld in ("body", "orelse", "finalbody"):
            b = getattr(s, fld, None)
            if isinstance(b, list) and b and isinstance(b[0], ast.stmt):
                setattr(s, fld, _worklists(b))
        if isinstance(s, ast.Try):
            for h in s.handlers:
                h.body = _worklists(h.body)
        if isinstance(s, ast.Assign) and len(s.targets) == 1 and isinstance(s.targets[0], ast.Name):
            w = s.targets[0].id
            roots = _strip_order(s.value)
            if isinstance(roots, ast.List) and len(roots.elts) == 1 and isinstance(roots.elts[0], ast.Starred):
                roots = roots.elts[0].value
            j = i + 1
            if j < len(stmts) and isinstance(stmts[j], ast.Expr) and isinstance(stmts[j].value, ast.Call) \
                    and isinstance(stmts[j].value.func, ast.Attribute) and stmts[j].value.func.attr == "reverse" \
                    and isinstance(stmts[j].value.func.value, ast.Name) and stmts[j].value.func.value.id == w:
                j += 1
            loop = stmts[j] if j < len(stmts) else None
            if isinstance(loop, ast.While) and not loop.orelse and loop.body:
                t = loop.test
                test_ok = (isinstance(t, ast.Name) and t.id == w) or (isinstance(t, ast.Compare) and w in ast.unparse(t) and "len(" in ast.unparse(t))
                first = loop.body[0]
                pop_call = isinstance(first, ast.Assign) and len(first.targets) == 1 \
                    and isinstance(first.value, ast.Call) and isinstance(first.value.func, ast.Attribute) \
                    and first.value.func.attr in ("pop", "popleft") and isinstance(first.value.func.value, ast.Name) and first.value.func.value.id == w
                pop_ok = pop_call and isinstance(first.targets[0], ast.Name)
                # work items that carry context: (node, <context..>) tuples -- the traversal is the same traversal of the nodes
                tuple_items = pop_call and isinstance(first.targets[0], ast.Tuple) and first.targets[0].elts \
                    and all(isinstance(x, ast.Name) for x in first.targets[0].elts) \
                    and isinstance(roots, ast.List) and len(roots.elts) == 1 and isinstance(roots.elts[0], ast.Tuple) \
                    and len(roots.elts[0].elts) == len(first.targets[0].elts)
                if test_ok and tuple_items:
                    c = first.targets[0].elts[0].id
                    rest, extends = [], 0
                    for st in loop.body[1:]:
                        pushes = None
                        if isinstance(st, ast.Expr) and isinstance(st.value, ast.Call) and isinstance(st.value.func, ast.Attribute) \
                                and st.value.func.attr in ("extend", "extendleft") and isinstance(st.value.func.value, ast.Name) \
                                and st.value.func.value.id == w and len(st.value.args) == 1:
                            pushes = _strip_order(st.value.args[0])
                        if pushes is not None:
                            okp = isinstance(pushes, (ast.ListComp, ast.GeneratorExp)) and len(pushes.generators) == 1 and not pushes.generators[0].ifs \
                                and isinstance(pushes.elt, ast.Tuple) and len(pushes.elt.elts) == len(first.targets[0].elts)
                            if okp:
                                g = pushes.generators[0]
                                it = _strip_order(g.iter)
                                if isinstance(it, ast.Call) and isinstance(it.func, ast.Name) and it.func.id == "enumerate" and it.args:
                                    it = it.args[0]
                                it = _strip_order(it)
                                tnames = {x.id for x in ast.walk(g.target) if isinstance(x, ast.Name)}
                                okp = isinstance(it, ast.Attribute) and it.attr == "children" and isinstance(it.value, ast.Name) and it.value.id == c \
                                    and isinstance(pushes.elt.elts[0], ast.Name) and pushes.elt.elts[0].id in tnames
                            extends = extends + 1 if okp else 99
                            continue
                        rest.append(st)
                    touches_w = any(isinstance(x, ast.Name) and x.id == w for st in rest for x in ast.walk(st))
                    if extends == 1 and not touches_w and rest and not any(isinstance(x, (ast.Break, ast.Continue)) for st in rest for x in ast.walk(st)):
                        root0 = ast.List(elts=[roots.elts[0].elts[0]], ctx=ast.Load())
                        call = ast.Call(func=ast.Name(id="__subtree_nodes__", ctx=ast.Load()), args=[root0], keywords=[])
                        # the context components keep their names; their first values are bound before the loop
                        pre = [ast.copy_location(ast.Assign(targets=[ast.Name(id=t.id, ctx=ast.Store())], value=v), s)
                               for t, v in list(zip(first.targets[0].elts, roots.elts[0].elts))[1:]]
                        new_loop = ast.For(target=ast.Name(id=c, ctx=ast.Store()), iter=call, body=_worklists(rest), orelse=[])
                        out.extend(pre)
                        out.append(ast.copy_location(new_loop, loop))
                        ast.fix_missing_locations(out[-1])
                        i = j + 1
                        continue
                if test_ok and pop_ok:
                    c = first.targets[0].id
                    rest, extends = [], 0
                    for st in loop.body[1:]:
                        pushes = None
                        # `if c.children: w.extend(..)`: pushing nothing for a leaf is the same traversal
                        if isinstance(st, ast.If) and not st.orelse and len(st.body) == 1 and \
                                ast.unparse(st.test) in (f"{c}.children", f"len({c}.children) > 0", f"len({c}.children) != 0", f"{c}.children != []"):
                            st = st.body[0]
                        if isinstance(st, ast.Expr) and isinstance(st.value, ast.Call) and isinstance(st.value.func, ast.Attribute) \
                                and st.value.func.attr in ("extend", "extendleft") and isinstance(st.value.func.value, ast.Name) \
                                and st.value.func.value.id == w and len(st.value.args) == 1:
                            pushes = st.value.args[0]
                        elif isinstance(st, ast.AugAssign) and isinstance(st.op, ast.Add) and isinstance(st.target, ast.Name) and st.target.id == w:
                            pushes = st.value
                        if pushes is not None:
                            ch = _strip_order(pushes)
                            if isinstance(ch, ast.Attribute) and ch.attr == "children" and isinstance(ch.value, ast.Name) and ch.value.id == c:
                                extends += 1
                                continue
                            extends = 99
                        rest.append(st)
                    touches_w = any(isinstance(x, ast.Name) and x.id == w for st in rest for x in ast.walk(st))
                    if extends == 1 and not touches_w and rest and not any(isinstance(x, (ast.Break, ast.Continue)) for st in rest for x in ast.walk(st)):
                        call = ast.Call(func=ast.Name(id="__subtree_nodes__", ctx=ast.Load()), args=[roots], keywords=[])
                        new_loop = ast.For(target=ast.Name(id=c, ctx=ast.Store()), iter=call, body=_worklists(rest), orelse=[])
                        out.append(ast.copy_location(new_loop, loop))
                        i = j + 1
                        continue
        out.append(s)
        i += 1
    return out


def _rename(stmts: List[ast.stmt], name: str, by: ast.AST) -> List[ast.stmt]:
    out = copy.deepcopy(stmts)
    for st in out:
        _Subst({name: by}).visit(st)
    return out


def _small_loops(stmts: List[ast.stmt], fn: ast.AST) -> List[ast.stmt]:
    """
    (1) `if c: v = (a, b) else: v = (b, a)` followed by `for x in v: body` (v used nowhere else) -> the loop moves into both branches;
    (2) `for x in (a, b, ..): body` over a short display of names, small body without break / continue -> unrolled;
    (3) a nested function without parameters that returns nothing, called as a statement `f()` -> its body.
    """
    nested = {d.name: d for d in ast.walk(fn) if isinstance(d, ast.FunctionDef) and d is not fn and not d.args.args and not d.args.posonlyargs
              and not d.args.kwonlyargs and not d.args.vararg and not d.args.kwarg and not d.decorator_list
              and not any(isinstance(x, (ast.Return, ast.Yield, ast.YieldFrom, ast.Nonlocal, ast.Global)) for x in ast.walk(d))}
    out: List[ast.stmt] = []
    i = 0
    while i < len(stmts):
        s = stmts[i]
        nxt = stmts[i + 1] if i + 1 < len(stmts) else None
        def as_chain(e: ast.AST) -> ast.AST:
            """A + B (+ C) of names is the chain of A, B (, C) as far as iterating over it goes"""
            parts = []

            def flatten(x: ast.AST) -> bool:
                if isinstance(x, ast.BinOp) and isinstance(x.op, ast.Add):
                    return flatten(x.left) and flatten(x.right)
                if isinstance(x, ast.Name):
                    parts.append(x)
                    return True
                return False
            if isinstance(e, ast.BinOp) and flatten(e) and 2 <= len(parts) <= 4:
                return ast.copy_location(ast.Call(func=ast.Name(id="chain", ctx=ast.Load()), args=parts, keywords=[]), e)
            return e
        if isinstance(s, ast.For) and not s.orelse:
            s.iter = as_chain(s.iter)
        if isinstance(s, ast.If) and s.orelse and isinstance(nxt, ast.For) and isinstance(nxt.iter, ast.Name):
            for b_ in (s.body, s.orelse):
                if b_ and isinstance(b_[-1], ast.Assign) and len(b_[-1].targets) == 1 and isinstance(b_[-1].targets[0], ast.Name) \
                        and b_[-1].targets[0].id == nxt.iter.id:
                    b_[-1].value = as_chain(b_[-1].value)

        def is_chain(e: ast.AST) -> bool:
            return isinstance(e, ast.Call) and ast.unparse(e.func).split(".")[-1] == "chain" and not e.keywords and 2 <= len(e.args) <= 4 \
                and all(isinstance(a_, ast.Name) or (isinstance(a_, ast.Call) and isinstance(a_.func, ast.Name) and a_.func.id in ("reversed", "list", "tuple")
                                                     and len(a_.args) == 1 and isinstance(a_.args[0], ast.Name)) for a_ in e.args)
        # (0) `for x in chain(A, B): body`  ->  `for it in (A, B): for x in it: body`
        if isinstance(s, ast.For) and not s.orelse and is_chain(s.iter):
            _COUNTER[0] += 1
            itn = f"part@chain#{_COUNTER[0]}"
            inner_for = ast.copy_location(ast.For(target=s.target, iter=ast.Name(id=itn, ctx=ast.Load()), body=s.body, orelse=[]), s)
            s = ast.copy_location(ast.For(target=ast.Name(id=itn, ctx=ast.Store()), iter=ast.Tuple(elts=list(s.iter.args), ctx=ast.Load()),
                                          body=[inner_for], orelse=[]), s)
            ast.fix_missing_locations(s)
        # (1)
        if isinstance(s, ast.If) and s.orelse and isinstance(nxt, ast.For) and isinstance(nxt.iter, ast.Name) and not nxt.orelse:
            v = nxt.iter.id
            def last_assign(b):
                return b and isinstance(b[-1], ast.Assign) and len(b[-1].targets) == 1 and isinstance(b[-1].targets[0], ast.Name) \
                    and b[-1].targets[0].id == v and (isinstance(b[-1].value, (ast.Tuple, ast.List)) or is_chain(b[-1].value))
            uses = sum(1 for x in ast.walk(fn) if isinstance(x, ast.Name) and x.id == v)
            if last_assign(s.body) and last_assign(s.orelse) and uses == 3:
                for b in (s.body, s.orelse):
                    disp = b[-1].value
                    moved = ast.copy_location(ast.For(target=copy.deepcopy(nxt.target), iter=disp, body=copy.deepcopy(nxt.body), orelse=[]), nxt)
                    b[-1:] = _small_loops([moved], fn)
                stmts = stmts[:i + 1] + stmts[i + 2:]
                nxt = None
        for fld in ("body", "orelse", "finalbody"):
            b = getattr(s, fld, None)
            if isinstance(b, list) and b and isinstance(b[0], ast.stmt) and not (isinstance(s, ast.FunctionDef) and s is not fn):
                setattr(s, fld, _small_loops(b, fn))
        if isinstance(s, ast.Try):
            for h in s.handlers:
                h.body = _small_loops(h.body, fn)
        # (2)
        if isinstance(s, ast.For) and not s.orelse and isinstance(s.target, ast.Name) and isinstance(s.iter, (ast.Tuple, ast.List)) \
                and 1 <= len(s.iter.elts) <= 4 and all(isinstance(e, (ast.Name, ast.Constant)) or (isinstance(e, ast.Call) and isinstance(e.func, ast.Name)
                                                                                  and e.func.id in ("reversed", "list", "tuple") and len(e.args) == 1
                                                                                  and isinstance(e.args[0], ast.Name)) for e in s.iter.elts) and len(s.body) <= 3 \
                and not any(isinstance(x, (ast.Break, ast.Continue)) for b_ in s.body for x in ast.walk(b_)) \
                and not any(isinstance(x, ast.Name) and x.id == s.target.id and isinstance(x.ctx, ast.Store) for b_ in s.body for x in ast.walk(b_)):
            unrolled: List[ast.stmt] = []
            for e in s.iter.elts:
                unrolled.extend(_rename(s.body, s.target.id, e))
            out.extend(_small_loops(unrolled, fn))
            i += 1
            continue
        # (2b) the same over a display of equally long tuples of names with a tuple target: `for a, b in ((x, y), (u, v)): body`
        if isinstance(s, ast.For) and not s.orelse and isinstance(s.target, ast.Tuple) and all(isinstance(t, ast.Name) for t in s.target.elts) \
                and isinstance(s.iter, (ast.Tuple, ast.List)) and 1 <= len(s.iter.elts) <= 4 and len(s.body) <= 3 \
                and all(isinstance(e, (ast.Tuple, ast.List)) and len(e.elts) == len(s.target.elts)
                        and all(isinstance(x, ast.Name) and x.id not in {t.id for t in s.target.elts} for x in e.elts) for e in s.iter.elts) \
                and not any(isinstance(x, (ast.Break, ast.Continue)) for b_ in s.body for x in ast.walk(b_)) \
                and not any(isinstance(x, ast.Name) and x.id in {t.id for t in s.target.elts} and isinstance(x.ctx, ast.Store)
                            for b_ in s.body for x in ast.walk(b_)):
            unrolled = []
            for e in s.iter.elts:
                body_ = s.body
                for t, x in zip(s.target.elts, e.elts):
                    body_ = _rename(body_, t.id, x)
                unrolled.extend(body_)
            out.extend(_small_loops(unrolled, fn))
            i += 1
            continue
        # (3)
        if isinstance(s, ast.Expr) and isinstance(s.value, ast.Call) and isinstance(s.value.func, ast.Name) and s.value.func.id in nested \
                and not s.value.args and not s.value.keywords:
            body = [b_ for b_ in copy.deepcopy(nested[s.value.func.id].body)
                    if not (isinstance(b_, ast.Expr) and isinstance(b_.value, ast.Constant))]
            for b_ in body:
                for x in ast.walk(b_):
                    if hasattr(x, "lineno"):
                        x.lineno = s.lineno
            out.extend(body or [ast.copy_location(ast.Pass(), s)])
            i += 1
            continue
        out.append(s)
        i += 1
    return out


def _for_else_any(stmts: List[ast.stmt]) -> List[ast.stmt]:
    """
    `for x in IT: if c(x): break` + `else: B` followed by REST   is   `if any(c(x) for x in IT): REST else: B; REST'`  where B ends by
    leaving (return / raise): the search loop whose only effect is to find out whether some element satisfies c.
    """
    out: List[ast.stmt] = []
    for i, s in enumerate(stmts):
        for fld in ("body", "orelse", "finalbody"):
            b = getattr(s, fld, None)
            if isinstance(b, list) and b and isinstance(b[0], ast.stmt) and not isinstance(s, (ast.FunctionDef, ast.ClassDef)):
                setattr(s, fld, _for_else_any(b))
        if isinstance(s, ast.For) and s.orelse and len(s.body) == 1 and isinstance(s.body[0], ast.If) and not s.body[0].orelse \
                and len(s.body[0].body) == 1 and isinstance(s.body[0].body[0], ast.Break) and _terminates(s.orelse) \
                and isinstance(s.target, ast.Name):
            gen = ast.GeneratorExp(elt=s.body[0].test, generators=[ast.comprehension(target=s.target, iter=s.iter, ifs=[], is_async=0)])
            test = ast.Call(func=ast.Name(id="any", ctx=ast.Load()), args=[gen], keywords=[])
            rest = _for_else_any(list(stmts[i + 1:]))
            new_if = ast.copy_location(ast.If(test=test, body=rest or [ast.Pass()], orelse=s.orelse), s)
            ast.fix_missing_locations(new_if)
            out.append(new_if)
            return out
        out.append(s)
    return out


def _hoist_walrus(stmts: List[ast.stmt]) -> List[ast.stmt]:
    """
    `(name := value)` inside a simple statement or an `if` / `while`-less test is an assignment followed by a use of the name:
    `return 0.0 if (c := x % L) == L else c`  ->  `c = x % L; return 0.0 if c == L else c`.  Only done when the walrus is evaluated
    unconditionally and before any other use of the name in that statement (not inside a comprehension, lambda, the right operand of
    and / or, or a branch of a conditional expression) and nothing with a side effect (a call) is evaluated before it.
    """
    def first_walrus(e: ast.AST):
        """(the NamedExpr, whether something with a possible side effect precedes it) in evaluation order, or None"""
        seen_call = [False]
        found = [None]

        def go(x: ast.AST, conditional: bool) -> bool:
            if found[0] is not None:
                return True
            if isinstance(x, (ast.Lambda, ast.ListComp, ast.SetComp, ast.DictComp, ast.GeneratorExp)):
                return False
            if isinstance(x, ast.NamedExpr):
                if conditional or seen_call[0] or not isinstance(x.target, ast.Name):
                    found[0] = False
                    return True
                if any(isinstance(y, (ast.NamedExpr, ast.Call)) for y in ast.walk(x.value) if y is not x.value) or isinstance(x.value, ast.NamedExpr):
                    pass
                found[0] = x
                return True
            if isinstance(x, ast.BoolOp):
                for i, v in enumerate(x.values):
                    if go(v, conditional or i > 0):
                        return True
                return False
            if isinstance(x, ast.IfExp):
                return go(x.test, conditional) or go(x.body, True) or go(x.orelse, True)
            if isinstance(x, ast.Compare):
                if go(x.left, conditional):
                    return True
                for i, c in enumerate(x.comparators):
                    if go(c, conditional or i > 0):
                        return True
                return False
            if isinstance(x, ast.Call):
                for c in [x.func] + list(x.args) + [k.value for k in x.keywords]:
                    if go(c, conditional):
                        return True
                seen_call[0] = True
                return False
            for c in ast.iter_child_nodes(x):
                if go(c, conditional):
                    return True
            return False
        go(e, False)
        return found[0] or None

    out: List[ast.stmt] = []
    for s in stmts:
        for fld in ("body", "orelse", "finalbody"):
            b = getattr(s, fld, None)
            if isinstance(b, list) and b and isinstance(b[0], ast.stmt) and not isinstance(s, (ast.FunctionDef, ast.ClassDef)):
                setattr(s, fld, _hoist_walrus(b))
        if isinstance(s, ast.Try):
            for h in s.handlers:
                h.body = _hoist_walrus(h.body)
        for _ in range(4):
            host = s.value if isinstance(s, (ast.Return, ast.Assign, ast.Expr, ast.AugAssign)) and getattr(s, "value", None) is not None \
                else s.test if isinstance(s, (ast.If, ast.Assert)) else None
            if host is None:
                break
            w = first_walrus(host)
            if w is None:
                break
            out.append(ast.copy_location(ast.Assign(targets=[ast.Name(id=w.target.id, ctx=ast.Store())], value=w.value), s))

            class _Drop(ast.NodeTransformer):
                def visit_NamedExpr(self, node: ast.NamedExpr):
                    if node is w:
                        return ast.copy_location(ast.Name(id=w.target.id, ctx=ast.Load()), node)
                    return self.generic_visit(node)
            if isinstance(s, (ast.If, ast.Assert)):
                s.test = _Drop().visit(s.test)
            else:
                s.value = _Drop().visit(s.value)
            ast.fix_missing_locations(out[-1])
        out.append(s)
    return out


def _takewhile_loops(stmts: List[ast.stmt], fn: ast.AST) -> List[ast.stmt]:
    """
    `T = [e(x) for x in takewhile(P, IT)]`  (IT possibly bound just before to a local used only here)  ->
    `T = []; for x in IT: if not P(x): break; T.append(e(x))`   -- the list that a prefix scan builds, written as the scan.
    """
    out: List[ast.stmt] = []
    for s in stmts:
        for fld in ("body", "orelse", "finalbody"):
            b = getattr(s, fld, None)
            if isinstance(b, list) and b and isinstance(b[0], ast.stmt) and not isinstance(s, (ast.FunctionDef, ast.ClassDef)):
                setattr(s, fld, _takewhile_loops(b, fn))
        if isinstance(s, ast.Assign) and len(s.targets) == 1 and isinstance(s.value, ast.ListComp) and len(s.value.generators) == 1 \
                and not s.value.generators[0].ifs and isinstance(s.value.generators[0].target, ast.Name):
            g = s.value.generators[0]
            it = g.iter
            drop = None
            if isinstance(it, ast.Name) and out and isinstance(out[-1], ast.Assign) and len(out[-1].targets) == 1 \
                    and isinstance(out[-1].targets[0], ast.Name) and out[-1].targets[0].id == it.id \
                    and sum(1 for x in ast.walk(fn) if isinstance(x, ast.Name) and x.id == it.id) == 2:
                drop, it = out[-1], out[-1].value
            if isinstance(it, ast.Call) and ast.unparse(it.func).split(".")[-1] == "takewhile" and len(it.args) == 2 and not it.keywords:
                pred, src_ = it.args
                v = g.target.id
                if isinstance(pred, ast.Lambda) and len(pred.args.args) == 1 and not pred.args.defaults:
                    test = _rename([ast.Expr(value=pred.body)], pred.args.args[0].arg, ast.Name(id=v, ctx=ast.Load()))[0].value
                else:
                    test = ast.Call(func=pred, args=[ast.Name(id=v, ctx=ast.Load())], keywords=[])
                tgt_load = copy.deepcopy(s.targets[0])
                for x in ast.walk(tgt_load):
                    if hasattr(x, "ctx"):
                        x.ctx = ast.Load()
                init = ast.copy_location(ast.Assign(targets=[s.targets[0]], value=ast.List(elts=[], ctx=ast.Load())), s)
                stop = ast.If(test=ast.UnaryOp(op=ast.Not(), operand=test), body=[ast.Break()], orelse=[])
                app = ast.Expr(value=ast.Call(func=ast.Attribute(value=tgt_load, attr="append", ctx=ast.Load()), args=[s.value.elt], keywords=[]))
                loop = ast.For(target=ast.Name(id=v, ctx=ast.Store()), iter=src_, body=[stop, app], orelse=[])
                if drop is not None:
                    out.pop()
                for n_ in (init, loop):
                    ast.copy_location(n_, s)
                    ast.fix_missing_locations(n_)
                out.extend([init, loop])
                continue
        out.append(s)
    return out


def _zip_elements(fn: ast.AST) -> None:
    """
    `for i, (a, b) in enumerate(zip(A, B)): body`  (also `for i, a in enumerate(A)`): inside the body `a` IS `A[i]` as long as the
    body neither rebinds a / A nor calls a method on A itself; the loads of a are rewritten to A[i] so that rules see which
    container an element belongs to.  The loop header is kept (same iteration domain).
    """
    for lp in ast.walk(fn):
        if not (isinstance(lp, ast.For) and isinstance(lp.iter, ast.Call) and isinstance(lp.iter.func, ast.Name) and lp.iter.func.id == "enumerate"
                and len(lp.iter.args) == 1 and not lp.iter.keywords and isinstance(lp.target, ast.Tuple) and len(lp.target.elts) == 2
                and isinstance(lp.target.elts[0], ast.Name)):
            continue
        idx = lp.target.elts[0].id
        inner, tgt = lp.iter.args[0], lp.target.elts[1]
        if isinstance(inner, ast.Call) and isinstance(inner.func, ast.Name) and inner.func.id == "zip" and not inner.keywords \
                and isinstance(tgt, ast.Tuple) and len(tgt.elts) == len(inner.args):
            pairs = list(zip(tgt.elts, inner.args))
        elif isinstance(tgt, ast.Name) and isinstance(inner, (ast.Name, ast.Attribute)):
            continue          # plain enumerate(A): the element name is the common idiom and is left alone
        else:
            continue
        if not all(isinstance(t, ast.Name) and isinstance(a, ast.Name) for t, a in pairs):
            continue
        stored = {x.id for b in lp.body for x in ast.walk(b) if isinstance(x, ast.Name) and isinstance(x.ctx, (ast.Store, ast.Del))}
        called = {x.func.value.id for b in lp.body for x in ast.walk(b) if isinstance(x, ast.Call) and isinstance(x.func, ast.Attribute)
                  and isinstance(x.func.value, ast.Name)}
        if idx in stored or any(t.id in stored or a.id in stored or a.id in called for t, a in pairs):
            continue
        env = {t.id: ast.Subscript(value=ast.Name(id=a.id, ctx=ast.Load()), slice=ast.Name(id=idx, ctx=ast.Load()), ctx=ast.Load()) for t, a in pairs}
        lp.body = [_Subst(env).visit(b) for b in lp.body]
        ast.fix_missing_locations(lp)


def _ifexp_statements(stmts: List[ast.stmt]) -> List[ast.stmt]:
    """`(A if c else B).m(args)` as a statement  ->  `if c: A.m(args) else: B.m(args)`  (the arguments are evaluated after the test either way)"""
    out: List[ast.stmt] = []
    for s in stmts:
        for fld in ("body", "orelse", "finalbody"):
            b = getattr(s, fld, None)
            if isinstance(b, list) and b and isinstance(b[0], ast.stmt) and not isinstance(s, (ast.FunctionDef, ast.ClassDef)):
                setattr(s, fld, _ifexp_statements(b))
        if isinstance(s, ast.Try):
            for h in s.handlers:
                h.body = _ifexp_statements(h.body)
        if isinstance(s, ast.Expr) and isinstance(s.value, ast.Call) and isinstance(s.value.func, ast.Attribute) \
                and isinstance(s.value.func.value, ast.IfExp):
            ie = s.value.func.value

            def branch(recv: ast.AST) -> ast.stmt:
                c = copy.deepcopy(s.value)
                c.func.value = recv
                return ast.copy_location(ast.Expr(value=c), s)
            out.append(ast.copy_location(ast.If(test=ie.test, body=[branch(ie.body)], orelse=[branch(ie.orelse)]), s))
            continue
        # `for v in (T1 if c else T2): BODY`  ->  `if c: for v in T1: BODY  else: for v in T2: BODY`  (c is evaluated once, before the loop)
        if isinstance(s, ast.For) and isinstance(s.iter, ast.IfExp) and not s.orelse and _is_pure(s.iter.test):
            def loop(it: ast.AST) -> ast.stmt:
                return ast.copy_location(ast.For(target=copy.deepcopy(s.target), iter=it, body=copy.deepcopy(s.body), orelse=[]), s)
            new_if = ast.copy_location(ast.If(test=s.iter.test, body=[loop(s.iter.body)], orelse=[loop(s.iter.orelse)]), s)
            ast.fix_missing_locations(new_if)
            out.append(new_if)
            continue
        out.append(s)
    return out


class _ExprNorm(ast.NodeTransformer):
    """
    expression idioms:  map(f, X) -> (f(x) for x in X);  a call of a module-level private one-expression function (`def _h(a): return
    <expr>`) is replaced by that expression (arguments must be as many as parameters, positional, and a parameter that occurs more
    than once needs a simple argument);  (lambda a: e)(x) is reduced the same way.
    """

    def __init__(self, helpers: Dict[str, ast.FunctionDef], partials: Optional[Dict[str, ast.Call]] = None) -> None:
        self.helpers = helpers
        self.n = 0
        self.partials = partials or {}       # local name -> the partial(f, args..) call it is bound to (single assignment, simple args)

    @staticmethod
    def _simple(e: ast.AST) -> bool:
        return isinstance(e, (ast.Name, ast.Constant)) or (isinstance(e, (ast.Attribute, ast.Subscript)) and _ExprNorm._simple(e.value)
                                                            and (not isinstance(e, ast.Subscript) or _ExprNorm._simple(e.slice)))

    def _beta(self, params: List[str], body: ast.AST, args: List[ast.AST]) -> Optional[ast.AST]:
        if len(params) != len(args):
            return None
        uses = {p: sum(1 for x in ast.walk(body) if isinstance(x, ast.Name) and x.id == p) for p in params}
        if any(uses[p] > 1 and not self._simple(a) for p, a in zip(params, args)):
            return None
        if any(isinstance(x, (ast.Lambda, ast.ListComp, ast.GeneratorExp, ast.SetComp, ast.DictComp, ast.NamedExpr)) for x in ast.walk(body)):
            return None            # inner scopes could capture / shadow: keep the call
        env = dict(zip(params, args))

        class Sub(ast.NodeTransformer):
            def visit_Name(self, node: ast.Name):
                if isinstance(node.ctx, ast.Load) and node.id in env:
                    return copy.deepcopy(env[node.id])
                return node
        return Sub().visit(copy.deepcopy(body))

    def _flatten(self, node):
        """(e(l) for l in (g for v in IT))  ->  (e(g) for v in IT)   for a simple g"""
        g0 = node.generators[0]
        if isinstance(g0.iter, (ast.GeneratorExp, ast.ListComp)) and len(g0.iter.generators) == 1 and isinstance(g0.target, ast.Name) \
                and (self._simple(g0.iter.elt) or _is_pure(g0.iter.elt)):
            inner_ = g0.iter
            sub = _Subst({g0.target.id: inner_.elt})
            new_first = ast.comprehension(target=inner_.generators[0].target, iter=inner_.generators[0].iter,
                                          ifs=list(inner_.generators[0].ifs) + [sub.visit(copy.deepcopy(c)) for c in g0.ifs], is_async=0)
            rest = []
            for g in node.generators[1:]:
                rest.append(ast.comprehension(target=g.target, iter=sub.visit(copy.deepcopy(g.iter)), ifs=[sub.visit(copy.deepcopy(c)) for c in g.ifs], is_async=0))
            node.generators = [new_first] + rest
            for fld in ("elt", "key", "value"):
                if hasattr(node, fld):
                    setattr(node, fld, sub.visit(copy.deepcopy(getattr(node, fld))))
            ast.fix_missing_locations(node)
        return node

    def visit_GeneratorExp(self, node: ast.GeneratorExp):
        self.generic_visit(node)
        return self._flatten(node)

    def visit_ListComp(self, node: ast.ListComp):
        self.generic_visit(node)
        return self._flatten(node)

    def visit_DictComp(self, node: ast.DictComp):
        self.generic_visit(node)
        # {k: f(k) for k in ("a", "b")}  ->  {"a": f("a"), "b": f("b")}
        if len(node.generators) == 1 and not node.generators[0].ifs and isinstance(node.generators[0].target, ast.Name) \
                and isinstance(node.generators[0].iter, (ast.Tuple, ast.List)) and 1 <= len(node.generators[0].iter.elts) <= 6 \
                and all(isinstance(x, ast.Constant) for x in node.generators[0].iter.elts):
            v = node.generators[0].target.id
            keys, vals = [], []
            for c in node.generators[0].iter.elts:
                keys.append(_Subst({v: c}).visit(copy.deepcopy(node.key)))
                vals.append(_Subst({v: c}).visit(copy.deepcopy(node.value)))
            if all(isinstance(k, ast.Constant) for k in keys):
                return ast.fix_missing_locations(ast.copy_location(ast.Dict(keys=keys, values=vals), node))
        return node

    def visit_Call(self, node: ast.Call):
        self.generic_visit(node)
        if node.keywords or any(isinstance(a, ast.Starred) for a in node.args):
            return node
        fname = ast.unparse(node.func)
        short = fname.split(".")[-1]
        two = ".".join(fname.split(".")[-2:])

        def fresh(tag: str) -> str:
            self.n += 1
            return f"item@{tag}#{self.n}"

        def gen(elt: ast.AST, clauses) -> ast.AST:
            g = ast.GeneratorExp(elt=elt, generators=[ast.comprehension(target=ast.Name(id=v_, ctx=ast.Store()), iter=it_, ifs=ifs_, is_async=0)
                                                      for v_, it_, ifs_ in clauses])
            return ast.fix_missing_locations(ast.copy_location(g, node))
        # itertools / operator idioms -> comprehension forms
        if two == "chain.from_iterable" and len(node.args) == 1 and isinstance(node.args[0], ast.GeneratorExp):
            # chain.from_iterable(E(m) for m in X)  ->  (b for m in X for b in E(m))
            inner_ = node.args[0]
            b = fresh("chain")
            g = ast.GeneratorExp(elt=ast.Name(id=b, ctx=ast.Load()), generators=list(inner_.generators) + [
                ast.comprehension(target=ast.Name(id=b, ctx=ast.Store()), iter=inner_.elt, ifs=[], is_async=0)])
            return ast.fix_missing_locations(ast.copy_location(g, node))
        if two == "chain.from_iterable" and len(node.args) == 1:
            a, b = fresh("chain"), fresh("chain")
            return gen(ast.Name(id=b, ctx=ast.Load()), [(a, node.args[0], []), (b, ast.Name(id=a, ctx=ast.Load()), [])])
        if short == "zip" and len(node.args) == 2 and isinstance(node.args[0], ast.Call) and ast.unparse(node.args[0].func).split(".")[-1] == "repeat" \
                and len(node.args[0].args) == 1 and self._simple(node.args[0].args[0]):
            b = fresh("zip")
            return gen(ast.Tuple(elts=[node.args[0].args[0], ast.Name(id=b, ctx=ast.Load())], ctx=ast.Load()), [(b, node.args[1], [])])
        if short in ("filter", "filterfalse") and len(node.args) == 2 and (fname in ("filter", "filterfalse") or fname.startswith("itertools.")):
            b = fresh("filter")
            pred = node.args[0]
            if isinstance(pred, ast.Constant) and pred.value is None:
                test: ast.AST = ast.Name(id=b, ctx=ast.Load())
            else:
                test = self.visit(ast.copy_location(ast.Call(func=pred, args=[ast.Name(id=b, ctx=ast.Load())], keywords=[]), node))
            if short == "filterfalse":
                test = ast.UnaryOp(op=ast.Not(), operand=test)
            return gen(ast.Name(id=b, ctx=ast.Load()), [(b, node.args[1], [test])])
        if short == "product" and fname in ("product", "itertools.product") and 2 <= len(node.args) <= 3:
            names_ = [fresh("product") for _ in node.args]
            return gen(ast.Tuple(elts=[ast.Name(id=x, ctx=ast.Load()) for x in names_], ctx=ast.Load()), [(x, a_, []) for x, a_ in zip(names_, node.args)])
        if short == "attrgetter" and len(node.args) == 1 and isinstance(node.args[0], ast.Constant) and isinstance(node.args[0].value, str) \
                and all(part.isidentifier() for part in node.args[0].value.split(".")):
            body_: ast.AST = ast.Name(id="obj@attrgetter", ctx=ast.Load())
            for part in node.args[0].value.split("."):
                body_ = ast.Attribute(value=body_, attr=part, ctx=ast.Load())
            lam = ast.Lambda(args=ast.arguments(posonlyargs=[], args=[ast.arg(arg="obj@attrgetter")], kwonlyargs=[], kw_defaults=[], defaults=[]), body=body_)
            return ast.fix_missing_locations(ast.copy_location(lam, node))
        if isinstance(node.func, ast.Call) and ast.unparse(node.func.func).split(".")[-1] == "partial" and node.func.args \
                and not any(isinstance(a_, ast.Starred) for a_ in node.func.args):
            # partial(f, a, k=v)(b)  ->  f(a, b, k=v)
            inner_ = node.func
            return ast.copy_location(ast.Call(func=inner_.args[0], args=list(inner_.args[1:]) + list(node.args),
                                              keywords=list(inner_.keywords) + list(node.keywords)), node)
        if isinstance(node.func, ast.Name) and node.func.id in self.partials:
            inner_ = self.partials[node.func.id]
            return ast.copy_location(ast.Call(func=copy.deepcopy(inner_.args[0]), args=[copy.deepcopy(a_) for a_ in inner_.args[1:]] + list(node.args),
                                              keywords=[copy.deepcopy(k_) for k_ in inner_.keywords] + list(node.keywords)), node)
        if isinstance(node.func, ast.Attribute) and node.func.attr == "__contains__" and len(node.args) == 1:
            return ast.copy_location(ast.Compare(left=node.args[0], ops=[ast.In()], comparators=[node.func.value]), node)
        # islice(accumulate(X, initial=0), 1, None)  is  accumulate(X)
        if short == "islice" and len(node.args) == 3 and isinstance(node.args[1], ast.Constant) and node.args[1].value == 1 \
                and isinstance(node.args[2], ast.Constant) and node.args[2].value is None and isinstance(node.args[0], ast.Call) \
                and ast.unparse(node.args[0].func).split(".")[-1] == "accumulate" and len(node.args[0].args) == 1 \
                and [k.arg for k in node.args[0].keywords] == ["initial"] and isinstance(node.args[0].keywords[0].value, ast.Constant) \
                and node.args[0].keywords[0].value.value == 0:
            return ast.copy_location(ast.Call(func=node.args[0].func, args=node.args[0].args, keywords=[]), node)
        # reduce(add, X, 0.0) / reduce(add, X)  is the sum of X (the order of the float additions is not part of the normal form)
        if short == "reduce" and 2 <= len(node.args) <= 3 and ast.unparse(node.args[0]) in ("add", "operator.add"):
            total = ast.copy_location(ast.Call(func=ast.Name(id="sum", ctx=ast.Load()), args=[node.args[1]], keywords=[]), node)
            if len(node.args) == 3 and not (isinstance(node.args[2], ast.Constant) and node.args[2].value == 0):
                return ast.copy_location(ast.BinOp(left=node.args[2], op=ast.Add(), right=total), node)
            return total
        # repeat(x, n)  ->  (x for _ in range(n))
        if short == "repeat" and fname in ("repeat", "itertools.repeat") and len(node.args) == 2 and self._simple(node.args[0]):
            b = fresh("repeat")
            rng = ast.Call(func=ast.Name(id="range", ctx=ast.Load()), args=[node.args[1]], keywords=[])
            return gen(node.args[0], [(b, rng, [])])
        if fname in ("operator.neg", "neg") and len(node.args) == 1:
            return ast.copy_location(ast.UnaryOp(op=ast.USub(), operand=node.args[0]), node)
        if fname == "vars" and len(node.args) == 1:
            return ast.copy_location(ast.Attribute(value=node.args[0], attr="__dict__", ctx=ast.Load()), node)
        if isinstance(node.func, ast.Name) and node.func.id == "map" and len(node.args) == 2:
            self.n += 1
            v = f"item@map#{self.n}"
            elt = self.visit(ast.copy_location(ast.Call(func=node.args[0], args=[ast.Name(id=v, ctx=ast.Load())], keywords=[]), node))
            gen = ast.GeneratorExp(elt=elt, generators=[ast.comprehension(target=ast.Name(id=v, ctx=ast.Store()), iter=node.args[1], ifs=[], is_async=0)])
            return ast.copy_location(gen, node)
        if isinstance(node.func, ast.Lambda) and not node.func.args.defaults and not node.func.args.vararg and not node.func.args.kwarg:
            r = self._beta([a.arg for a in node.func.args.args], node.func.body, node.args)
            if r is not None:
                return ast.copy_location(r, node)
        if isinstance(node.func, ast.Name) and node.func.id in self.helpers:
            h = self.helpers[node.func.id]
            body = [st for st in h.body if not (isinstance(st, ast.Expr) and isinstance(st.value, ast.Constant))]
            r = self._beta([a.arg for a in h.args.args], body[0].value, node.args)
            if r is not None:
                return ast.copy_location(r, node)
        return node


def _module_expression_helpers(tree: ast.Module) -> Dict[str, ast.FunctionDef]:
    out: Dict[str, ast.FunctionDef] = {}
    for st in tree.body:
        if isinstance(st, ast.FunctionDef) and not st.name.startswith("__") and not st.decorator_list \
                and not st.args.defaults and not st.args.vararg and not st.args.kwarg and not st.args.kwonlyargs:
            body = [x for x in st.body if not (isinstance(x, ast.Expr) and isinstance(x.value, ast.Constant))]
            if len(body) == 1 and isinstance(body[0], ast.Return) and body[0].value is not None \
                    and not any(isinstance(x, ast.Name) and x.id == st.name for x in ast.walk(body[0].value)) \
                    and not any(isinstance(x, (ast.Yield, ast.YieldFrom, ast.Await)) for x in ast.walk(body[0].value)):
                out[st.name] = st
    # a name that is rebound at module level is not a stable helper
    for st in tree.body:
        for t in getattr(st, "targets", []) if isinstance(st, ast.Assign) else []:
            for x in ast.walk(t):
                if isinstance(x, ast.Name):
                    out.pop(x.id, None)
    return out


def normalise_function(fn: ast.FunctionDef, prog: Optional[Program] = None, module_helpers: Optional[Dict[str, ast.FunctionDef]] = None) -> None:
    """in-place normal form of one function (no helper inlining): see the module docstring, steps 2-5"""
    shadow = {a.arg for a in fn.args.args + fn.args.kwonlyargs} | {x.id for x in ast.walk(fn) if isinstance(x, ast.Name) and isinstance(x.ctx, ast.Store)}
    helpers = {k: v for k, v in (module_helpers or {}).items() if k not in shadow and v is not fn}
    stores_ = _stores(fn)
    partials = {st.targets[0].id: st.value for st in ast.walk(fn) if isinstance(st, ast.Assign) and len(st.targets) == 1
                and isinstance(st.targets[0], ast.Name) and stores_.get(st.targets[0].id) == 1 and isinstance(st.value, ast.Call)
                and ast.unparse(st.value.func).split(".")[-1] == "partial" and st.value.args
                and all(_ExprNorm._simple(a_) for a_ in st.value.args) and all(_ExprNorm._simple(k_.value) for k_ in st.value.keywords)}
    en = _ExprNorm(helpers, partials)
    fn.body = [en.visit(st) for st in fn.body]
    if partials:
        # a partial-application local whose every call was rewritten is gone
        loaded = {x.id for x in ast.walk(fn) if isinstance(x, ast.Name) and isinstance(x.ctx, ast.Load)}
        dead = {k for k in partials if k not in loaded}

        def prune(stmts: List[ast.stmt]) -> List[ast.stmt]:
            keep = []
            for st in stmts:
                if isinstance(st, ast.Assign) and len(st.targets) == 1 and isinstance(st.targets[0], ast.Name) and st.targets[0].id in dead:
                    continue
                for fld in ("body", "orelse", "finalbody"):
                    b = getattr(st, fld, None)
                    if isinstance(b, list) and b and isinstance(b[0], ast.stmt) and not isinstance(st, (ast.FunctionDef, ast.ClassDef)):
                        setattr(st, fld, prune(b) or [ast.copy_location(ast.Pass(), st)])
                keep.append(st)
            return keep
        if dead:
            fn.body = prune(fn.body) or fn.body
    fn.body = _hoist_walrus(fn.body)
    fn.body = _split_chained_assigns(fn.body)
    fn.body = _get_or_create(fn.body)
    fn.body = _for_else_any(fn.body)
    fn.body = _ifexp_statements(fn.body)
    _zip_elements(fn)
    fn.body = _takewhile_loops(fn.body, fn)
    fn.body = _fix_ifs(fn.body)
    fn.body = _genexp_loops(fn.body, fn)
    fn.body = _split_tuple_assigns(fn.body)
    fn.body = _worklists(fn.body)
    fn.body = _small_loops(fn.body, fn)
    # generators bound to locals whose loops only appeared through the unrolling above
    fn.__dict__.pop("_jfsa_local_generators", None)
    if _local_generators(fn):
        gens_ = set(_local_generators(fn))
        fn.body = _genexp_loops(fn.body, fn)
        fn.body = _split_tuple_assigns(fn.body)
        still = {x.id for x in ast.walk(fn) if isinstance(x, ast.Name) and isinstance(x.ctx, ast.Load)}

        def drop_defs(stmts: List[ast.stmt]) -> List[ast.stmt]:
            keep = []
            for st in stmts:
                if isinstance(st, ast.Assign) and len(st.targets) == 1 and isinstance(st.targets[0], ast.Name) and st.targets[0].id in gens_ \
                        and st.targets[0].id not in still and isinstance(st.value, (ast.GeneratorExp, ast.ListComp)):
                    continue
                for fld in ("body", "orelse", "finalbody"):
                    b = getattr(st, fld, None)
                    if isinstance(b, list) and b and isinstance(b[0], ast.stmt) and not isinstance(st, (ast.FunctionDef, ast.ClassDef)):
                        setattr(st, fld, drop_defs(b) or [ast.copy_location(ast.Pass(), st)])
                keep.append(st)
            return keep
        fn.body = drop_defs(fn.body) or fn.body
    fn.__dict__.pop("_jfsa_local_generators", None)
    # nested functions that were inlined everywhere are gone
    loaded = {x.id for x in ast.walk(fn) if isinstance(x, ast.Name) and isinstance(x.ctx, ast.Load)}
    fn.body = [st for st in fn.body if not (isinstance(st, ast.FunctionDef) and st.name not in loaded)] or fn.body
    fn.body = _append_loops(fn.body)
    counts = _stores(fn)
    for g in ast.walk(fn):
        if isinstance(g, (ast.Global, ast.Nonlocal)):
            for n in g.names:
                counts[n] = counts.get(n, 0) + 2   # never a mergeable local
    loads: Dict[str, int] = {}
    for x in ast.walk(fn):
        if isinstance(x, ast.Name) and isinstance(x.ctx, ast.Load):
            loads[x.id] = loads.get(x.id, 0) + 1
    fn.body = _merge_adjacent(fn.body, counts, loads, _return_pairs(fn))
    # `x = x` left over from unpacking a comprehension element into names it already had
    def drop_self_assign(stmts: List[ast.stmt]) -> List[ast.stmt]:
        keep = []
        for st in stmts:
            if isinstance(st, ast.Assign) and len(st.targets) == 1 and isinstance(st.targets[0], ast.Name) and isinstance(st.value, ast.Name) \
                    and st.targets[0].id == st.value.id:
                continue
            for fld in ("body", "orelse", "finalbody"):
                b = getattr(st, fld, None)
                if isinstance(b, list) and b and isinstance(b[0], ast.stmt) and not isinstance(st, (ast.FunctionDef, ast.ClassDef)):
                    setattr(st, fld, drop_self_assign(b) or [ast.copy_location(ast.Pass(), st)])
            keep.append(st)
        return keep
    fn.body = drop_self_assign(fn.body) or fn.body
    _propagate(fn, prog)
    loads_total: Dict[str, int] = {}
    for x_ in ast.walk(fn):
        if isinstance(x_, ast.Name) and isinstance(x_.ctx, ast.Load):
            loads_total[x_.id] = loads_total.get(x_.id, 0) + 1
    fn.body = _attribute_is_the_name(fn.body, _stores(fn), loads_total)
    fn.body = [_FoldTupleIndex().visit(st) for st in fn.body]
    # a comprehension over a comprehension that only appeared through the propagation of a local
    if any(isinstance(x, (ast.ListComp, ast.GeneratorExp)) and isinstance(x.generators[0].iter, (ast.ListComp, ast.GeneratorExp))
           for x in ast.walk(fn)):
        class _FlattenOnly(ast.NodeTransformer):
            def visit_ListComp(self, node):
                self.generic_visit(node)
                return _ExprNorm({}, {})._flatten(node)
            visit_GeneratorExp = visit_ListComp
        fn.body = [_FlattenOnly().visit(st) for st in fn.body]
    fn.body = _fix_ifs(fn.body)


def _split_chained_assigns(stmts: List[ast.stmt]) -> List[ast.stmt]:
    """`local = self.attr = V` (either order) -> `self.attr = V; local = self.attr` (the same object under both names)"""
    out: List[ast.stmt] = []
    for st in stmts:
        for fld in ("body", "orelse", "finalbody"):
            b = getattr(st, fld, None)
            if isinstance(b, list) and b and isinstance(b[0], ast.stmt) and not isinstance(st, (ast.FunctionDef, ast.ClassDef)):
                setattr(st, fld, _split_chained_assigns(b))
        if isinstance(st, ast.Try):
            for h in st.handlers:
                h.body = _split_chained_assigns(h.body)
        if isinstance(st, ast.Assign) and len(st.targets) == 2:
            names = [t for t in st.targets if isinstance(t, ast.Name)]
            attrs = [t for t in st.targets if isinstance(t, ast.Attribute) and isinstance(t.value, ast.Name) and t.value.id == "self"]
            if len(names) == 1 and len(attrs) == 1:
                first = ast.copy_location(ast.Assign(targets=[attrs[0]], value=st.value), st)
                load = ast.Attribute(value=ast.Name(id="self", ctx=ast.Load()), attr=attrs[0].attr, ctx=ast.Load())
                second = ast.copy_location(ast.Assign(targets=[names[0]], value=load), st)
                ast.fix_missing_locations(first)
                ast.fix_missing_locations(second)
                out.extend([first, second])
                continue
        out.append(st)
    return out


def _attribute_is_the_name(stmts: List[ast.stmt], counts: Dict[str, int], loads_total: Dict[str, int]) -> List[ast.stmt]:
    """
    `x = CALL` immediately followed by `self.a = x` (x assigned nowhere else), with every later use of x in the statements that
    follow in the same block and no other store to `self.a` there: the attribute is the name of the value -- rewritten to
    `self.a = CALL` and `self.a` for x.
    """
    out = list(stmts)
    i = 0
    while i + 1 < len(out):
        a, b = out[i], out[i + 1]
        if isinstance(a, ast.Assign) and len(a.targets) == 1 and isinstance(a.targets[0], ast.Name) and isinstance(a.value, ast.Call) \
                and counts.get(a.targets[0].id, 0) == 1 \
                and isinstance(b, ast.Assign) and len(b.targets) == 1 and isinstance(b.targets[0], ast.Attribute) \
                and isinstance(b.targets[0].value, ast.Name) and b.targets[0].value.id == "self" \
                and isinstance(b.value, ast.Name) and b.value.id == a.targets[0].id:
            x, attr = a.targets[0].id, b.targets[0].attr
            rest = out[i + 2:]
            restored = any(isinstance(n, ast.Attribute) and n.attr == attr and isinstance(n.ctx, (ast.Store, ast.Del))
                           for st in rest for n in ast.walk(st))
            calls_self = any(isinstance(n, ast.Call) and isinstance(n.func, ast.Attribute) and isinstance(n.func.value, ast.Name)
                             and n.func.value.id == "self" and not n.func.attr.startswith("_is_") for st in rest for n in ast.walk(st))
            loads_rest = sum(1 for st in rest for n in ast.walk(st) if isinstance(n, ast.Name) and n.id == x and isinstance(n.ctx, ast.Load))
            if not restored and not calls_self and loads_rest + 1 == loads_total.get(x, 0):
                new_store = ast.copy_location(ast.Assign(targets=[b.targets[0]], value=a.value), a)
                load = ast.Attribute(value=ast.Name(id="self", ctx=ast.Load()), attr=attr, ctx=ast.Load())
                sub = _Subst({x: load})
                out = out[:i] + [new_store] + [sub.visit(st) for st in rest]
                for st in out[i:]:
                    ast.fix_missing_locations(st)
                continue
        i += 1
    for st in out:
        for fld in ("body", "orelse", "finalbody"):
            blk = getattr(st, fld, None)
            if isinstance(blk, list) and blk and isinstance(blk[0], ast.stmt) and not isinstance(st, (ast.FunctionDef, ast.ClassDef)):
                setattr(st, fld, _attribute_is_the_name(blk, counts, loads_total))
        if isinstance(st, ast.Try):
            for h in st.handlers:
                h.body = _attribute_is_the_name(h.body, counts, loads_total)
    return out


def _get_or_create(stmts: List[ast.stmt]) -> List[ast.stmt]:
    """
    `x = D.get(k)` followed by `if x is None: x = D[k] = V` (also `D[k] = V; x = D[k]`, `x = V; D[k] = x`) with V a call (never
    None) is the look-up-or-create idiom: rewritten to `if k not in D: D[k] = V` followed by `x = D[k]`.
    """
    out: List[ast.stmt] = []
    i = 0
    while i < len(stmts):
        st = stmts[i]
        for fld in ("body", "orelse", "finalbody"):
            b = getattr(st, fld, None)
            if isinstance(b, list) and b and isinstance(b[0], ast.stmt) and not isinstance(st, (ast.FunctionDef, ast.ClassDef)):
                setattr(st, fld, _get_or_create(b))
        if isinstance(st, ast.Try):
            for h in st.handlers:
                h.body = _get_or_create(h.body)
        nxt = stmts[i + 1] if i + 1 < len(stmts) else None
        done = False
        if isinstance(st, ast.Assign) and len(st.targets) == 1 and isinstance(st.targets[0], ast.Name) and isinstance(st.value, ast.Call) \
                and isinstance(st.value.func, ast.Attribute) and st.value.func.attr == "get" and len(st.value.args) == 1 and not st.value.keywords \
                and isinstance(nxt, ast.If) and not nxt.orelse and isinstance(nxt.test, ast.Compare) and len(nxt.test.ops) == 1 \
                and isinstance(nxt.test.ops[0], ast.Is) and isinstance(nxt.test.left, ast.Name) and nxt.test.left.id == st.targets[0].id \
                and isinstance(nxt.test.comparators[0], ast.Constant) and nxt.test.comparators[0].value is None \
                and _is_pure(st.value.func.value) and _is_pure(st.value.args[0]):
            x, d, k = st.targets[0].id, st.value.func.value, st.value.args[0]
            slot = ast.unparse(ast.Subscript(value=d, slice=k, ctx=ast.Load()))
            value = None
            b = nxt.body
            if len(b) == 1 and isinstance(b[0], ast.Assign) and len(b[0].targets) == 2 and isinstance(b[0].value, ast.Call) \
                    and sorted(ast.unparse(t) for t in b[0].targets) == sorted([x, slot]):
                value = b[0].value
            elif len(b) == 2 and all(isinstance(q, ast.Assign) and len(q.targets) == 1 for q in b):
                t0, t1 = ast.unparse(b[0].targets[0]), ast.unparse(b[1].targets[0])
                if t0 == slot and t1 == x and isinstance(b[0].value, ast.Call) and ast.unparse(b[1].value) == slot:
                    value = b[0].value
                elif t0 == x and t1 == slot and isinstance(b[0].value, ast.Call) and ast.unparse(b[1].value) == x:
                    value = b[0].value
            if value is not None:
                test = ast.Compare(left=copy.deepcopy(k), ops=[ast.NotIn()], comparators=[copy.deepcopy(d)])
                store = ast.Assign(targets=[ast.Subscript(value=copy.deepcopy(d), slice=copy.deepcopy(k), ctx=ast.Store())], value=value)
                guard = ast.copy_location(ast.If(test=test, body=[ast.copy_location(store, nxt.body[0])], orelse=[]), nxt)
                load = ast.copy_location(ast.Assign(targets=[ast.Name(id=x, ctx=ast.Store())],
                                                    value=ast.Subscript(value=copy.deepcopy(d), slice=copy.deepcopy(k), ctx=ast.Load())), st)
                for n_ in (guard, load):
                    ast.fix_missing_locations(n_)
                out.extend([guard, load])
                i += 2
                done = True
        if not done:
            out.append(st)
            i += 1
    return out


def _resolve_module_constants(tree: ast.Module) -> None:
    """
    A module-level name bound once to a literal constant (`_MINUS_INFINITY = -float("inf")`, `_NULL = ffi.NULL`, a number,
    `attrgetter("time")`) and never rebound stands for that constant inside the functions of the module.
    """
    def constant(v: ast.AST) -> bool:
        if isinstance(v, ast.Constant) and isinstance(v.value, (int, float)) and not isinstance(v.value, bool):
            return True
        if isinstance(v, ast.UnaryOp) and isinstance(v.op, (ast.USub, ast.UAdd)):
            return constant(v.operand)
        if isinstance(v, ast.Call) and isinstance(v.func, ast.Name) and v.func.id == "float" and len(v.args) == 1 \
                and isinstance(v.args[0], ast.Constant) and isinstance(v.args[0].value, str):
            return True
        if isinstance(v, ast.Attribute) and isinstance(v.value, ast.Name) and (v.value.id, v.attr) in (("ffi", "NULL"), ("math", "inf")):
            return True
        if isinstance(v, ast.Call) and ast.unparse(v.func).split(".")[-1] == "attrgetter" and len(v.args) == 1 \
                and isinstance(v.args[0], ast.Constant) and not v.keywords:
            return True
        return False
    counts: Dict[str, int] = {}
    values: Dict[str, ast.AST] = {}
    for st in ast.walk(tree):
        if isinstance(st, (ast.Assign, ast.AugAssign, ast.AnnAssign, ast.For, ast.NamedExpr, ast.With, ast.Import, ast.ImportFrom, ast.Global)):
            pass
    for st in tree.body:
        for t in ([x for tt in st.targets for x in ast.walk(tt)] if isinstance(st, ast.Assign) else
                  [st.target] if isinstance(st, (ast.AugAssign, ast.AnnAssign)) else []):
            if isinstance(t, ast.Name):
                counts[t.id] = counts.get(t.id, 0) + 1
        if isinstance(st, ast.Assign) and len(st.targets) == 1 and isinstance(st.targets[0], ast.Name) and constant(st.value) \
                and st.targets[0].id.startswith("_"):
            values[st.targets[0].id] = st.value
    for g in ast.walk(tree):
        if isinstance(g, ast.Global):
            for n in g.names:
                counts[n] = counts.get(n, 0) + 2
    values = {k: v for k, v in values.items() if counts.get(k) == 1}
    if not values:
        return

    class Rewrite(ast.NodeTransformer):
        def __init__(self, shadow: Set[str]) -> None:
            self.shadow = shadow

        def visit_Name(self, node: ast.Name):
            if isinstance(node.ctx, ast.Load) and node.id in values and node.id not in self.shadow:
                return ast.copy_location(copy.deepcopy(values[node.id]), node)
            return node
    for fn in [n for n in ast.walk(tree) if isinstance(n, (ast.FunctionDef, ast.AsyncFunctionDef))]:
        shadow = {a.arg for a in fn.args.args + fn.args.kwonlyargs} | \
            {x.id for x in ast.walk(fn) if isinstance(x, ast.Name) and isinstance(x.ctx, ast.Store)}
        fn.body = [Rewrite(shadow).visit(st) for st in fn.body]


def _resolve_delegations(tree: ast.Module) -> None:
    """
    A method (or function) whose whole body is `return f(a, b, ..)` with f a function of the same module and the arguments plain
    names / attributes of its own is the function f under another name: its body is replaced by the body of f with the parameters
    renamed.  (The usual product of "extract a module-level function for testability".)
    """
    funcs = {st.name: st for st in tree.body if isinstance(st, ast.FunctionDef)}
    rebound = {x.id for st in tree.body if isinstance(st, ast.Assign) for t in st.targets for x in ast.walk(t) if isinstance(x, ast.Name)}

    def plain(f: ast.FunctionDef) -> bool:
        if f.name in rebound or f.decorator_list or f.args.vararg or f.args.kwarg or f.args.kwonlyargs or f.args.defaults:
            return False
        inner = [x for b in f.body for x in ast.walk(b)]
        if any(isinstance(x, (ast.Global, ast.Nonlocal, ast.FunctionDef, ast.Lambda, ast.ClassDef, ast.Yield, ast.YieldFrom)) for x in inner):
            return False
        if any(isinstance(x, ast.Name) and x.id == f.name for x in inner):
            return False
        params = {a.arg for a in f.args.args}
        return not any(isinstance(x, ast.Name) and isinstance(x.ctx, (ast.Store, ast.Del)) and x.id in params for x in inner)

    def simple_arg(a: ast.AST) -> bool:
        return isinstance(a, (ast.Name, ast.Constant)) or (isinstance(a, ast.Attribute) and simple_arg(a.value))
    methods = [(None, st) for st in tree.body if isinstance(st, ast.FunctionDef)] + \
        [(c, m) for c in tree.body if isinstance(c, ast.ClassDef) for m in c.body if isinstance(m, ast.FunctionDef)]
    for _ in range(2):
        for owner, m in methods:
            body = [x for x in m.body if not (isinstance(x, ast.Expr) and isinstance(x.value, ast.Constant))]
            if len(body) != 1 or not isinstance(body[0], ast.Return) or not isinstance(body[0].value, ast.Call):
                continue
            call = body[0].value
            if not isinstance(call.func, ast.Name) or call.func.id not in funcs or call.keywords or call.func.id == m.name:
                continue
            f = funcs[call.func.id]
            if not plain(f) or len(call.args) != len(f.args.args) or not all(simple_arg(a) for a in call.args):
                continue
            own = {a.arg for a in m.args.args + m.args.kwonlyargs}
            f_locals = {x.id for b in f.body for x in ast.walk(b) if isinstance(x, ast.Name) and isinstance(x.ctx, ast.Store)}
            if f_locals & own:
                continue
            env = {p.arg: a for p, a in zip(f.args.args, call.args)}
            new_body = [_Subst(env).visit(copy.deepcopy(b)) for b in f.body
                        if not (isinstance(b, ast.Expr) and isinstance(b.value, ast.Constant))]
            doc = [x for x in m.body if isinstance(x, ast.Expr) and isinstance(x.value, ast.Constant)][:1]
            for b in new_body:
                for x in ast.walk(b):
                    if hasattr(x, "lineno"):
                        x.lineno = body[0].lineno
                        x.end_lineno = body[0].lineno
            m.body = doc + new_body


def _inline_module_value_helpers(tree: ast.Module) -> None:
    """
    In a module-level function, `T = _h(a, ..)` with `_h` a private module-level function of the same module that runs a block of
    statements and ends in its only `return <expr>` (checks extracted for testability) is replaced by that block with the
    parameters bound and the locals renamed apart, followed by `T = <expr>`.  Methods get the same through canon().
    """
    funcs = {st.name: st for st in tree.body if isinstance(st, ast.FunctionDef)}
    rebound = {x.id for st in tree.body if isinstance(st, ast.Assign) for t in st.targets for x in ast.walk(t) if isinstance(x, ast.Name)}

    def helper(call: ast.AST, host: ast.FunctionDef):
        if not (isinstance(call, ast.Call) and isinstance(call.func, ast.Name)):
            return None
        h = funcs.get(call.func.id)
        if h is None or h is host or h.name in rebound or not h.name.startswith("_") or h.name.startswith("__"):
            return None
        inner = [x for b in h.body for x in ast.walk(b)]
        if any(isinstance(x, (ast.Global, ast.Nonlocal, ast.FunctionDef, ast.Lambda, ast.ClassDef)) for x in inner):
            return None
        if any(isinstance(x, ast.Name) and x.id == h.name for x in inner):
            return None
        if _helper_kind(h) != "value" or len(body_without_docstring(h)) < 2:
            return None        # one-expression helpers are beta-reduced by the expression normaliser
        return h

    def walk(stmts: List[ast.stmt], host: ast.FunctionDef) -> List[ast.stmt]:
        out: List[ast.stmt] = []
        for st in stmts:
            for fld in ("body", "orelse", "finalbody"):
                b = getattr(st, fld, None)
                if isinstance(b, list) and b and isinstance(b[0], ast.stmt) and not isinstance(st, (ast.FunctionDef, ast.ClassDef)):
                    setattr(st, fld, walk(b, host))
            if isinstance(st, ast.Assign) and len(st.targets) == 1:
                h = helper(st.value, host)
                if h is not None and all(_is_pure(a) for a in st.value.args) and not st.value.keywords:
                    inst = _instantiate(h, st.value, host)
                    if inst and isinstance(inst[-1], ast.Return) and inst[-1].value is not None:
                        last = ast.copy_location(ast.Assign(targets=st.targets, value=inst[-1].value), st)
                        new = inst[:-1] + [last]
                        for n_ in new:
                            ast.fix_missing_locations(n_)
                        out.extend(new)
                        continue
            out.append(st)
        return out
    for host in list(funcs.values()):
        if any(isinstance(x, ast.Call) and isinstance(x.func, ast.Name) and x.func.id in funcs for b in host.body for x in ast.walk(b)):
            host.body = walk(host.body, host)


def _resolve_cffi_aliases(tree: ast.Module) -> None:
    """
    `_lib_f = lib.f` at module level, `_c_f = staticmethod(lib.f)` / `_c_f = lib.f` at class level: calls through the alias
    (`_lib_f(..)`, `self._c_f(..)`, `Cls._c_f(..)`) are rewritten to `lib.f(..)` so that every rule sees the C function itself.
    """
    def origin(v: ast.AST) -> Optional[ast.AST]:
        while isinstance(v, ast.Call) and isinstance(v.func, ast.Name) and v.func.id == "staticmethod" and len(v.args) == 1:
            v = v.args[0]
        if isinstance(v, ast.Attribute) and isinstance(v.value, ast.Name) and v.value.id == "lib":
            return v
        return None

    def aliases_of(body: List[ast.stmt]) -> Dict[str, ast.AST]:
        out: Dict[str, ast.AST] = {}
        counts: Dict[str, int] = {}
        for st in body:
            if isinstance(st, ast.Assign):
                for t in st.targets:
                    if isinstance(t, ast.Name):
                        counts[t.id] = counts.get(t.id, 0) + 1
                        o = origin(st.value)
                        if o is not None and len(st.targets) == 1:
                            out[t.id] = o
        return {k: v for k, v in out.items() if counts.get(k) == 1}

    mod_aliases = aliases_of(tree.body)

    class Rewrite(ast.NodeTransformer):
        def __init__(self, cls_name: Optional[str], cls_aliases: Dict[str, ast.AST], shadow: Set[str]) -> None:
            self.cls_name, self.cls_aliases, self.shadow = cls_name, cls_aliases, shadow

        def visit_Call(self, node: ast.Call):
            self.generic_visit(node)
            f = node.func
            if isinstance(f, ast.Name) and f.id in mod_aliases and f.id not in self.shadow:
                node.func = ast.copy_location(copy.deepcopy(mod_aliases[f.id]), f)
            elif isinstance(f, ast.Attribute) and isinstance(f.value, ast.Name) and f.attr in self.cls_aliases \
                    and f.value.id in ("self", "cls", self.cls_name):
                node.func = ast.copy_location(copy.deepcopy(self.cls_aliases[f.attr]), f)
            return node

    def rewrite_functions(body: List[ast.stmt], cls_name: Optional[str], cls_aliases: Dict[str, ast.AST]) -> None:
        for st in body:
            if isinstance(st, (ast.FunctionDef, ast.AsyncFunctionDef)):
                shadow = {a.arg for a in st.args.args + st.args.kwonlyargs} | \
                    {x.id for x in ast.walk(st) if isinstance(x, ast.Name) and isinstance(x.ctx, ast.Store)}
                Rewrite(cls_name, cls_aliases, shadow).visit(st)
            elif isinstance(st, ast.ClassDef):
                rewrite_functions(st.body, st.name, aliases_of(st.body))
    if mod_aliases or any(isinstance(st, ast.ClassDef) and aliases_of(st.body) for st in tree.body):
        rewrite_functions(tree.body, None, {})


def normal_form_module(tree: ast.Module, prog: Optional[Program] = None) -> None:
    """
    Front-end normal form: every function of a module is rewritten in place when the module is parsed (guard clauses nested, negated
    tests flipped, `x = x + y` -> `x += y`, single-assignment pure locals propagated), so that every rule -- also those that walk raw
    class bodies -- sees one layout for the many ways the same routine can be written.  Line numbers are kept.
    """
    _resolve_cffi_aliases(tree)
    _resolve_module_constants(tree)
    _resolve_delegations(tree)
    _inline_module_value_helpers(tree)
    fns = [n for n in ast.walk(tree) if isinstance(n, (ast.FunctionDef, ast.AsyncFunctionDef))]
    helpers = _module_expression_helpers(tree)
    for fn in reversed(fns):
        normalise_function(fn, prog, helpers)
        fn.__dict__["_jfsa_normal"] = True
    ast.fix_missing_locations(tree)


def flat(stmts: List[ast.stmt]) -> List[ast.stmt]:
    """the guard-clause reading of a canonical block: `if c: <leaves> else: rest` is listed as `if c: <leaves>` followed by rest"""
    out: List[ast.stmt] = []
    for s in stmts:
        if isinstance(s, ast.If) and s.orelse and _terminates(s.body):
            g = ast.copy_location(ast.If(test=s.test, body=s.body, orelse=[]), s)
            out.append(g)
            out.extend(flat(s.orelse))
        elif isinstance(s, ast.If) and s.orelse and _terminates(s.orelse):
            g = ast.copy_location(ast.If(test=ast.copy_location(ast.UnaryOp(op=ast.Not(), operand=s.test), s.test), body=s.orelse, orelse=[]), s)
            out.append(g)
            out.extend(flat(s.body))
        else:
            out.append(s)
    return out


def _inline_test_predicates(prog: Program, cls: ClassInfo, fn: ast.FunctionDef, exclude: Set[str], methods_too=True) -> None:
    """
    `if pred(a, ..): BODY else: ORELSE` where pred is a small decision-tree function of the package (module level or a private
    method) -- only `if`, `return`, call statements and asserts -- is rewritten to the decision tree of pred with every
    `return E` replaced by `if E: BODY else: ORELSE` (`return True` / `return False` by the branch itself).  The control flow is
    exactly that of the call; rules that look for a guarded effect see the guard.
    """
    methods = prog.all_methods(cls) if methods_too else {}

    def tree_only(stmts: List[ast.stmt]) -> bool:
        for st in stmts:
            if isinstance(st, ast.If):
                if not tree_only(st.body) or not tree_only(st.orelse):
                    return False
            elif isinstance(st, ast.Return) or isinstance(st, ast.Assert) or isinstance(st, ast.Pass):
                continue
            elif isinstance(st, ast.Expr) and isinstance(st.value, (ast.Call, ast.Constant)):
                continue
            elif isinstance(st, ast.Assign) and len(st.targets) == 1 and isinstance(st.targets[0], ast.Name):
                # a local that only names the value returned by the next statement
                i = stmts.index(st)
                nxt = stmts[i + 1] if i + 1 < len(stmts) else None
                if not (isinstance(nxt, ast.Return) and nxt.value is not None and
                        sum(1 for x in ast.walk(nxt.value) if isinstance(x, ast.Name) and x.id == st.targets[0].id) == 1):
                    return False
            else:
                return False
        return True

    def resolve(call: ast.AST):
        if not isinstance(call, ast.Call) or call.keywords or any(isinstance(a, ast.Starred) for a in call.args):
            return None
        h = None
        skip = 0
        if isinstance(call.func, ast.Name) and call.func.id != fn.name:
            r = prog.resolve_name(cls.module, call.func.id)
            if isinstance(r, tuple) and len(r) == 3 and r[0] == "func" and isinstance(r[2], ast.FunctionDef):
                h = r[2]
        elif methods_too and isinstance(call.func, ast.Attribute) and isinstance(call.func.value, ast.Name) and call.func.value.id == "self" \
                and call.func.attr.startswith("_") and not call.func.attr.startswith("__") and call.func.attr in methods \
                and call.func.attr not in exclude and call.func.attr != fn.name:
            owner, h = methods[call.func.attr]
            if owner.is_abstract_method(call.func.attr) or any(isinstance(d, ast.Name) and d.id == "staticmethod" for d in h.decorator_list):
                return None
            skip = 1
        if h is None or h.decorator_list and skip == 0 or h.args.vararg or h.args.kwarg or h.args.kwonlyargs or h.args.defaults:
            return None
        body = body_without_docstring(h)
        params = [a.arg for a in h.args.args][skip:]
        if len(params) != len(call.args) or not (1 <= len(body) <= 8) or not tree_only(body) or not all(_is_pure(a) for a in call.args):
            return None
        if not any(isinstance(x, ast.Return) and x.value is not None for b in body for x in ast.walk(b)):
            return None
        stored = [x.id for b in body for x in ast.walk(b) if isinstance(x, ast.Name) and isinstance(x.ctx, ast.Store)]
        if len(stored) != len(set(stored)) or set(stored) & set(params):
            return None
        if methods_too == "final" and skip == 1:
            # read in place only where the callee is the same for every instance: not overridden below this class
            if any(call.func.attr in c.methods and c is not methods[call.func.attr][0] for c in prog.subclasses(cls.name)):
                return None
        return body, dict(zip(params, call.args))

    def expand(stmts: List[ast.stmt], env: Dict[str, ast.AST], body: List[ast.stmt], orelse: List[ast.stmt], at: ast.AST) -> List[ast.stmt]:
        out: List[ast.stmt] = []
        for i, st in enumerate(stmts):
            if isinstance(st, ast.Return):
                v = _Subst(env).visit(copy.deepcopy(st.value)) if st.value is not None else ast.Constant(value=None)
                if isinstance(v, ast.Constant):
                    out += copy.deepcopy(body if v.value else orelse)
                else:
                    out.append(ast.copy_location(ast.If(test=v, body=copy.deepcopy(body) or [ast.Pass()], orelse=copy.deepcopy(orelse)), at))
                return out
            if isinstance(st, ast.If):
                rest = stmts[i + 1:]
                t = _Subst(env).visit(copy.deepcopy(st.test))
                b_ = expand(list(st.body) + rest, env, body, orelse, at) or [ast.Pass()]
                o_ = expand(list(st.orelse) + rest, env, body, orelse, at)
                out.append(ast.copy_location(ast.If(test=t, body=b_, orelse=o_), at))
                return out
            if isinstance(st, ast.Assign):
                env = dict(env)
                env[st.targets[0].id] = _Subst(env).visit(copy.deepcopy(st.value))
                continue
            c = _Subst(env).visit(copy.deepcopy(st))
            for x in ast.walk(c):
                if hasattr(x, "lineno"):
                    x.lineno = getattr(at, "lineno", 1)
                    x.end_lineno = getattr(at, "lineno", 1)
            out.append(c)
        return out + copy.deepcopy(orelse)

    def walk(stmts: List[ast.stmt], depth: int) -> List[ast.stmt]:
        out: List[ast.stmt] = []
        for st in stmts:
            for fld in ("body", "orelse", "finalbody"):
                b = getattr(st, fld, None)
                if isinstance(b, list) and b and isinstance(b[0], ast.stmt) and not isinstance(st, (ast.FunctionDef, ast.ClassDef)):
                    setattr(st, fld, walk(b, depth))
            if isinstance(st, ast.Try):
                for h in st.handlers:
                    h.body = walk(h.body, depth)
            if isinstance(st, ast.If) and depth < 2:
                test, negated = st.test, False
                if isinstance(test, ast.UnaryOp) and isinstance(test.op, ast.Not):
                    test, negated = test.operand, True
                r = resolve(test)
                if r is not None:
                    hb, env = r
                    body, orelse = (st.orelse, st.body) if negated else (st.body, st.orelse)
                    new = expand(hb, env, list(body), list(orelse), st)
                    for n_ in new:
                        ast.fix_missing_locations(n_)
                    out += walk(new, depth + 1)
                    continue
            out.append(st)
        return out
    fn.body = walk(fn.body, 0) or fn.body


def canon(prog: Program, cls: Optional[ClassInfo], fn: ast.FunctionDef, exclude: Iterable[str] = (), helpers: bool = True,
          locals_: bool = True, public: bool = False, module_functions: bool = True) -> ast.FunctionDef:
    if prog is None and cls is not None:
        prog = getattr(cls, "prog", None)
    # the canonical form depends on the class only through the helpers its self-calls resolve to: key by that resolution, so
    # that subclasses which do not override any helper share the result
    sig: tuple = ()
    if cls is not None and prog is not None and helpers:
        methods = prog.all_methods(cls)
        seen: Set[str] = set()
        todo = [fn]
        while todo:
            f0 = todo.pop()
            names = f0.__dict__.get("_jfsa_selfcalls")
            if names is None:
                names = sorted({c.func.attr for c in ast.walk(f0) if isinstance(c, ast.Call) and isinstance(c.func, ast.Attribute)
                                and isinstance(c.func.value, ast.Name) and c.func.value.id == "self" and c.func.attr.startswith("_")})
                f0.__dict__["_jfsa_selfcalls"] = names
            for nm in names:
                if nm not in seen and nm in methods:
                    seen.add(nm)
                    todo.append(methods[nm][1])
        sig = tuple(sorted((nm, methods[nm][0].qual) for nm in seen))
    key = (sig if helpers and cls is not None else None, tuple(sorted(exclude)), helpers and cls is not None, locals_, public, module_functions)
    cache = fn.__dict__.setdefault("_jfsa_canon", {})
    if key in cache:
        return cache[key]
    _COUNTER[0] = 0   # generated names are numbered per canonical form (stable finding keys)
    saved = fn.__dict__.pop("_jfsa_canon")
    try:
        f = copy.deepcopy(fn)
    finally:
        fn.__dict__["_jfsa_canon"] = saved
    if helpers and cls is not None:
        if module_functions:
            _inline_test_predicates(prog, cls, f, set(exclude))
        _inline_helpers(prog, cls, f, set(exclude), 0, public, module_functions)
    if locals_:
        normalise_function(f, prog)
    else:
        f.body = _fix_ifs(f.body)
    ast.fix_missing_locations(f)
    cache[key] = f
    return f
