"""
Canonical form of a function for structural rules, so that behaviour-preserving edits (introducing or removing locals,
extracting or inlining private helpers, inverting an `if`, guard clauses vs. nesting, `x = x + y` vs `x += y`) do not change
what a rule sees.  Purely syntactic, on deep copies; line numbers of the original statements are kept.

    canon(prog, cls, fn, exclude)   ->  ast.FunctionDef

Steps: (1) inline calls of small private helpers of the class (statement helpers and expression helpers), except names in
`exclude` (role-identified primitives that a rule wants to see as calls); (2) guard clauses become if/else; (3) `not`-tests
are flipped; (4) `x = x + y` becomes `x += y`; (5) copy propagation of single-assignment locals whose right-hand side has
no side effect and draws no random number.
"""
import ast
import copy
from typing import Dict, Iterable, List, Optional, Set

from .pyfront import ClassInfo, Program, body_without_docstring, param_names

IMPURE_CALLS = ("pop", "append", "extend", "remove", "add", "clear", "update", "setdefault", "recv", "send", "set", "acquire", "release",
                "wait", "insert", "reset", "uniform", "random", "expovariate", "choice", "randint", "sample_cell", "get_active_identifier",
                "push_event", "trash_event", "write", "start", "join", "terminate", "popleft")


class _Subst(ast.NodeTransformer):
    def __init__(self, mapping: Dict[str, ast.AST]) -> None:
        self.mapping = mapping

    def visit_Name(self, node: ast.Name):
        if isinstance(node.ctx, ast.Load) and node.id in self.mapping:
            return ast.copy_location(copy.deepcopy(self.mapping[node.id]), node)
        return node


def _terminates(stmts: List[ast.stmt]) -> bool:
    return bool(stmts) and isinstance(stmts[-1], (ast.Return, ast.Raise, ast.Continue, ast.Break))


def _stores(fn: ast.AST) -> Dict[str, int]:
    counts: Dict[str, int] = {}
    for n in ast.walk(fn):
        if isinstance(n, ast.Name) and isinstance(n.ctx, (ast.Store, ast.Del)):
            counts[n.id] = counts.get(n.id, 0) + 1
        elif isinstance(n, ast.arg):
            counts[n.arg] = counts.get(n.arg, 0) + 1
    return counts


def _is_pure(e: ast.AST) -> bool:
    for n in ast.walk(e):
        if isinstance(n, ast.Call):
            name = n.func.attr if isinstance(n.func, ast.Attribute) else (n.func.id if isinstance(n.func, ast.Name) else "")
            if name in IMPURE_CALLS or name.startswith("_new") or name.startswith("construct"):
                return False
        if isinstance(n, (ast.Yield, ast.YieldFrom, ast.Await, ast.Lambda, ast.NamedExpr)):
            return False
    return True


def _fix_ifs(stmts: List[ast.stmt]) -> List[ast.stmt]:
    out: List[ast.stmt] = []
    i = 0
    while i < len(stmts):
        s = stmts[i]
        for fld in ("body", "orelse", "finalbody"):
            b = getattr(s, fld, None)
            if isinstance(b, list) and b and isinstance(b[0], ast.stmt):
                setattr(s, fld, _fix_ifs(b))
        if isinstance(s, ast.Try):
            for h in s.handlers:
                h.body = _fix_ifs(h.body)
        if isinstance(s, ast.If):
            # guard clause -> if/else
            if _terminates(s.body) and not s.orelse and i + 1 < len(stmts) and not isinstance(s.body[-1], (ast.Continue, ast.Break)):
                s.orelse = _fix_ifs(stmts[i + 1:])
                i = len(stmts)
            # not-test -> swap
            if isinstance(s.test, ast.UnaryOp) and isinstance(s.test.op, ast.Not) and s.orelse:
                s.test = s.test.operand
                s.body, s.orelse = s.orelse, s.body
        # x = x + y  ->  x += y
        if isinstance(s, ast.Assign) and len(s.targets) == 1 and isinstance(s.value, ast.BinOp) \
                and isinstance(s.value.op, (ast.Add, ast.Sub, ast.Mult)) and ast.dump(s.targets[0]).replace("Store()", "Load()") == ast.dump(s.value.left):
            s = ast.copy_location(ast.AugAssign(target=s.targets[0], op=s.value.op, value=s.value.right), s)
        out.append(s)
        i += 1
    return out


def _propagate(fn: ast.FunctionDef) -> None:
    for _ in range(6):
        counts = _stores(fn)
        params = {a.arg for a in fn.args.posonlyargs + fn.args.args + fn.args.kwonlyargs}
        attr_stores = set()
        mutation_sites = []
        for x in ast.walk(fn):
            if isinstance(x, ast.Attribute) and isinstance(x.ctx, (ast.Store, ast.Del)):
                attr_stores.add(x.attr)
                mutation_sites.append((x.attr, x))
            elif isinstance(x, ast.Subscript) and isinstance(x.ctx, (ast.Store, ast.Del)) and isinstance(x.value, ast.Attribute):
                attr_stores.add(x.value.attr)
                mutation_sites.append((x.value.attr, x))
            elif isinstance(x, ast.Call) and isinstance(x.func, ast.Attribute) and x.func.attr in ("update", "append", "remove", "pop", "clear") \
                    and isinstance(x.func.value, ast.Attribute):
                attr_stores.add(x.func.value.attr)
                mutation_sites.append((x.func.value.attr, x))
        cand: Optional[ast.Assign] = None
        for n in ast.walk(fn):
            if isinstance(n, ast.Assign) and len(n.targets) == 1 and isinstance(n.targets[0], ast.Name):
                name = n.targets[0].id
                if counts.get(name, 0) != 1 or name in params or not _is_pure(n.value):
                    continue
                free = {x.id for x in ast.walk(n.value) if isinstance(x, ast.Name)}
                if name in free or any(counts.get(f, 0) > 1 for f in free):
                    continue
                # the value must not depend on state that the function itself changes (attribute or element stores)
                read_attrs = {x.attr for x in ast.walk(n.value) if isinstance(x, ast.Attribute)}
                read_recv = {(ast.unparse(x.value), x.attr) for x in ast.walk(n.value) if isinstance(x, ast.Attribute)}
                relevant = [m for m in mutation_sites if m[0] in read_attrs and (_recv_text(m[1]), m[0]) in read_recv]
                if relevant:
                    # allowed only if every use precedes every change of these attributes (and no loop contains both)
                    uses_ = [x for x in ast.walk(fn) if isinstance(x, ast.Name) and x.id == name and isinstance(x.ctx, ast.Load)]
                    muts = relevant
                    if not uses_ or not muts:
                        continue
                    if max(u.lineno for u in uses_) >= min(m[1].lineno for m in muts):
                        continue
                    shared_loop = False
                    for lp in ast.walk(fn):
                        if isinstance(lp, (ast.For, ast.While)):
                            inside = {id(x) for x in ast.walk(lp)}
                            if any(id(u) in inside for u in uses_) and any(id(m[1]) in inside for m in muts):
                                shared_loop = True
                    if shared_loop:
                        continue
                # do not move an expression into or out of a loop / comprehension scope that rebinds its names
                cand = n
                break
        if cand is None:
            return
        name = cand.targets[0].id
        uses = [x for x in ast.walk(fn) if isinstance(x, ast.Name) and x.id == name and isinstance(x.ctx, ast.Load)]
        if not uses:
            # unused local: leave it (removing is not our business), but stop considering it
            cand.targets[0].id = name + "@unused"
            continue
        _Subst({name: cand.value}).visit(fn)
        _remove_stmt(fn, cand)
        ast.fix_missing_locations(fn)


def _recv_text(node: ast.AST) -> str:
    """receiver text of a mutation site: X for `X.attr = ..`, `X.attr[i] = ..`, `X.attr.update(..)`"""
    if isinstance(node, ast.Attribute):
        return ast.unparse(node.value)
    if isinstance(node, ast.Subscript) and isinstance(node.value, ast.Attribute):
        return ast.unparse(node.value.value)
    if isinstance(node, ast.Call) and isinstance(node.func, ast.Attribute) and isinstance(node.func.value, ast.Attribute):
        return ast.unparse(node.func.value.value)
    return "?"


def _remove_stmt(root: ast.AST, stmt: ast.stmt) -> None:
    for n in ast.walk(root):
        for fld in ("body", "orelse", "finalbody"):
            b = getattr(n, fld, None)
            if isinstance(b, list) and any(x is stmt for x in b):
                b[:] = [x for x in b if x is not stmt] or [ast.copy_location(ast.Pass(), stmt)]
                return
        if isinstance(n, ast.Try):
            for h in n.handlers:
                if any(x is stmt for x in h.body):
                    h.body[:] = [x for x in h.body if x is not stmt] or [ast.copy_location(ast.Pass(), stmt)]
                    return


def _simple_helper(fn: ast.FunctionDef) -> Optional[str]:
    """'expr' for `return <expr>`, 'stmts' for straight-line bodies without return / yield, else None"""
    body = body_without_docstring(fn)
    if not body or len(body) > 12:
        return None
    if fn.args.vararg or fn.args.kwarg or fn.decorator_list:
        return None
    if any(isinstance(n, (ast.Yield, ast.YieldFrom)) for n in ast.walk(fn)):
        return None
    if len(body) == 1 and isinstance(body[0], ast.Return) and body[0].value is not None:
        return "expr"
    if not any(isinstance(n, ast.Return) for n in ast.walk(fn)):
        return "stmts"
    return None


def _inline_helpers(prog: Program, cls: ClassInfo, fn: ast.FunctionDef, exclude: Set[str], depth: int = 0) -> None:
    if depth > 3:
        return
    methods = prog.all_methods(cls)

    def helper_of(call: ast.AST):
        if isinstance(call, ast.Call) and isinstance(call.func, ast.Attribute) and isinstance(call.func.value, ast.Name) \
                and call.func.value.id == "self" and call.func.attr.startswith("_") and not call.func.attr.startswith("__") \
                and call.func.attr in methods and call.func.attr not in exclude and call.func.attr != fn.name and not call.keywords \
                and not any(isinstance(a, ast.Starred) for a in call.args):
            owner, h = methods[call.func.attr]
            if owner.is_abstract_method(call.func.attr):
                return None
            kind = _simple_helper(h)
            ps = param_names(h)
            if kind and len(ps) == len(call.args):
                return h, kind, ps
        return None

    changed = False
    # statement helpers
    for n in ast.walk(fn):
        for fld in ("body", "orelse", "finalbody"):
            b = getattr(n, fld, None)
            if not isinstance(b, list):
                continue
            new: List[ast.stmt] = []
            for st in b:
                r = helper_of(st.value) if isinstance(st, ast.Expr) else None
                if r and r[1] == "stmts":
                    h, _, ps = r
                    hb = copy.deepcopy(body_without_docstring(h))
                    mapping = {p: a for p, a in zip(ps, st.value.args)}
                    # only substitute parameters that the helper never rebinds
                    rebound = _stores(ast.Module(body=hb, type_ignores=[]))
                    if any(p in rebound for p in ps):
                        new.append(st)
                        continue
                    locals_ = set(rebound)
                    clash = locals_ & ({x.id for x in ast.walk(fn) if isinstance(x, ast.Name)} - set(ps))
                    ren = {v: ast.Name(id=f"{v}@{h.name}", ctx=ast.Load()) for v in clash}
                    for s2 in hb:
                        _Subst(mapping).visit(s2)
                        if ren:
                            for x in ast.walk(s2):
                                if isinstance(x, ast.Name) and x.id in ren:
                                    x.id = f"{x.id}@{h.name}"
                    new.extend(hb)
                    changed = True
                else:
                    new.append(st)
            b[:] = new
    # expression helpers
    class T(ast.NodeTransformer):
        def visit_Call(self, node: ast.Call):
            self.generic_visit(node)
            r = helper_of(node)
            if r and r[1] == "expr":
                h, _, ps = r
                e = copy.deepcopy(body_without_docstring(h)[0].value)
                nonlocal changed
                changed = True
                return ast.copy_location(_Subst({p: a for p, a in zip(ps, node.args)}).visit(e), node)
            return node
    T().visit(fn)
    if changed:
        ast.fix_missing_locations(fn)
        _inline_helpers(prog, cls, fn, exclude, depth + 1)


def canon(prog: Program, cls: Optional[ClassInfo], fn: ast.FunctionDef, exclude: Iterable[str] = (), helpers: bool = True,
          locals_: bool = True) -> ast.FunctionDef:
    key = (cls.qual if cls else None, tuple(sorted(exclude)), helpers and cls is not None, locals_)
    cache = fn.__dict__.setdefault("_jfsa_canon", {})
    if key in cache:
        return cache[key]
    saved = fn.__dict__.pop("_jfsa_canon")
    try:
        f = copy.deepcopy(fn)
    finally:
        fn.__dict__["_jfsa_canon"] = saved
    if helpers and cls is not None:
        _inline_helpers(prog, cls, f, set(exclude))
    f.body = _fix_ifs(f.body)
    if locals_:
        _propagate(f)
        f.body = _fix_ifs(f.body)
    ast.fix_missing_locations(f)
    cache[key] = f
    return f
