"""
Config-graph abstract reachability of the tagger pool (DESIGN.md R8/9.1): abstract state (A, R) = (activated taggers,
taggers that may have pending events); transitions mirror TagActivator._get_event_handlers_to_run_update and
get_trashable_events.  All reachable abstract states of every shipped .ini are enumerated.
"""
from typing import Dict, FrozenSet, List, Optional, Tuple

from .core import AnalysisError, Loc, Report
from .handlers import HandlerFacts
from .inifront import IniConfig, Obj, tagger_tag
from .pyfront import Program


class TaggerInfo:
    def __init__(self, prog: Program, cfg: IniConfig, obj: Obj, facts_cache: Dict[str, HandlerFacts]) -> None:
        self.obj = obj
        self.tag = tagger_tag(obj)
        self.cls = obj.cls
        self.create = list(obj.get("create") or [])
        self.trash = list(obj.get("trash") or [])
        self.activate = list(obj.get("activate") or []) if self._has_param(prog, cfg, "activate") else []
        self.deactivate = list(obj.get("deactivate") or []) if self._has_param(prog, cfg, "deactivate") else []
        h = obj.get("event_handler")
        self.handler_obj: Optional[Obj] = h if isinstance(h, Obj) else None
        self.handler_cls = self.handler_obj.cls if self.handler_obj else None
        self.facts: Optional[HandlerFacts] = None
        if self.handler_cls is not None:
            key = self.handler_cls.qual
            if key not in facts_cache:
                facts_cache[key] = HandlerFacts(prog, self.handler_cls)
            self.facts = facts_cache[key]
        self.state_label = obj.get("internal_state_label") if prog.is_subclass(obj.cls, "TaggerWithInternalState") else None
        self.number_event_handlers = obj.get("number_event_handlers")

    def _has_param(self, prog: Program, cfg: IniConfig, name: str) -> bool:
        _, params = cfg.init_params(self.obj.cls)
        return any(p.name == name for p in params)


State = Tuple[FrozenSet[str], FrozenSet[str]]


def prog_is_cell_veto(g: "ConfigGraph", t: "TaggerInfo") -> bool:
    return g.prog.is_subclass(t.handler_cls, "CellVetoEventHandler")


class ConfigGraph:
    def __init__(self, prog: Program, cfg: IniConfig, facts_cache: Dict[str, HandlerFacts]) -> None:
        self.prog, self.cfg = prog, cfg
        self.taggers = [TaggerInfo(prog, cfg, t, facts_cache) for t in cfg.taggers()]
        self.by_tag: Dict[str, TaggerInfo] = {}
        self.duplicate_tags: List[str] = []
        for t in self.taggers:
            if t.tag in self.by_tag:
                self.duplicate_tags.append(t.tag)
            self.by_tag[t.tag] = t
        self.states: Dict[State, Optional[Tuple[State, str]]] = {}
        self.transitions = 0
        self.start: Optional[TaggerInfo] = None

    def loc(self, t: Optional[TaggerInfo] = None) -> Loc:
        return Loc(self.cfg.file, 0, f"[{t.obj.section}]" if t else "[TagActivator]")

    def trace(self, s: State) -> str:
        path = []
        cur: Optional[State] = s
        while cur is not None and self.states.get(cur) is not None:
            prev, tag = self.states[cur]
            path.append(tag)
            cur = prev
        return " -> ".join(reversed(path)) or "(start)"

    def step(self, s: State, t: TaggerInfo) -> State:
        a, r = s
        a2 = (a | frozenset(t.activate)) - frozenset(t.deactivate)
        r2 = (r - frozenset(t.trash)) | (frozenset(t.create) & a2)
        return a2, r2

    def explore(self, rep: Report, rules: Tuple[str, ...]) -> None:
        """Enumerate reachable states; emit the obligations of the requested rule families ('C08','C09','C17')."""
        file = self.cfg.file
        tags = set(self.by_tag)
        # -- static list sanity (all families need a well-formed graph) ----------------------------------------------
        for t in self.taggers:
            for lname in ("create", "trash", "activate", "deactivate"):
                for x in getattr(t, lname):
                    if x not in tags:
                        rep.ob("R9.0-tag-exists", False, self.loc(t), f"{lname}: {x}",
                               f"tag `{x}` in the {lname} list of `{t.tag}` is not a tagger of this configuration")
        if self.duplicate_tags:
            rep.ob("R9.0-tag-unique", False, self.loc(), ",".join(self.duplicate_tags), "duplicate tagger tags")
        starts = [t for t in self.taggers if t.facts and t.facts.one_shot]
        if len(starts) != 1:
            rep.ob("R9.0-start", False, self.loc(), "start_of_run", f"{len(starts)} start-of-run taggers")
            return
        self.start = start = starts[0]
        a0 = (frozenset(tags) | frozenset(start.activate)) - frozenset(start.deactivate)
        s0: State = (a0, frozenset([start.tag]))
        self.states[s0] = None
        work = [s0]
        seen_pairs = {}  # (rule, T, S) -> (ok, message)

        def note(rule: str, t: TaggerInfo, s_tag: str, ok: bool, msg: str) -> None:
            key = (rule, t.tag, s_tag)
            if key not in seen_pairs or (seen_pairs[key][0] and not ok):
                seen_pairs[key] = (ok, msg)

        while work:
            s = work.pop()
            a, r = s
            for tag in sorted(r):
                t = self.by_tag[tag]
                self.transitions += 1
                a2, r2 = self.step(s, t)
                survivors = r - frozenset(t.trash)
                tr = None
                for stag in sorted(survivors):
                    sv = self.by_tag[stag]
                    if tr is None:
                        tr = self.trace(s)
                    if "C09" in rules:
                        dup = stag in t.create and stag in a2
                        note("R9.1-I2-no-duplicate", t, stag, not dup,
                             f"after a `{t.tag}` event, `{stag}` is created again while its earlier events are not "
                             f"trashed: a second generation of the same candidates (history: {tr} -> {t.tag})")
                        note("R9.1-I3-no-zombie", t, stag, stag in a2,
                             f"`{t.tag}` deactivates `{stag}` but does not trash its pending events (history: {tr} -> "
                             f"{t.tag})")
                    if "C09" in rules and t.facts and sv.facts:
                        bad = t.facts.changes_trajectory and sv.facts.kinematics_sensitive
                        note("R9.1-I7-active-unit-changed", t, stag, not bad,
                             f"`{t.tag}` ({t.handler_cls.name}) hands the velocity to another unit, but the pending "
                             f"events of the interaction tagger `{stag}` were generated for the previous active unit "
                             f"and are neither trashed nor re-created: they differ from what `{stag}` generates from "
                             f"scratch for the new active state (history: {tr} -> {t.tag})")
                    if "C08" in rules and t.facts and sv.facts:
                        bad = t.facts.changes_trajectory and sv.facts.kinematics_sensitive
                        note("R8.1-I3-stale-candidate", t, stag, not bad,
                             f"`{t.tag}` ({t.handler_cls.name}) changes a velocity, but the pending candidate of "
                             f"`{stag}` ({sv.handler_cls.name}), computed from positions/velocities of its in-state, "
                             f"is not in its trash list and survives (history: {tr} -> {t.tag})")
                        bad2 = t.facts.snaps_position and t.state_label is not None and sv.state_label == t.state_label
                        note("R8.1-I3-stale-cell", t, stag, not bad2,
                             f"`{t.tag}` moves the active unit into another cell of internal state "
                             f"`{t.state_label}`, but the pending candidates of `{stag}` (same cell system) survive "
                             f"(history: {tr} -> {t.tag})")
                        mode_switch = bool(t.activate or t.deactivate) and not t.facts.one_shot
                        bad3 = mode_switch and not sv.facts.kinematics_sensitive and bool(sv.facts.reads_shape) \
                            and sv.facts.takes_in_state
                        note("R8.1-I3c-mode-switch", t, stag, not bad3,
                             f"`{t.tag}` switches which units move independently, but the pending `{stag}` event, whose "
                             f"candidate depends on the shape of the active state, survives (history: {tr} -> {t.tag})")
                    if ("C10" in rules or "C18" in rules) and t.facts and sv.facts:
                        moved = t.facts.snaps_position and t.state_label is not None and sv.state_label == t.state_label
                        if "C10" in rules:
                            note("R10.6-families-follow-active-cell", t, stag, not moved,
                                 f"`{t.tag}` moves the active unit into another cell of `{t.state_label}`, but the pending candidates of "
                                 f"`{stag}`, generated for the nearby / excluded / surplus cells of the previous active cell, survive: "
                                 f"partners are treated twice or missed (history: {tr} -> {t.tag})")
                        if "C18" in rules and sv.handler_cls is not None and prog_is_cell_veto(self, sv):
                            note("R18.6-veto-candidate-follows-active-cell", t, stag, not moved,
                                 f"`{t.tag}` moves the active unit into another cell, but the pending cell-veto candidate of `{stag}` "
                                 f"keeps the target cell computed as offset from the previous active cell (history: {tr} -> {t.tag})")
                if "C09" in rules and not (t.facts and t.facts.ends_run):
                    for stag in sorted(a2):
                        sv = self.by_tag[stag]
                        if sv.facts and sv.facts.one_shot:
                            continue
                        if tr is None:
                            tr = self.trace(s)
                        note("R9.1-I4-nothing-missing", t, stag, stag in r2,
                             f"after a `{t.tag}` event the activated tagger `{stag}` has no pending event and is not "
                             f"created (history: {tr} -> {t.tag})")
                if "C11" in rules and not (t.facts and t.facts.ends_run):
                    for stag in sorted(a2):
                        sv = self.by_tag[stag]
                        if sv.facts and sv.facts.snaps_position and sv.state_label is not None:
                            if tr is None:
                                tr = self.trace(s)
                            note("R11.5-boundary-event-always-pending", t, stag, stag in r2,
                                 f"after a `{t.tag}` event the cell-boundary tagger `{stag}` has no pending event: the active unit "
                                 f"can leave its recorded cell without a cell-boundary event (history: {tr} -> {t.tag})")
                if t.facts and t.facts.ends_run:
                    continue
                s2 = (a2, r2)
                if s2 not in self.states:
                    self.states[s2] = (s, t.tag)
                    work.append(s2)
                    if len(self.states) > 20000:
                        raise AnalysisError(f"{file}: more than 20000 abstract tagger-pool states")
        for (rule, ttag, stag), (ok, msg) in sorted(seen_pairs.items()):
            rep.ob(rule, ok, self.loc(self.by_tag[ttag]), f"{ttag} / {stag}", msg if not ok else "")
        # -- per-tagger static clauses --------------------------------------------------------------------------------
        ever_pending = set()
        for (a, r) in self.states:
            ever_pending |= r
        for t in self.taggers:
            if "C09" in rules:
                rep.ob("R9.1-I1-self-trash", t.tag in t.trash, self.loc(t), f"trash of {t.tag}",
                       f"`{t.tag}` does not trash itself: its committed event handler stays in the running pool (only an "
                       f"assert that vanishes under -O notices)")
                rep.ob("R9.1-I5-reachable", t.tag in ever_pending, self.loc(t), f"{t.tag} reachable",
                       f"tagger `{t.tag}` is never created on any history from the start of the run")
            if "C17" in rules and t.facts and t.facts.self_clocked:
                for other in self.taggers:
                    if other is t:
                        continue
                    creates = t.tag in other.create and not (other.facts and other.facts.one_shot)
                    rep.ob("R17.6-self-clocked-create", not creates, self.loc(other), f"{other.tag} creates {t.tag}",
                           f"`{t.tag}` advances its own clock by one interval every time it is asked for a candidate; "
                           f"being re-created by `{other.tag}` skips a period")
                    rep.ob("R17.6-self-clocked-always-active", t.tag not in other.deactivate, self.loc(other), f"{other.tag} deactivates {t.tag}",
                           f"a deactivated tagger yields no in-state: the event of `{t.tag}` that fires while it is deactivated re-creates "
                           f"nothing and the clock of `{t.tag}` stops for the rest of the run")
                    trashes = t.tag in other.trash and not (other.facts and other.facts.ends_run)
                    rep.ob("R17.6-self-clocked-trash", not trashes, self.loc(other), f"{other.tag} trashes {t.tag}",
                           f"`{t.tag}` is self-clocked; trashing its pending event from `{other.tag}` loses a period")
                rep.ob("R17.6-self-clocked-self", t.tag in t.create and t.tag in t.trash, self.loc(t),
                       f"{t.tag} re-creates itself", f"self-clocked tagger `{t.tag}` must create and trash itself")
