"""
R6.2 -- memory safety of heap.c for every history: abstract interpretation in the zone domain (difference-bound
constraints x - y <= c over the unsigned program variables, heap->length, heap->size and 0) over the clang AST.

Data-structure invariant  INV = (size = 0 and length = 0)  or  (1 <= length and length + 1 <= size)  is assumed at the entry
of every public function that receives a heap and must be re-established at every exit; construct_heap establishes the
first disjunct (calloc).  Proof obligation at every  heap->heap_entries[e] :  0 <= e <= size - 1,  and at every decrement
of an unsigned variable: the old value is >= 1.  bubble_down is analysed under the join of the states at its call sites.
Assumptions (stated in the evidence): realloc succeeds, no unsigned wrap-around on increment / doubling (length < 2^31).
"""
from typing import Dict, List, Optional, Tuple

from .cfront import CNode, CUnit, strip, text
from .core import AnalysisError

Z = "0"
INF = None


class Zone:
    """x - y <= c constraints; missing = unbounded. Immutable-style (copy on write)."""

    def __init__(self, m: Optional[Dict[Tuple[str, str], int]] = None, bottom: bool = False) -> None:
        self.m = dict(m or {})
        self.bottom = bottom

    def copy(self) -> "Zone":
        return Zone(self.m, self.bottom)

    def vars(self) -> List[str]:
        vs = {Z}
        for a, b in self.m:
            vs.add(a)
            vs.add(b)
        return sorted(vs)

    def add(self, x: str, y: str, c: int) -> None:
        """x - y <= c"""
        if x == y:
            if c < 0:
                self.bottom = True
            return
        old = self.m.get((x, y))
        if old is None or c < old:
            self.m[(x, y)] = c

    def close(self) -> "Zone":
        if self.bottom:
            return self
        vs = self.vars()
        d = self.m
        for k in vs:
            for i in vs:
                ik = d.get((i, k)) if i != k else 0
                if ik is None:
                    continue
                for j in vs:
                    kj = d.get((k, j)) if k != j else 0
                    if kj is None:
                        continue
                    s = ik + kj
                    if i == j:
                        if s < 0:
                            self.bottom = True
                            return self
                        continue
                    old = d.get((i, j))
                    if old is None or s < old:
                        d[(i, j)] = s
        return self

    def forget(self, x: str) -> None:
        self.close()
        for k in [k for k in self.m if x in k]:
            del self.m[k]

    def bound(self, x: str, y: str) -> Optional[int]:
        """least c with x - y <= c known, or None"""
        if x == y:
            return 0
        return self.m.get((x, y))

    def entails(self, x: str, y: str, c: int) -> bool:
        if self.bottom:
            return True
        b = self.bound(x, y)
        return b is not None and b <= c

    def declare_unsigned(self, x: str) -> None:
        self.add(Z, x, 0)

    @staticmethod
    def join(a: Optional["Zone"], b: Optional["Zone"]) -> Optional["Zone"]:
        if a is None or a.bottom:
            return b.copy() if b is not None else None
        if b is None or b.bottom:
            return a.copy()
        a.close()
        b.close()
        m = {}
        for k, v in a.m.items():
            w = b.m.get(k)
            if w is not None:
                m[k] = max(v, w)
        return Zone(m)

    @staticmethod
    def widen(old: "Zone", new: "Zone") -> "Zone":
        if old.bottom:
            return new.copy()
        if new.bottom:
            return old.copy()
        old.close()
        new.close()
        m = {}
        for k, v in old.m.items():
            w = new.m.get(k)
            if w is not None and w <= v:
                m[k] = v
        return Zone(m)

    def leq(self, other: "Zone") -> bool:
        """self is at least as precise as other (self => other)"""
        if self.bottom:
            return True
        if other.bottom:
            return False
        self.close()
        return all(self.entails(x, y, c) for (x, y), c in other.m.items())

    def describe(self) -> str:
        if self.bottom:
            return "unreachable"
        self.close()
        out = []
        for (x, y), c in sorted(self.m.items()):
            if x.startswith("$") or y.startswith("$"):
                continue
            if y == Z:
                out.append(f"{x}<={c}")
            elif x == Z:
                out.append(f"{y}>={-c}")
            else:
                out.append(f"{x}-{y}<={c}")
        return ", ".join(out)


Form = Optional[Tuple[str, int]]  # v + c   (v may be Z)


class Obligation:
    def __init__(self, rule: str, fn: str, line: int, expr: str, ok: bool, state: str, why: str) -> None:
        self.rule, self.fn, self.line, self.expr, self.ok, self.state, self.why = rule, fn, line, expr, ok, state, why


class HeapAnalyser:
    def __init__(self, unit: CUnit) -> None:
        self.unit = unit
        self.obligations: List[Obligation] = []
        self.recording = True
        self.fn = ""
        self.tmp = 0
        self.exits: List[Tuple[Zone, int]] = []
        self.call_states: Dict[str, List[Tuple[Zone, List[Form]]]] = {}
        self.unhandled: List[str] = []
        self.imprecise: Set[str] = set()
        self._cont: List[List[Zone]] = []
        self._brk: List[List[Zone]] = []
        self.modifies: Dict[str, bool] = {}
        self.aliases: set = set()

    # -- helpers ----------------------------------------------------------------------------------------------------
    def fresh(self) -> str:
        self.tmp += 1
        return f"${self.tmp}"

    def record(self, rule: str, n: CNode, ok: bool, st: Zone, why: str) -> None:
        if self.recording and not st.bottom:
            self.obligations.append(Obligation(rule, self.fn, n.line, text(n), ok, st.describe(), why))

    def loc_var(self, n: CNode) -> Optional[str]:
        n = strip(n)
        if n.kind == "DeclRefExpr" and n.props.get("refkind") in ("VarDecl", "ParmVarDecl"):
            ref = n.props.get("ref")
            # a local that happens to be called like a field of the heap is a variable of its own
            return f"local${ref}" if ref in ("length", "size") else ref
        if n.kind == "MemberExpr" and n.props.get("name") in ("length", "size"):
            return n.props["name"]
        return None

    def is_entries(self, n: CNode) -> bool:
        n = strip(n)
        if n.kind == "DeclRefExpr" and n.props.get("ref") in self.aliases:
            return True
        return n.kind == "MemberExpr" and n.props.get("name") == "heap_entries"

    def _reallocating(self) -> set:
        """functions of the unit that may move or free the entries array (call realloc / malloc / free, transitively)"""
        direct = {"realloc", "malloc", "calloc", "free"}
        out: set = set()
        changed = True
        while changed:
            changed = False
            for name, fn in self.unit.functions.items():
                if name in out:
                    continue
                for c in fn.walk():
                    if c.kind == "CallExpr" and c.children:
                        callee = strip(c.children[0])
                        ref = callee.props.get("ref") if callee.kind == "DeclRefExpr" else None
                        if ref in direct or ref in out:
                            out.add(name)
                            changed = True
                            break
        return out

    def find_aliases(self, body: CNode) -> None:
        """
        Local pointers that are only ever assigned `heap->heap_entries` stand for the entries array (subscripts through them are
        checked like direct ones).  Such a pointer must not be used after a call that may reallocate the array.
        """
        self.aliases = set()
        decls: Dict[str, CNode] = {}
        bad: set = set()
        for n in body.walk():
            if n.kind == "VarDecl" and "HeapEntry *" in (n.props.get("type") or ""):
                name = n.props.get("name")
                decls[name] = n
                if n.children and not (strip(n.children[-1]).kind == "MemberExpr" and strip(n.children[-1]).props.get("name") == "heap_entries"):
                    bad.add(name)
            if n.kind == "BinaryOperator" and n.props.get("opcode") == "=":
                lhs = strip(n.children[0])
                if lhs.kind == "DeclRefExpr" and "HeapEntry *" in (lhs.props.get("type") or ""):
                    rhs = strip(n.children[1])
                    if not (rhs.kind == "MemberExpr" and rhs.props.get("name") == "heap_entries"):
                        bad.add(lhs.props.get("ref"))
                    decls.setdefault(lhs.props.get("ref"), n)
        self.aliases = {a for a in decls if a not in bad}
        if not self.aliases:
            return
        realloc = self._reallocating() | {"realloc", "free"}
        calls = [c for c in body.walk() if c.kind == "CallExpr" and c.children and strip(c.children[0]).kind == "DeclRefExpr"
                 and strip(c.children[0]).props.get("ref") in realloc]
        for a in sorted(self.aliases):
            uses = [u for u in body.walk() if u.kind == "DeclRefExpr" and u.props.get("ref") == a]
            loops = [l for l in body.walk() if l.kind in ("WhileStmt", "ForStmt", "DoStmt")]
            for c in calls:
                stale = any(u.line > c.line for u in uses) and decls[a].line <= c.line
                for l in loops:
                    inside = {id(x) for x in l.walk()}
                    if id(c) in inside and any(id(u) in inside for u in uses) and id(decls[a]) not in inside:
                        stale = True
                self.obligations.append(Obligation("R6.2-alias-not-stale", self.fn, c.line, f"{a} across {text(c)}", not stale, "",
                                                   f"the local pointer `{a}` to the entries array is used after a call that may move the array"))

    def assign(self, st: Zone, x: str, f: Form) -> None:
        if f is None:
            st.forget(x)
            st.declare_unsigned(x)
            return
        v, c = f
        if v == x:
            st.close()
            m = {}
            for (a, b), k in st.m.items():
                if a == x and b != x:
                    m[(a, b)] = k + c
                elif b == x and a != x:
                    m[(a, b)] = k - c
                else:
                    m[(a, b)] = k
            st.m = m
        else:
            st.forget(x)
            st.add(x, v, c)
            st.add(v, x, -c)
            st.declare_unsigned(x)

    # -- expressions ------------------------------------------------------------------------------------------------
    def ev(self, n: CNode, st: Zone) -> Form:
        """Evaluate for value (linear form) with side effects applied to st and obligations recorded."""
        n = strip(n)
        k = n.kind
        if st.bottom:
            return None
        if k == "IntegerLiteral":
            return (Z, int(n.props.get("value", "0")))
        if k == "DeclRefExpr" or (k == "MemberExpr" and not self.is_entries(n)):
            v = self.loc_var(n)
            if v is not None and self._is_int(n):
                return (v, 0)
            if k == "MemberExpr":
                self.ev(n.children[0], st)
            return None
        if k == "ArraySubscriptExpr":
            base, idx = n.children[0], n.children[1]
            f = self.ev(idx, st)
            if self.is_entries(base):
                self.check_index(n, f, st)
            else:
                self.ev(base, st)
            return None
        if k == "MemberExpr":
            self.ev(n.children[0], st)
            return None
        if k == "UnaryOperator":
            op = n.props.get("opcode")
            if op in ("++", "--"):
                v = self.loc_var(n.children[0])
                if v is None:
                    self.unhandled.append(f"{self.fn}:{n.line}: {text(n)}")
                    return None
                d = 1 if op == "++" else -1
                if d == -1:
                    st.close()
                    self.record("R6.2-no-underflow", n, st.entails(Z, v, -1), st,
                                f"decrement of unsigned `{v}` needs {v} >= 1")
                post = bool(n.props.get("isPostfix"))
                old = None
                if post:
                    old = self.fresh()
                    self.assign(st, old, (v, 0))
                self.assign(st, v, (v, d))
                if v in ("length", "size"):
                    self.modifies[self.fn] = True
                return (old, 0) if post else (v, 0)
            if op == "!":
                self.ev(n.children[0], st)
                return None
            if op == "-":
                f = self.ev(n.children[0], st)
                return None
            self.ev(n.children[0], st)
            return None
        if k in ("BinaryOperator", "CompoundAssignOperator"):
            op = n.props.get("opcode")
            a, b = n.children[0], n.children[1]
            if op == "=":
                target = strip(a)
                if target.kind == "ArraySubscriptExpr" or (target.kind == "MemberExpr" and
                                                           strip(target.children[0]).kind == "ArraySubscriptExpr"):
                    self.ev(b, st)
                    self.ev(target if target.kind == "ArraySubscriptExpr" else strip(target.children[0]), st)
                    return None
                v = self.loc_var(a)
                if v is not None and self._is_int(a):
                    f = self.ev_assigned(b, st, v)
                    if v in ("length", "size"):
                        self.modifies[self.fn] = True
                    return (v, 0)
                self.ev(b, st)
                if strip(a).kind == "MemberExpr":
                    self.ev(strip(a).children[0], st)
                return None
            if op in ("+", "-"):
                fa, fb = self.ev(a, st), self.ev(b, st)
                if fa is not None and fb is not None and fb[0] == Z:
                    return (fa[0], fa[1] + (fb[1] if op == "+" else -fb[1]))
                if fa is not None and fb is not None and fa[0] == Z and op == "+":
                    return (fb[0], fb[1] + fa[1])
                return None
            if op in (">>", "/"):
                fa, fb = self.ev(a, st), self.ev(b, st)
                if fa is not None and fb is not None and fb[0] == Z and ((op == ">>" and fb[1] >= 0) or (op == "/" and fb[1] >= 1)):
                    t = self.fresh()
                    st.declare_unsigned(t)
                    st.add(t, fa[0], fa[1])  # t <= a
                    return (t, 0)
                return None
            if op in ("<<", "*"):
                fa, fb = self.ev(a, st), self.ev(b, st)
                if fa is not None and fb is not None and fb[0] == Z and ((op == "<<" and fb[1] >= 0) or (op == "*" and fb[1] >= 1)):
                    t = self.fresh()
                    st.declare_unsigned(t)
                    st.close()
                    factor_two = (op == "<<" and fb[1] >= 1) or (op == "*" and fb[1] >= 2)
                    lb = st.bound(Z, fa[0])  # 0 - v <= c  =>  v >= -c
                    low = (-lb + fa[1]) if lb is not None else 0
                    extra = max(low, 0) if factor_two else 0
                    st.add(fa[0], t, -fa[1] - extra)  # t >= a + (a's lower bound): doubling without wrap-around
                    return (t, 0)
                if op == "*":
                    return None
                return None
            if op in ("<", "<=", ">", ">=", "==", "!=", "&&", "||"):
                t, f = self.cond(n, st.copy())
                j = Zone.join(t, f)
                if j is not None:
                    st.m, st.bottom = j.m, j.bottom
                return None
            self.ev(a, st)
            self.ev(b, st)
            return None
        if k == "ConditionalOperator":
            t, f = self.cond(n.children[0], st.copy())
            ft = self.ev(n.children[1], t) if not t.bottom else None
            ff = self.ev(n.children[2], f) if not f.bottom else None
            j = Zone.join(t, f)
            if j is not None:
                st.m, st.bottom = j.m, j.bottom
            return None
        if k == "CallExpr":
            callee = text(n.children[0])
            args = [self.ev(c, st) for c in n.children[1:]]
            if callee in self.unit.functions and callee != self.fn:
                self.call_states.setdefault(callee, []).append((st.copy().close(), args))
            return None
        if k in ("CompoundLiteralExpr", "InitListExpr", "FloatingLiteral", "UnaryExprOrTypeTraitExpr", "StringLiteral"):
            for c in n.children:
                self.ev(c, st)
            return None
        for c in n.children:
            self.ev(c, st)
        return None

    def _is_int(self, n: CNode) -> bool:
        t = (strip(n).props.get("type") or "").replace("const ", "").replace("volatile ", "").strip()
        return t in ("uint", "unsigned int", "int", "size_t", "unsigned long") or t.startswith("uint")

    def ev_assigned(self, rhs: CNode, st: Zone, target: str) -> Form:
        """x = rhs with special handling of  x = c ? e1 : e2."""
        r = strip(rhs)
        if r.kind == "ConditionalOperator":
            t, f = self.cond(r.children[0], st.copy())
            outs = []
            for branch, s in ((r.children[1], t), (r.children[2], f)):
                if s.bottom:
                    continue
                fb = self.ev(branch, s)
                self.assign(s, target, fb)
                outs.append(s)
            j = None
            for s in outs:
                j = Zone.join(j, s)
            if j is None:
                st.bottom = True
            else:
                st.m, st.bottom = j.m, j.bottom
            return (target, 0)
        f = self.ev(rhs, st)
        if f is not None and f[0] == target:
            self.assign(st, target, f)
        else:
            self.assign(st, target, f)
        return (target, 0)

    def check_index(self, n: CNode, f: Form, st: Zone) -> None:
        st.close()
        if f is None:
            self.record("R6.2-index-in-bounds", n, False, st, "index expression not understood")
            return
        v, c = f
        lower = st.entails(Z, v, c)  # 0 - v <= c  <=>  v + c >= 0
        upper = st.entails(v, "size", -1 - c)  # v + c <= size - 1
        self.record("R6.2-index-in-bounds", n, lower and upper, st,
                    f"need 0 <= {text(n.children[1])} <= size - 1 "
                    f"({'lower ok' if lower else 'LOWER BOUND NOT PROVED'}, {'upper ok' if upper else 'UPPER BOUND NOT PROVED'})")

    # -- conditions -------------------------------------------------------------------------------------------------
    def cond(self, n: CNode, st: Zone) -> Tuple[Zone, Zone]:
        """(state where n is true, state where n is false); evaluates n (obligations, side effects) once."""
        n = strip(n)
        if st.bottom:
            return st.copy(), st.copy()
        if n.kind == "BinaryOperator":
            op = n.props.get("opcode")
            if op == "&&":
                t1, f1 = self.cond(n.children[0], st)
                t2, f2 = self.cond(n.children[1], t1)
                f = Zone.join(f1, f2) or Zone(bottom=True)
                return t2, f
            if op == "||":
                t1, f1 = self.cond(n.children[0], st)
                t2, f2 = self.cond(n.children[1], f1)
                t = Zone.join(t1, t2) or Zone(bottom=True)
                return t, f2
            if op in ("<", "<=", ">", ">=", "==", "!="):
                fa = self.ev(n.children[0], st)
                fb = self.ev(n.children[1], st)
                # pointer == NULL after realloc: allocation failure is outside the analysed behaviours
                if self.is_entries(n.children[0]) or self.is_entries(n.children[1]):
                    t = st.copy()
                    f = st.copy()
                    if op == "==":
                        t.bottom = True
                    elif op == "!=":
                        f.bottom = True
                    return t, f
                t, f = st.copy(), st.copy()
                if (fa is None or fb is None) and any(("*" in (strip(c_).props.get("type") or "") and "HeapEntry" in (strip(c_).props.get("type") or "")) or self._is_int(c_)
                                                         for c_ in n.children[:2]):
                    # a comparison of positions that the zone domain cannot express (pointers into the array, products): what
                    # follows is analysed without it.  (Comparisons of times -- doubles -- never bound an index.)
                    self.imprecise.add(self.fn)
                if fa is not None and fb is not None:
                    self._constrain(t, fa, op, fb)
                    self._constrain(f, fa, {"<": ">=", "<=": ">", ">": "<=", ">=": "<", "==": "!=", "!=": "=="}[op], fb)
                return t.close(), f.close()
        if n.kind == "UnaryOperator" and n.props.get("opcode") == "!":
            t, f = self.cond(n.children[0], st)
            return f, t
        # scalar used as truth value: x  <=>  x != 0
        v = self.loc_var(n)
        if v is not None and self._is_int(n):
            t, f = st.copy(), st.copy()
            t.add(Z, v, -1)
            f.add(v, Z, 0)
            return t.close(), f.close()
        if self.is_entries(n):
            f = st.copy()
            f.bottom = True  # heap_entries is non-NULL whenever size > 0 (part of INV); used only in destroy_heap
            return st.copy(), st.copy()
        self.ev(n, st)
        return st.copy(), st.copy()

    def _constrain(self, st: Zone, a: Tuple[str, int], op: str, b: Tuple[str, int]) -> None:
        (x, cx), (y, cy) = a, b
        # x + cx  op  y + cy
        if op == "<":
            st.add(x, y, cy - cx - 1)
        elif op == "<=":
            st.add(x, y, cy - cx)
        elif op == ">":
            st.add(y, x, cx - cy - 1)
        elif op == ">=":
            st.add(y, x, cx - cy)
        elif op == "==":
            st.add(x, y, cy - cx)
            st.add(y, x, cx - cy)
        # != adds nothing in a zone

    # -- statements -------------------------------------------------------------------------------------------------
    def stmt(self, n: CNode, st: Optional[Zone]) -> Optional[Zone]:
        if st is None or st.bottom:
            return st
        k = n.kind
        if k == "CompoundStmt":
            for c in n.children:
                st = self.stmt(c, st)
                if st is None:
                    return None
            return st
        if k == "DeclStmt":
            for d in n.children:
                if d.kind == "VarDecl":
                    name = d.props.get("name")
                    if name in ("length", "size"):
                        name = f"local${name}"
                    inits = [c for c in d.children]
                    if inits and self._is_int_type(d.props.get("type")):
                        self.ev_assigned(inits[-1], st, name)
                    elif self._is_int_type(d.props.get("type")):
                        st.forget(name)
                        st.declare_unsigned(name)
                    else:
                        for c in inits:
                            self.ev(c, st)
            return st
        if k == "IfStmt":
            t, f = self.cond(n.children[0], st)
            a = self.stmt(n.children[1], t) if not t.bottom else None
            b = (self.stmt(n.children[2], f) if len(n.children) > 2 else f) if not f.bottom else None
            return Zone.join(a, b)
        if k in ("WhileStmt", "ForStmt"):
            if k == "ForStmt":
                init, cnd, inc, body = self._for_parts(n)
                if init is not None:
                    st = self.stmt(init, st) if init.kind in ("DeclStmt",) else (self.ev(init, st), st)[1]
            else:
                cnd, body, inc = n.children[0], n.children[1], None
            head = st.copy().close()
            was = self.recording
            self.recording = False
            for it in range(12):
                t, f = self.cond(cnd, head.copy()) if cnd is not None else (head.copy(), Zone(bottom=True))
                self._cont.append([])
                self._brk.append([])
                out = self.stmt(body, t) if not t.bottom else None
                conts = self._cont.pop()
                self._brk.pop()
                for c in conts:
                    out = Zone.join(out, c)
                if out is not None and inc is not None and not out.bottom:
                    self.ev(inc, out)
                new_head = Zone.join(st.copy(), out) if out is not None else st.copy()
                new_head.close()
                if new_head.leq(head):
                    break
                head = Zone.widen(head, new_head) if it >= 1 else new_head
            self.recording = was
            # final pass with the invariant, recording obligations
            t, f = self.cond(cnd, head.copy()) if cnd is not None else (head.copy(), Zone(bottom=True))
            self._cont.append([])
            self._brk.append([])
            out = self.stmt(body, t) if not t.bottom else None
            conts = self._cont.pop()
            brks = self._brk.pop()
            for c in conts:
                out = Zone.join(out, c)
            if out is not None and inc is not None and not out.bottom:
                self.ev(inc, out)
            res: Optional[Zone] = f if not f.bottom else None
            for b in brks:
                res = Zone.join(res, b)
            return res
        if k == "ReturnStmt":
            for c in n.children:
                self.ev(c, st)
            if not st.bottom:
                self.exits.append((st.copy().close(), n.line))
            return None
        if k == "ContinueStmt":
            if self._cont:
                self._cont[-1].append(st.copy())
            return None
        if k == "BreakStmt":
            if self._brk:
                self._brk[-1].append(st.copy())
            return None
        if k == "NullStmt":
            return st
        self.ev(n, st)
        return st

    def _is_int_type(self, t: Optional[str]) -> bool:
        t = (t or "").replace("const ", "").replace("volatile ", "").strip()
        return t in ("uint", "unsigned int", "int", "size_t")

    def _for_parts(self, n: CNode):
        # clang: ForStmt inner = [init, condvar(empty {}), cond, inc, body]; empty slots are dropped by the converter,
        # so identify by kind: last is the body, DeclStmt/assignment first.
        ch = list(n.children)
        body = ch[-1]
        rest = ch[:-1]
        init = cnd = inc = None
        if rest:
            init = rest[0]
        if len(rest) >= 2:
            cnd = rest[1]
        if len(rest) >= 3:
            inc = rest[2]
        return init, cnd, inc, body

    # -- driver -----------------------------------------------------------------------------------------------------
    def analyse_function(self, name: str, entry: Zone) -> List[Tuple[Zone, int]]:
        self.fn = name
        self.exits = []
        body = self.unit.body(name)
        self.find_aliases(body)
        out = self.stmt(body, entry.copy())
        if out is not None and not out.bottom:
            last = max((c.line for c in body.walk()), default=body.line)
            self.exits.append((out.close(), last))
        return list(self.exits)


def inv_disjuncts() -> List[Tuple[str, Zone]]:
    d1 = Zone()
    for v in ("length", "size"):
        d1.add(v, Z, 0)
        d1.add(Z, v, 0)
    d2 = Zone()
    d2.add(Z, "length", -1)  # length >= 1
    d2.add("length", "size", -1)  # length + 1 <= size
    d2.declare_unsigned("size")
    return [("empty (size = 0, length = 0)", d1.close()), ("initialised (1 <= length, length + 1 <= size)", d2.close())]


def satisfies_inv(z: Zone) -> bool:
    z.close()
    if z.bottom:
        return True
    d1 = z.entails("length", Z, 0) and z.entails("size", Z, 0)
    d2 = z.entails(Z, "length", -1) and z.entails("length", "size", -1)
    return d1 or d2


PUBLIC = ["insert", "root", "delete_events", "entry"]


def analyse_heap(unit: CUnit) -> Tuple[List[Obligation], Dict[str, object]]:
    an = HeapAnalyser(unit)
    obligations: List[Obligation] = []
    info: Dict[str, object] = {"functions": [], "subscripts": 0}
    missing = [f for f in PUBLIC if f not in unit.functions]
    if missing:
        raise AnalysisError(f"heap.c: functions {missing} not found")
    for fname in PUBLIC:
        params = unit.params(fname)
        for dname, d in inv_disjuncts():
            entry = d.copy()
            for p in params:
                fn_node = unit.functions[fname]
                for c in fn_node.children:
                    if c.kind == "ParmVarDecl" and c.props.get("name") == p and an._is_int_type(c.props.get("type")):
                        entry.declare_unsigned(p)
            exits = an.analyse_function(fname, entry)
            for z, line in exits:
                obligations.append(Obligation("R6.2-invariant-restored", fname, line, f"{fname} exit [{dname}]",
                                              satisfies_inv(z), z.describe(),
                                              "INV must hold again when the function returns"))
            info["functions"].append(f"{fname} [{dname}]: {len(exits)} exit(s)")
    # internal helpers under the join of their call-site states
    helpers = [f for f in an.call_states if f in unit.functions and f not in PUBLIC]
    for h in helpers:
        params = unit.params(h)
        entry: Optional[Zone] = None
        for z, args in an.call_states[h]:
            zz = z.copy()
            for p, a in zip(params, args):
                if p == "heap":
                    continue
                an.assign(zz, p, a)
            zz.close()
            # forget caller locals
            keep = {Z, "length", "size"} | set(params)
            for v in [v for v in zz.vars() if v not in keep]:
                zz.forget(v)
            entry = Zone.join(entry, zz)
        if entry is None:
            continue
        before = dict(an.modifies)
        an.modifies[h] = False
        an.analyse_function(h, entry)
        obligations.append(Obligation("R6.2-helper-preserves-shape", h, unit.functions[h].line, f"{h} leaves length/size unchanged",
                                      not an.modifies.get(h, False), entry.describe(),
                                      "the callers assume the helper changes only the entries"))
        info["functions"].append(f"{h} [join of {len(an.call_states[h])} call sites: {entry.describe()}]")
    obligations.extend(an.obligations)
    # A helper that itself changes length / size is outside the model (callers are analysed as if a helper touched the entries
    # only): nothing derived from that assumption may be reported as a violation -- the zone verdicts become undecided.
    shape_helpers = [h for h in helpers if an.modifies.get(h, False)]
    if shape_helpers:
        for o in obligations:
            if o.rule.startswith("R6.2") and o.ok is False:
                o.ok = None
                o.why = f"helper(s) {shape_helpers} change length / size: interprocedural effect not modelled; " + o.why
    # a function with a branch condition outside the zone domain is analysed without that condition: what could not be proved there
    # is undecided, not violated
    for o in obligations:
        if o.rule.startswith("R6.2") and o.ok is False and o.fn in an.imprecise:
            o.ok = None
            o.why = "a branch condition of this function is outside the zone domain (e.g. a pointer comparison); " + o.why
    # construct_heap establishes the empty disjunct: allocation by calloc (zeroed)
    ch = unit.functions.get("construct_heap")
    if ch is not None:
        calls = [text(n.children[0]) for n in ch.walk() if n.kind == "CallExpr"]
        obligations.append(Obligation("R6.2-constructor-establishes-inv", "construct_heap", ch.line, "calloc",
                                      "calloc" in calls and "malloc" not in calls, "", "the heap struct must start zeroed"))
    info["unhandled"] = an.unhandled
    return obligations, info
