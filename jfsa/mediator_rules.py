"""
Rules on the mediators (C17: R17.2, R17.3, R17.5;  C20: R20.1 sibling agreement of the two run loops).

The run loops are analysed with the must-dataflow walker: component-API calls are events; a fact SEEN(api) holds when the
call was made on every path of the current loop iteration.  Helpers of the mediator class are inlined, so splitting `run`
into methods does not change the verdict.
"""
import ast
from typing import Any, Dict, List, Optional, Sequence, Set, Tuple

from .core import IdiomNotRecognised, AnalysisError, Loc, Report, norm
from .flow import Ctx, FlowWalker, State
from .handlers import FnRef, HandlerFacts, concrete_handlers, implementations
from .inifront import to_snake_case
from .guards import path_conditions
from .normalize import canon
from .resolve import Resolver
from .pyfront import ClassInfo, Program, body_without_docstring, dotted, param_names, self_attr

API = ["extract_active_global_state", "get_event_handlers_to_run", "extract_from_global_state", "push_event",
       "get_succeeding_event", "insert_into_global_state", "get_trashable_events", "trash_event"]
# must-precede table: api -> apis that must have been seen on every path of the same iteration
REQUIRES = {
    "get_event_handlers_to_run": ["extract_active_global_state"],
    "push_event": ["get_event_handlers_to_run"],
    "get_succeeding_event": ["get_event_handlers_to_run"],
    "OUT_STATE": ["get_succeeding_event"],
    "insert_into_global_state": ["get_succeeding_event", "OUT_STATE"],
    "get_trashable_events": ["insert_into_global_state"],
    "trash_event": ["insert_into_global_state", "get_trashable_events"],
    "MEDIATE": ["insert_into_global_state", "get_trashable_events"],
}


def mediator_classes(prog: Program) -> List[ClassInfo]:
    ms = [c for c in prog.subclasses("Mediator") if prog.is_concrete(c)]
    if len(ms) < 2:
        raise AnalysisError(f"expected the single- and the multi-process mediator, found {[m.name for m in ms]}")
    return sorted(ms, key=lambda c: c.name)


class RunLoopClient:
    def __init__(self, prog: Program, cls: ClassInfo, rep: Report, rule_prefix: str) -> None:
        self.prog, self.cls, self.rep, self.rule_prefix = prog, cls, rep, rule_prefix
        self.seen_events: Dict[str, int] = {}
        self.sequence: List[str] = []
        self._reported: Set[Tuple[str, str]] = set()
        self._resolvers: Dict[int, Resolver] = {}
        base = prog.class_named("Mediator")
        self.mediating_attr = self._dict_attr(base, "mediate_")
        self.arguments_attr = self._dict_attr(base, "get_arguments_")

    def _dict_attr(self, base: ClassInfo, prefix: str) -> str:
        init = base.methods.get("__init__")
        if init:
            for n in ast.walk(init):
                if isinstance(n, ast.Assign) and self_attr(n.targets[0]) and isinstance(n.value, ast.Call) \
                        and n.value.args and isinstance(n.value.args[0], ast.Constant) and n.value.args[0].value == prefix:
                    return self_attr(n.targets[0])
        raise IdiomNotRecognised(f"Mediator.__init__: dictionary of '{prefix}*' methods not found")

    def events(self, node: ast.AST, ctx: Ctx) -> List[Any]:
        out: List[Any] = []
        if isinstance(node, ast.Call):
            f = node.func
            if isinstance(f, ast.Attribute) and f.attr in API and not (isinstance(f.value, ast.Name) and f.value.id == "self"):
                out.append(("API", f.attr, node))
            if isinstance(f, ast.Attribute) and f.attr == "send_out_state":
                out.append(("API", "OUT_STATE", node))
            # self._mediating_methods.get(handler, default)()  or  self._mediating_methods[handler]()  -- also when the looked-up
            # method was bound to a local first
            if isinstance(f, ast.Name) and ctx.fn is not None:
                key = id(ctx.fn.fn)
                if key not in self._resolvers:
                    self._resolvers[key] = Resolver(ctx.fn.fn)
                f = self._resolvers[key].res(f)
            if isinstance(f, ast.Call) and isinstance(f.func, ast.Attribute) and f.func.attr == "get" \
                    and self_attr(f.func.value) == self.mediating_attr:
                out.append(("API", "MEDIATE", node))
            if isinstance(f, ast.Subscript) and self_attr(f.value) == self.mediating_attr:
                out.append(("API", "MEDIATE", node))
        if isinstance(node, ast.Subscript) and isinstance(node.ctx, ast.Load) and self_attr(node.value) == "_out_states":
            out.append(("API", "OUT_STATE", node))
        # multi-process: the out-state received from the worker and committed without being parked in the table
        if isinstance(node, ast.Assign) and len(node.targets) == 1 and isinstance(node.targets[0], ast.Name) and isinstance(node.value, ast.Call) \
                and isinstance(node.value.func, ast.Attribute) and node.value.func.attr == "recv" and ctx.fn is not None:
            committed = {norm(c.args[0]) for c in ast.walk(ctx.fn.fn) if isinstance(c, ast.Call) and isinstance(c.func, ast.Attribute)
                         and c.func.attr == "insert_into_global_state" and c.args}
            if node.targets[0].id in committed:
                out.append(("API", "OUT_STATE", node))
        return out

    def inline(self, call: ast.Call, ctx: Ctx) -> Sequence[FnRef]:
        f = call.func
        if isinstance(f, ast.Attribute) and isinstance(f.value, ast.Name) and f.value.id == "self":
            return implementations(self.prog, self.cls, f.attr)
        return []

    def transfer(self, state: State, ev: Any, ctx: Ctx) -> State:
        _, api, node = ev
        self.seen_events[api] = self.seen_events.get(api, 0) + 1
        if api not in self.sequence:
            self.sequence.append(api)
        for need in REQUIRES.get(api, []):
            ok = need in state
            key = (api, need)
            if ok and key in self._reported:
                continue
            self._reported.add(key)
            file, line, qual = ctx.where()
            self.rep.ob(f"{self.rule_prefix}-order", ok, Loc(file, line, f"{self.cls.name}: {ctx.path()}"),
                        f"{api} after {need}",
                        f"`{api}` is reached on a path of the run-loop iteration on which `{need}` has not happened "
                        f"yet: the commit step must be out-state -> insert into global state -> trash -> mediating "
                        f"method (a sample written before the insert shows the configuration before the event)")
        return frozenset(set(state) | {api})


def check_trash_loops(prog: Program, rep: Report, rule: str) -> int:
    """
    Every event handler that the activator lists as trashable is trashed in the scheduler: on every path through the body of the
    loop over `get_trashable_events(..)` that ends normally (also by `continue` / `break`, or `return` in a helper that is the body)
    `<scheduler>.trash_event(<handler>)` is called.  A path that skips it leaves a candidate in the scheduler that the activator
    already filed as not running: it is later committed although its trajectory has changed.
    """
    from .normalize import canon
    n = 0
    for cls in mediator_classes(prog):
        r = prog.resolve_method(cls, "run")
        if r is None:
            continue
        run = canon(prog, cls, r[1])
        R = Resolver(run)
        for lp in [x for x in ast.walk(run) if isinstance(x, ast.For)]:
            it = R.res(lp.iter) if isinstance(lp.iter, ast.Name) else lp.iter
            if "get_trashable_events" not in norm(it) or not isinstance(lp.target, ast.Name):
                continue
            var = lp.target.id
            body = lp.body
            # the body moved into a helper: `self._h(var)` as the only statement
            if len(body) == 1 and isinstance(body[0], ast.Expr) and isinstance(body[0].value, ast.Call) and isinstance(body[0].value.func, ast.Attribute) \
                    and isinstance(body[0].value.func.value, ast.Name) and body[0].value.func.value.id == "self" \
                    and len(body[0].value.args) == 1 and norm(body[0].value.args[0]) == var and body[0].value.func.attr != "trash_event":
                hr = prog.resolve_method(cls, body[0].value.func.attr)
                if hr is not None:
                    h = canon(prog, cls, hr[1])
                    ps = [a.arg for a in h.args.args if a.arg != "self"]
                    if len(ps) == 1:
                        var, body = ps[0], body_without_docstring(h)

            def trashes(st: ast.stmt) -> bool:
                return isinstance(st, ast.Expr) and isinstance(st.value, ast.Call) and isinstance(st.value.func, ast.Attribute) \
                    and st.value.func.attr == "trash_event" and len(st.value.args) == 1 and norm(st.value.args[0]) == var

            def outcomes(stmts: List[ast.stmt], done: bool) -> Set[str]:
                """how the block can end: 'fall+' / 'fall-' (falls through, trashed / not yet), 'exit+' / 'exit-' (continue, break, return)"""
                states = {done}
                out: Set[str] = set()
                for st in stmts:
                    nxt: Set[bool] = set()
                    for d in states:
                        if trashes(st):
                            nxt.add(True)
                        elif isinstance(st, (ast.Continue, ast.Break, ast.Return)):
                            out.add("exit+" if d else "exit-")
                        elif isinstance(st, ast.Raise):
                            pass
                        elif isinstance(st, ast.If):
                            for branch in (st.body, st.orelse):
                                for o in outcomes(branch, d):
                                    if o.startswith("fall"):
                                        nxt.add(o.endswith("+"))
                                    else:
                                        out.add(o)
                        elif isinstance(st, (ast.For, ast.While, ast.Try, ast.With)):
                            inner = [b for fld in ("body", "orelse", "finalbody") for b in (getattr(st, fld, None) or [])]
                            d2 = d or any(trashes(x) for x in ast.walk(st) if isinstance(x, ast.stmt)) and not isinstance(st, (ast.For, ast.While))
                            if any(isinstance(x, ast.Return) for b in inner for x in ast.walk(b)):
                                out.add("exit+" if d else "exit-")
                            nxt.add(d2)
                        else:
                            nxt.add(d)
                    states = nxt
                    if not states:
                        break
                for d in states:
                    out.add("fall+" if d else "fall-")
                return out
            res = outcomes(body, False)
            n += 1
            bad = sorted(o for o in res if o.endswith("-"))
            rep.ob(rule, not bad, Loc(cls.file, lp.lineno, f"{cls.name}.run"), f"trash loop over get_trashable_events: paths end {sorted(res)}",
                   f"a path through the trash loop ends without `trash_event({var})` ({bad}): the scheduler keeps a candidate of a handler "
                   f"that the activator already filed as not running")
    return n


def check_run_loops(prog: Program, rep: Report, rule_prefix: str) -> Dict[str, List[str]]:
    sequences: Dict[str, List[str]] = {}
    for cls in mediator_classes(prog):
        r = prog.resolve_method(cls, "run")
        if r is None:
            raise AnalysisError(f"{cls.name}.run not found")
        ref = FnRef(*r)
        loops = [s for s in body_without_docstring(ref.fn) if isinstance(s, ast.While)]
        client = RunLoopClient(prog, cls, rep, rule_prefix)
        w = FlowWalker(client.events, client.transfer, client.inline)
        w.run(ref, frozenset())
        missing = [a for a in API + ["OUT_STATE", "MEDIATE"] if a not in client.seen_events]
        rep.ob(f"{rule_prefix}-complete", not missing, Loc(cls.file, ref.fn.lineno, f"{cls.name}.run"),
               f"{cls.name}.run uses every component API", f"run loop never calls {missing}")
        sequences[cls.name] = client.sequence
        # the scheduler is asked for the succeeding event once per leg, after all candidates of the leg were pushed: the question is
        # not a pure peek (the scheduler records what it handed out and lazily deletes trashed entries), and an answer obtained
        # while candidates are still arriving is not the minimum of the leg
        sites: List[Tuple[int, ast.Call, str]] = []

        def scan(fn_: ast.AST, depth: int, seen: Tuple[str, ...], qual: str) -> None:
            def visit(n: ast.AST, d: int) -> None:
                for c in ast.iter_child_nodes(n):
                    if isinstance(c, (ast.FunctionDef, ast.Lambda)):
                        continue
                    d2 = d + 1 if isinstance(c, (ast.For, ast.While, ast.ListComp, ast.GeneratorExp, ast.SetComp, ast.DictComp)) else d
                    if isinstance(c, ast.Call) and isinstance(c.func, ast.Attribute):
                        if c.func.attr == "get_succeeding_event" and not (isinstance(c.func.value, ast.Name) and c.func.value.id == "self"):
                            sites.append((d, c, qual))
                        elif isinstance(c.func.value, ast.Name) and c.func.value.id == "self" and c.func.attr not in seen:
                            for impl in implementations(prog, cls, c.func.attr):
                                scan(impl.fn, d, seen + (c.func.attr,), f"{cls.name}.{impl.fn.name}")
                    visit(c, d2)
            visit(fn_, depth)
        scan(ref.fn, 0, ("run",), f"{cls.name}.run")
        if sites:
            depth_ok = all(d <= 1 for d, _, _ in sites)
            rep.ob(f"{rule_prefix}-succeeding-event-once", len(sites) == 1 and depth_ok,
                   Loc(cls.file, sites[0][1].lineno if len(sites) == 1 else sites[-1][1].lineno, sites[-1][2]),
                   f"{len(sites)} call site(s) of get_succeeding_event, loop depth {[d for d, _, _ in sites]}",
                   "the scheduler must be asked for the succeeding event exactly once per iteration of the run loop (not inside an inner loop "
                   "over arriving candidates): the call records the returned time and deletes trashed entries, it is not a pure peek")
    check_trash_loops(prog, rep, f"{rule_prefix}-trash-loop-trashes-every-handler")
    return sequences


def check_argument_methods(prog: Program, rep: Report) -> None:
    """R17.2 / R17.3 (mediating methods)."""
    med = prog.class_named("Mediator")
    file = med.file
    for name in ("get_arguments_sampling_event_handler", "get_arguments_end_of_run_event_handler"):
        fn = med.methods.get(name)
        loc = Loc(file, fn.lineno if fn else med.node.lineno, f"Mediator.{name}")
        if fn is None:
            rep.ob("R17.2-active-state-argument", None, loc, name, "method not found")
            continue
        rets = [n for n in ast.walk(fn) if isinstance(n, ast.Return)]
        ok = len(rets) == 1 and isinstance(rets[0].value, ast.Tuple) and len(rets[0].value.elts) == 1 \
            and isinstance(rets[0].value.elts[0], ast.Call) and isinstance(rets[0].value.elts[0].func, ast.Attribute) \
            and rets[0].value.elts[0].func.attr == "extract_active_global_state" and not rets[0].value.elts[0].args
        rep.ob("R17.2-active-state-argument", ok, loc, rets[0] if rets else name,
               "the out-state argument of a sampling / end-of-run handler must be exactly the extracted active global "
               "state (all independently moving units), so that every moving unit is time-sliced to the sample time")
    for name, must_raise in (("mediate_sampling_event_handler", False), ("mediate_end_of_run_event_handler", True)):
        fn = med.methods.get(name)
        loc = Loc(file, fn.lineno if fn else med.node.lineno, f"Mediator.{name}")
        if fn is None:
            rep.ob("R17.3-fresh-global-state", None, loc, name, "method not found")
            continue
        fn = canon(prog, med, fn, public=True)   # helpers (also public sibling methods) inlined: a delegated write is still this method's write
        R = Resolver(fn)
        writes = [n for n in ast.walk(fn) if isinstance(n, ast.Call) and isinstance(n.func, ast.Attribute)
                  and n.func.attr == "write"]
        for wcall in writes:
            arg = R.res(wcall.args[1]) if len(wcall.args) > 1 else None
            ok = isinstance(arg, ast.Call) and isinstance(arg.func, ast.Attribute) and arg.func.attr == "extract_global_state"
            rep.ob("R17.3-fresh-global-state", ok, Loc(file, wcall.lineno, f"Mediator.{name}"), wcall,
                   "the output handler must receive a global state extracted after the commit (a fresh "
                   "extract_global_state() call in the mediating method)")
            a0 = R.res(wcall.args[0]) if wcall.args else None
            ok0 = isinstance(a0, ast.Attribute) and a0.attr == "output_handler"
            rep.ob("R17.3-output-handler-of-event", ok0, Loc(file, wcall.lineno, f"Mediator.{name}"), wcall,
                   "the sample must go to the output handler named by the committed event handler")
        if not must_raise:
            rep.ob("R17.3-sample-written", len(writes) >= 1, loc, name, "the sampling mediating method writes nothing")
        else:
            body = body_without_docstring(fn)

            def every_path_raises(stmts: List[ast.stmt]) -> bool:
                for i, st in enumerate(stmts):
                    if isinstance(st, ast.Raise):
                        return st.exc is not None and "EndOfRun" in norm(st.exc)
                    if isinstance(st, ast.Return):
                        return False
                    if isinstance(st, ast.If):
                        rest = stmts[i + 1:]
                        return every_path_raises(list(st.body) + rest) and every_path_raises(list(st.orelse) + rest)
                    if isinstance(st, (ast.For, ast.While, ast.Try, ast.With)):
                        if any(isinstance(x, (ast.Return, ast.Break)) for x in ast.walk(st)):
                            return False
                return False
            ok = every_path_raises(body)
            rep.ob("R17.3-end-of-run-raises", ok, loc, body[-1] if body else name,
                   "the end-of-run mediating method must raise EndOfRun on every path, after the optional final write")
            for wcall in writes:
                conds = path_conditions(body, wcall) or []
                ok = all(c.endswith(".output_handler is not None") for c in conds)
                rep.ob("R17.3-final-write-guard", ok, Loc(file, wcall.lineno, f"Mediator.{name}"),
                       " and ".join(conds) or "unconditional", "the final write may only be skipped when no output handler is configured")


def base_names(prog: Program, cls: ClassInfo) -> Set[str]:
    out: Set[str] = set()
    for b, bn in zip(cls.bases, cls.base_names):
        out.add(bn.split(".")[-1])
        if b is not None:
            out |= base_names(prog, b)
    return out


def resolve_reflective(prog: Program, med_methods: Dict[str, Any], handler: ClassInfo, prefix: str) -> Tuple[List[str], str]:
    """Mirror of Mediator._construct_methods_dictionary: returns (method names found, how)."""
    direct = prefix + to_snake_case(handler.name)
    if direct in med_methods:
        return [direct], "class name"
    cands = sorted({prefix + to_snake_case(b) for b in base_names(prog, handler)} & set(med_methods))
    return cands, "base class names"


def check_reflection(prog: Program, rep: Report) -> None:
    """R17.5: reflection dispatch resolves uniquely with matching arities."""
    med = prog.class_named("Mediator")
    med_methods = prog.all_methods(med)
    for h in concrete_handlers(prog):
        facts = HandlerFacts(prog, h)
        loc = Loc(h.file, h.node.lineno, h.name)
        n_out = facts.out_state_params
        names, how = resolve_reflective(prog, med_methods, h, "get_arguments_")
        if n_out == 0:
            rep.ob("R17.5-get-arguments-unique", len(names) <= 1, loc, f"{h.name}: {names}",
                   f"ambiguous get_arguments_* methods for a handler without out-state arguments: {names}")
        else:
            rep.ob("R17.5-get-arguments-unique", len(names) == 1, loc, f"{h.name}: {names}",
                   f"send_out_state of {h.name} takes {n_out} argument(s) but {len(names)} get_arguments_* methods "
                   f"resolve through its class / base names ({names}): "
                   f"{'MediatorError at construction' if len(names) > 1 else 'KeyError when its event is committed'}")
            if len(names) == 1:
                owner, fn = med_methods[names[0]]
                # arity of the returned tuple
                rets = [n for n in ast.walk(fn) if isinstance(n, ast.Return) and n.value is not None]
                arities = set()
                for r in rets:
                    v = r.value
                    if isinstance(v, ast.Tuple):
                        arities.add(len(v.elts))
                    elif isinstance(v, ast.Call) and isinstance(v.func, ast.Name) and v.func.id == "tuple":
                        arities.add(None)  # variable length
                    else:
                        arities.add(None)
                fixed = {a for a in arities if a is not None}
                rep.ob("R17.5-arity-out-state", not fixed or fixed == {n_out}, Loc(owner.file, fn.lineno, f"Mediator.{fn.name}"),
                       f"{fn.name} -> {h.name}.send_out_state",
                       f"{fn.name} returns {sorted(fixed)} value(s) but {h.name}.send_out_state takes {n_out}")
                # parameters of get_arguments vs the argument list returned by send_event_time
                lens = set()
                for ref in facts.send_event_time:
                    for r in [n for n in ast.walk(ref.fn) if isinstance(n, ast.Return) and n.value is not None]:
                        v = r.value
                        if isinstance(v, ast.Tuple) and len(v.elts) == 2 and isinstance(v.elts[1], ast.List):
                            lens.add(len(v.elts[1].elts))
                        elif isinstance(v, ast.Tuple) and len(v.elts) == 2:
                            lens.add(None)
                        else:
                            lens.add(0 if not isinstance(v, ast.Call) else None)
                params = param_names(fn)
                variadic = fn.args.vararg is not None
                fixed_l = {x for x in lens if x is not None}
                if fixed_l and not variadic:
                    rep.ob("R17.5-arity-arguments", fixed_l == {len(params)}, Loc(owner.file, fn.lineno, f"Mediator.{fn.name}"),
                           f"{h.name}.send_event_time -> {fn.name}",
                           f"{h.name}.send_event_time hands {sorted(fixed_l)} out-state argument(s) to {fn.name}, which takes "
                           f"{len(params)}")
        kinds = [k for k in ("SamplingEventHandler", "EndOfRunEventHandler", "DumpingEventHandler") if prog.is_subclass(h, k)]
        mnames, _ = resolve_reflective(prog, med_methods, h, "mediate_")
        if kinds:
            rep.ob("R17.5-mediate-unique", len(mnames) == 1, loc, f"{h.name}: {mnames}",
                   f"{h.name} is a {kinds[0]} but {len(mnames)} mediate_* methods resolve ({mnames}): its samples / "
                   f"dumps / end of run would silently never happen")
            if len(mnames) == 1:
                want = "mediate_" + to_snake_case(kinds[0])
                rep.ob("R17.5-mediate-kind", mnames[0] == want or mnames[0] == "mediate_" + to_snake_case(h.name), loc,
                       f"{h.name} -> {mnames[0]}", f"{h.name} resolves to {mnames[0]}, expected {want}")
        else:
            rep.ob("R17.5-mediate-unique", len(mnames) == 0, loc, f"{h.name}: {mnames}",
                   f"{h.name} unexpectedly resolves mediating methods {mnames}")
