"""
Handler protocol analysis: for one concrete event-handler class, walks send_event_time followed by send_out_state (self
helpers inlined through the MRO, role-identified primitives kept atomic) and emits obligations for
  R7.1  slice before velocity write (K1 clear/replace/in-place, K2 grant with a time stamp),
  R8.5  handlers mutate only freshly stored in-states,
  R12.1 register + commit pairing for leaf-velocity writes,  R12.3 velocity/time-stamp co-write,
  R17.1 sampling / end-of-run out-state stores, slices everything and changes no velocity.
Facts are must-facts (join = intersection); asserts are never relied upon.
"""
import ast
from typing import Any, Dict, FrozenSet, List, Optional, Sequence, Set, Tuple

from .core import IdiomNotRecognised, AnalysisError, Loc, Report, norm
from .flow import Ctx, FlowWalker, State
from .handlers import (FnRef, HandlerFacts, implementations, is_time_slice_routine, parent_map, stores)
from .normalize import canon
from .pyfront import ClassInfo, Program, body_without_docstring, dotted, param_names, self_attr


class Roles:
    """Role-identified primitive methods of a handler class (by structure; names are never used)."""

    def __init__(self, prog: Program, cls: ClassInfo) -> None:
        self.prog, self.cls = prog, cls
        methods = prog.all_methods(cls)
        self.store: Set[str] = set()
        self.state_attr: Optional[str] = None
        self.unit_slice: Set[str] = set()
        self.subtree_slice: Set[str] = set()
        self.slice_all: Set[str] = set()
        self.register: Set[str] = set()
        self.commit: Set[str] = set()
        self.commit_subtree: Set[str] = set()
        self.change_dict: Optional[str] = None
        for name, (owner, fn) in methods.items():
            ps = param_names(fn)
            for n in ast.walk(fn):
                if isinstance(n, ast.Assign) and len(n.targets) == 1 and self_attr(n.targets[0]) and len(ps) == 1 \
                        and isinstance(n.value, ast.Name) and n.value.id == ps[0] and len(body_without_docstring(fn)) == 1:
                    self.store.add(name)
                    self.state_attr = self_attr(n.targets[0])
            if is_time_slice_routine(fn):
                self.unit_slice.add(name)
        if self.state_attr is None:
            raise AnalysisError(f"{cls.name}: no in-state store routine found (self.<state> = <parameter>)")
        if not self.unit_slice:
            raise IdiomNotRecognised(f"{cls.name}: time-slice routine not found by role")
        # subtree slice: one parameter, calls a slice routine, recursion over .children
        changed = True
        while changed:
            changed = False
            for name, (owner, fn) in methods.items():
                if name in self.unit_slice | self.subtree_slice | self.slice_all:
                    continue
                ps = param_names(fn)
                called = {c.func.attr for c in ast.walk(fn) if isinstance(c, ast.Call) and isinstance(c.func, ast.Attribute)
                          and isinstance(c.func.value, ast.Name) and c.func.value.id == "self"}
                if not called & (self.unit_slice | self.subtree_slice):
                    continue
                others = called - self.unit_slice - self.subtree_slice - {name}
                if others:
                    continue
                has_store = any(True for _ in stores(fn))
                if has_store:
                    continue
                if len(ps) == 1:
                    self.subtree_slice.add(name)
                    changed = True
                elif len(ps) == 0 and any(isinstance(n, ast.For) and (self_attr(n.iter) == self.state_attr or (
                        isinstance(n.iter, ast.Call) and norm(n.iter.func) == "__subtree_nodes__" and n.iter.args
                        and self_attr(n.iter.args[0]) == self.state_attr)) for n in ast.walk(fn)):
                    self.slice_all.add(name)
                    changed = True
        # register / commit: by the dictionary of pending non-leaf changes; judged on the canonical form of each method (its
        # private helpers inlined), so that a routine split into helpers keeps its role
        slicers = self.unit_slice | self.subtree_slice | self.slice_all
        canonical = {name: canon(prog, cls, fn, exclude=slicers) for name, (owner, fn) in methods.items()}
        for name, fn in canonical.items():
            ps = param_names(fn)
            attrs = {n.attr for n in ast.walk(fn) if isinstance(n, ast.Attribute)}
            sub_stores = [self_attr(t.value) for n in ast.walk(fn) if isinstance(n, ast.Assign) for t in n.targets
                          if isinstance(t, ast.Subscript) and self_attr(t.value)]
            if len(ps) == 2 and {"parent", "weight"} <= attrs and sub_stores:
                self.register.add(name)
                self.change_dict = sub_stores[0]
        # a caller into which the register routine was inlined looks like one too: keep the innermost candidates
        def self_calls(fn: ast.AST) -> Set[str]:
            return {c.func.attr for c in ast.walk(fn) if isinstance(c, ast.Call) and isinstance(c.func, ast.Attribute)
                    and isinstance(c.func.value, ast.Name) and c.func.value.id == "self"}
        self.register = {n for n in self.register if not (self_calls(methods[n][1]) & (self.register - {n}))}
        if self.register:
            canonical = {name: canon(prog, cls, fn, exclude=slicers | self.register) for name, (owner, fn) in methods.items()}
        if self.change_dict:
            for name, fn in canonical.items():
                ps = param_names(fn)
                resets = [n for n in ast.walk(fn) if isinstance(n, ast.Assign) and len(n.targets) == 1
                          and self_attr(n.targets[0]) == self.change_dict and isinstance(n.value, ast.Dict)
                          and not n.value.keys]
                if len(ps) == 0 and resets and name != "__init__":
                    self.commit.add(name)
            self.commit = {n for n in self.commit if not (self_calls(methods[n][1]) & (self.commit - {n}))}
            canonical = {name: canon(prog, cls, fn, exclude=slicers | self.register | self.commit) for name, (owner, fn) in methods.items()}
            for name, fn in canonical.items():
                ps = param_names(fn)
                reads = [n for n in ast.walk(fn) if self_attr(n) == self.change_dict]
                if len(ps) == 1 and reads and name not in self.register and any(f == "velocity" for _, f, *_ in stores(fn)):
                    self.commit_subtree.add(name)
            self.commit_subtree = {n for n in self.commit_subtree if not (self_calls(methods[n][1]) & (self.commit_subtree - {n}))}
            canonical = {name: canon(prog, cls, fn, exclude=slicers | self.register | self.commit | self.commit_subtree)
                         for name, (owner, fn) in methods.items()}
        self.canonical = canonical

    def part_of(self, group: Set[str]) -> Set[str]:
        """the routines of `group` together with the private helpers that are called from nowhere else"""
        methods = self.prog.all_methods(self.cls)
        callers: Dict[str, Set[str]] = {}
        for name, (owner, fn) in methods.items():
            for c in ast.walk(fn):
                if isinstance(c, ast.Call) and isinstance(c.func, ast.Attribute) and isinstance(c.func.value, ast.Name) \
                        and c.func.value.id == "self" and c.func.attr in methods:
                    callers.setdefault(c.func.attr, set()).add(name)
        out = set(group)
        changed = True
        while changed:
            changed = False
            for name in methods:
                if name not in out and name.startswith("_") and callers.get(name) and callers[name] <= out | {name}:
                    out.add(name)
                    changed = True
        return out

    def atomic(self) -> Set[str]:
        return self.store | self.unit_slice | self.subtree_slice | self.slice_all | self.register | self.commit | \
            self.commit_subtree


def _is_copy_of(e: ast.AST) -> ast.AST:
    """Strip copy(x) / x.copy() / list(x) / deepcopy(x)."""
    while True:
        if isinstance(e, ast.Call) and isinstance(e.func, ast.Name) and e.func.id in ("copy", "deepcopy", "list") \
                and len(e.args) == 1:
            e = e.args[0]
        elif isinstance(e, ast.Call) and isinstance(e.func, ast.Attribute) and e.func.attr == "copy" and not e.args:
            e = e.func.value
        else:
            return e


class Block:
    """Statement-list context for same-block pairing."""


class HandlerProtocol:
    def __init__(self, prog: Program, cls: ClassInfo, rep: Report, rules: Sequence[str]) -> None:
        self.prog, self.cls, self.rep, self.rules = prog, cls, rep, set(rules)
        self.facts = HandlerFacts(prog, cls)
        self.roles = Roles(prog, cls)
        self.is_leaves = bool(self.roles.register and self.roles.commit)
        self.init_event_time = self._constructor_event_time()
        self.event_time_assigned_outside_init = self._event_time_assigned_outside_init()
        self._alias_cache: Dict[int, Dict[str, ast.AST]] = {}
        self._seen: Set[Tuple[str, str, str, str]] = set()

    # -- helpers ----------------------------------------------------------------------------------------------------
    def _constructor_event_time(self) -> Optional[str]:
        for c in self.prog.mro(self.cls):
            init = c.methods.get("__init__")
            if init is None:
                continue
            vals = [norm(n.value) for n in ast.walk(init) if isinstance(n, ast.Assign) and len(n.targets) == 1
                    and self_attr(n.targets[0]) == "_event_time" and not (isinstance(n.value, ast.Constant)
                                                                          and n.value.value is None)]
            if vals:
                return vals[-1]
        return None

    def _event_time_assigned_outside_init(self) -> bool:
        for name, (owner, fn) in self.prog.all_methods(self.cls).items():
            if name == "__init__":
                continue
            for n in ast.walk(fn):
                if isinstance(n, (ast.Assign, ast.AugAssign)):
                    ts = n.targets if isinstance(n, ast.Assign) else [n.target]
                    if any(self_attr(t) == "_event_time" for t in ts):
                        return True
        return False

    def aliases(self, fn: ast.FunctionDef) -> Dict[str, ast.AST]:
        """local name -> expression it was assigned from (single assignment only)."""
        if id(fn) not in self._alias_cache:
            counts: Dict[str, int] = {}
            vals: Dict[str, ast.AST] = {}
            for n in ast.walk(fn):
                if isinstance(n, ast.Assign) and len(n.targets) == 1 and isinstance(n.targets[0], ast.Name):
                    counts[n.targets[0].id] = counts.get(n.targets[0].id, 0) + 1
                    vals[n.targets[0].id] = n.value
            self._alias_cache[id(fn)] = {k: v for k, v in vals.items() if counts[k] == 1}
        return self._alias_cache[id(fn)]

    def cnode_of(self, recv: ast.AST, fn: ast.FunctionDef) -> Optional[str]:
        """If the unit expression `recv` is syntactically C.value (directly or through one local alias) return norm(C)."""
        if isinstance(recv, ast.Attribute) and recv.attr == "value":
            return norm(recv.value)
        if isinstance(recv, ast.Name):
            v = self.aliases(fn).get(recv.id)
            if isinstance(v, ast.Attribute) and v.attr == "value":
                return norm(v.value)
        return None

    def ob(self, rule: str, ok: Optional[bool], ctx: Ctx, construct: Any, msg: str) -> None:
        if rule.split("-")[0] not in self.rules:
            return
        file, line, qual = ctx.where()
        key = (rule, qual, norm(construct), self.cls.name)
        # the same helper statement is reached from many handlers: key the obligation by handler class as well
        if key in self._seen:
            if ok is not False:
                return
        self._seen.add(key)
        self.rep.ob(rule, ok, Loc(file, line, f"{self.cls.name}: {ctx.path()}"), construct, msg)

    # -- walker client ----------------------------------------------------------------------------------------------
    def events(self, node: ast.AST, ctx: Ctx) -> List[Any]:
        out: List[Any] = []
        if isinstance(node, ast.Call) and isinstance(node.func, ast.Attribute) and isinstance(node.func.value, ast.Name) \
                and node.func.value.id == "self":
            m = node.func.attr
            r = self.roles
            if m in r.store:
                out.append(("STORE", node))
            elif m in r.slice_all:
                out.append(("SLICE_ALL", node))
            elif m in r.unit_slice and node.args:
                out.append(("SLICE_UNIT", node, norm(node.args[0])))
            elif m in r.subtree_slice and node.args:
                out.append(("SLICE_UNIT", node, norm(node.args[0]) + ".value"))
            elif m in r.register and node.args:
                out.append(("REGISTER", node, norm(node.args[0])))
            elif m in r.commit:
                out.append(("COMMIT", node))
        if isinstance(node, (ast.Assign, ast.AugAssign, ast.AnnAssign)):
            targets = node.targets if isinstance(node, ast.Assign) else [node.target]
            for t in targets:
                if self_attr(t) == "_event_time":
                    out.append(("SET_TIME", node))
                if self_attr(t) == self.roles.state_attr and not (isinstance(getattr(node, "value", None), ast.Constant)):
                    if ctx.fn.fn.name not in self.roles.store:
                        out.append(("STORE", node))
            for stmt, field, recv, elementwise, value in stores(node):
                if stmt is node:
                    out.append(("W", node, field, recv, elementwise, value))
        if isinstance(node, ast.Return):
            out.append(("RETURN", node))
        if isinstance(node, ast.For) and self._slices_whole_state(node, ctx):
            out.append(("SLICE_ALL", node))
        return out

    def _state_aliases(self, fn: ast.AST) -> Set[str]:
        """names whose value is stored as the handler's state in this function (`self.<state> = name`)"""
        return {n.value.id for n in ast.walk(fn) if isinstance(n, ast.Assign) and len(n.targets) == 1
                and self_attr(n.targets[0]) == self.roles.state_attr and isinstance(n.value, ast.Name)}

    def _slices_whole_state(self, loop: ast.For, ctx: Ctx) -> bool:
        """`for c in <state>: self.<slice the subtree of>(c)` (or a traversal of all nodes of the state slicing each unit) written
        out instead of calling the slice-all routine"""
        it = loop.iter
        all_nodes = isinstance(it, ast.Call) and norm(it.func) == "__subtree_nodes__" and len(it.args) == 1
        root = it.args[0] if all_nodes else it
        over_state = self_attr(root) == self.roles.state_attr or (isinstance(root, ast.Name) and root.id in self._state_aliases(ctx.fn.fn))
        body = [s for s in loop.body if not isinstance(s, (ast.Pass, ast.Assert))]
        if not over_state or len(body) != 1 or loop.orelse or not isinstance(loop.target, ast.Name):
            return False
        c = body[0].value if isinstance(body[0], ast.Expr) else None
        if not (isinstance(c, ast.Call) and isinstance(c.func, ast.Attribute) and isinstance(c.func.value, ast.Name) and c.func.value.id == "self"
                and len(c.args) == 1):
            return False
        if all_nodes:
            return c.func.attr in self.roles.unit_slice and norm(c.args[0]) == f"{loop.target.id}.value"
        return c.func.attr in self.roles.subtree_slice and norm(c.args[0]) == loop.target.id

    def inline(self, call: ast.Call, ctx: Ctx) -> Sequence[FnRef]:
        f = call.func
        if isinstance(f, ast.Name) and ctx.fn is not None:
            # a function of the package called by name (e.g. a helper extracted to module level): followed like a private method
            mod_ = ctx.fn.owner.module
            r_ = self.prog.resolve_name(mod_, f.id)
            if r_ is None and getattr(ctx.fn, "orig", None) is not None:
                for c_ in self.prog.mro(self.cls):
                    r_ = self.prog.resolve_name(c_.module, f.id)
                    if r_ is not None:
                        break
            if isinstance(r_, tuple) and len(r_) == 3 and r_[0] == "func" and isinstance(r_[2], ast.FunctionDef) \
                    and r_[1].file.startswith("jellyfysh/event_handler/") and r_[2] is not ctx.fn.orig:
                cache = self.__dict__.setdefault("_module_refs", {})
                if id(r_[2]) not in cache:
                    cache[id(r_[2])] = FnRef(ctx.fn.owner, r_[2])
                return [cache[id(r_[2])]]
            return []
        if isinstance(f, ast.Attribute):
            if isinstance(f.value, ast.Name) and f.value.id == "self":
                if f.attr in self.roles.atomic():
                    return []
                return [self._bound(r_, call) for r_ in implementations(self.prog, self.cls, f.attr)]
            if isinstance(f.value, ast.Call) and isinstance(f.value.func, ast.Name) and f.value.func.id == "super":
                r = self.prog.resolve_method(self.cls, f.attr, after=ctx.fn.owner)
                return [FnRef(*r)] if r else []
        return []

    def _bound(self, ref: FnRef, call: ast.Call) -> FnRef:
        """
        The helper as it runs for this call: parameters that the helper never re-binds are replaced by the (side-effect free) argument
        expressions, so that what it writes is judged with the provenance the caller gave it.  Anything else: the helper as it is.
        """
        fn = ref.fn
        ps = [a.arg for a in fn.args.args if a.arg not in ("self", "cls")]
        if not ps or call.keywords or len(call.args) != len(ps) or fn.args.vararg or fn.args.kwarg \
                or any(isinstance(a, ast.Starred) for a in call.args):
            return ref
        stored = {x.id for x in ast.walk(fn) if isinstance(x, ast.Name) and isinstance(x.ctx, (ast.Store, ast.Del))}
        locals_ = stored | {x.arg for x in ast.walk(fn) if isinstance(x, ast.arg)}
        env = {}
        for p_, a_ in zip(ps, call.args):
            pure = not any(isinstance(x, (ast.Call, ast.Yield, ast.Await, ast.NamedExpr)) for x in ast.walk(a_))
            names_ = {x.id for x in ast.walk(a_) if isinstance(x, ast.Name)}
            # only arguments made of `self` attributes: they mean the same inside the helper (no local of the caller is captured)
            if p_ not in stored and pure and names_ <= {"self"} and not isinstance(a_, ast.Constant):
                env[p_] = a_
        if not env:
            return ref
        key = (id(fn), tuple(sorted((k, norm(v)) for k, v in env.items())))
        cache = self.__dict__.setdefault("_bound_cache", {})
        if key not in cache:
            import copy as _copy

            class _S(ast.NodeTransformer):
                def visit_Name(self, node):
                    if isinstance(node.ctx, ast.Load) and node.id in env:
                        return ast.copy_location(_copy.deepcopy(env[node.id]), node)
                    return node
            saved = fn.__dict__.pop("_jfsa_canon", None)
            try:
                f2 = _copy.deepcopy(fn)
            finally:
                if saved is not None:
                    fn.__dict__["_jfsa_canon"] = saved
            f2.body = [_S().visit(st) for st in f2.body]
            ast.fix_missing_locations(f2)
            r2 = FnRef.__new__(FnRef)
            r2.owner, r2.orig, r2.fn = ref.owner, ref.orig, f2
            cache[key] = r2
        return cache[key]

    def transfer(self, state: State, ev: Any, ctx: Ctx) -> State:
        kind = ev[0]
        s = set(state)
        if kind == "STORE":
            s.add("STORED")
            s.discard("SLICED")
            for f in [x for x in s if isinstance(x, tuple) and x[0] == "SLICED_UNIT"]:
                s.discard(f)
        elif kind == "SET_TIME":
            s.add("TIME")
        elif kind == "SLICE_ALL":
            self.ob("R8.5-fresh-state", "STORED" in s, ctx, ev[1],
                    "time-slices the units of the handler's state before an in-state has been stored for this event: "
                    "after a commit the handler's state aliases the global state, so this edits the global state behind "
                    "the scheduler's back")
            self.ob("R7.1-time-before-slice", "TIME" in s or self._time_is_preset(), ctx, ev[1],
                    "time-slices the state before the candidate event time of this event has been set")
            s.add("SLICED")
        elif kind == "SLICE_UNIT":
            s.add(("SLICED_UNIT", ev[2]))
        elif kind == "REGISTER":
            s.add("REGISTERED")
            s.add("REG_OK")
            s.add(("REG", ev[2]))
        elif kind == "COMMIT":
            if self.is_leaves:
                self.ob("R12.1-register-before-commit", "REG_OK" in s, ctx, ev[1],
                        "non-leaf velocity changes are committed after a leaf velocity was written, but no velocity "
                        "change was registered on this path: the composite object's velocity goes out of sync with its "
                        "point masses")
            s.add("CLEAN")
            s.add("REG_OK")
            s.discard("REGISTERED")
            for f in [x for x in s if isinstance(x, tuple) and x[0] in ("REG", "PENDING")]:
                s.discard(f)
        elif kind == "W":
            _, node, field, recv, elementwise, value = ev
            self._write(s, node, field, recv, elementwise, value, ctx)
        elif kind == "RETURN":
            if ctx.fn is ctx.entry and ctx.entry.fn.name != "send_event_time" and self._in_out_state:
                if self.is_leaves and self.facts.changes_trajectory:
                    self.ob("R12.1-commit-before-return", "CLEAN" in s, ctx, ev[1],
                            "the out-state is returned on a path where a leaf velocity was written but the non-leaf "
                            "velocity changes were not committed afterwards")
        return frozenset(s)

    def _time_is_preset(self) -> bool:
        # handlers whose event time is fixed in the constructor (start of run, end of run) or self-clocked
        return self.init_event_time is not None and not self.facts.takes_in_state

    def _write(self, s: set, node: ast.AST, field: str, recv: ast.AST, elementwise: bool, value: Optional[ast.AST],
               ctx: Ctx) -> None:
        fn = ctx.fn.fn
        if field == "velocity":
            self.ob("R8.5-fresh-state", "STORED" in s, ctx, node,
                    "writes a velocity of a unit of the handler's state before an in-state has been stored for this event")
            block = self._block_of(fn, node)
            ts_write = self._sibling_write(block, recv, "time_stamp")
            is_none = isinstance(value, ast.Constant) and value.value is None
            recv_txt = norm(recv)
            if is_none or elementwise or ts_write is None:
                sliced = "SLICED" in s or ("SLICED_UNIT", recv_txt) in s
                kind = "clears" if is_none else ("changes in place" if elementwise else "replaces")
                self.ob("R7.1-K1-slice-before-write", sliced, ctx, node,
                        f"{kind} the velocity of `{recv_txt}` although the state has not been time-sliced to the event "
                        f"time on every path since it was stored: the unit's position is then never advanced with its "
                        f"old velocity (discontinuous motion)")
            else:
                ok, why = self._grant_time_ok(ts_write, s, ctx)
                self.ob("R7.1-K2-grant-time", ok, ctx, node,
                        f"grants a velocity to `{recv_txt}` with time stamp `{norm(ts_write.value)}`: {why}")
            if True:
                if is_none:
                    tsn = ts_write is not None and isinstance(ts_write.value, ast.Constant) and ts_write.value.value is None
                    self.ob("R12.3-cowrite", tsn, ctx, node,
                            f"`{recv_txt}.velocity = None` without `{recv_txt}.time_stamp = None` in the same block "
                            f"(a unit is at rest exactly when both are absent)")
            if self.is_leaves and ctx.fn.fn.name not in self.roles.commit_subtree:
                s.discard("CLEAN")
                if "REGISTERED" not in s:
                    # REG_OK = "no leaf velocity write since the last commit, or a register reached after/around it"
                    s.discard("REG_OK")
                c = self.cnode_of(recv, fn)
                # a routine that registers through its own bookkeeping (the registered cnode is looked up, e.g.
                # `self._leaf_cnodes[index]` from a dictionary filled earlier) pairs writes and registrations by data, not
                # by block: only the path rule (a registration between write and commit) applies there
                deferred = any(isinstance(n, ast.Call) and isinstance(n.func, ast.Attribute) and n.func.attr in self.roles.register
                               and n.args and not isinstance(n.args[0], ast.Name) for n in ast.walk(fn))
                if c is not None and not deferred:
                    regs = [n for st in block for n in ast.walk(st) if isinstance(n, ast.Call)
                            and isinstance(n.func, ast.Attribute) and n.func.attr in self.roles.register and n.args
                            and norm(n.args[0]) == c]
                    self.ob("R12.1-register-same-cnode", bool(regs), ctx, node,
                            f"the velocity of the leaf unit of cnode `{c}` is written but no velocity change is "
                            f"registered for `{c}` in the same block")
        elif field == "time_stamp":
            vel = self._sibling_write(self._block_of(fn, node), recv, "velocity")
            is_none = isinstance(value, ast.Constant) and value.value is None
            if is_none:
                veln = vel is not None and isinstance(vel.value, ast.Constant) and vel.value.value is None
                self.ob("R12.3-cowrite", veln, ctx, node,
                        f"`{norm(recv)}.time_stamp = None` without `{norm(recv)}.velocity = None` in the same block")
        elif field == "position":
            self.ob("R8.5-fresh-state", "STORED" in s, ctx, node,
                    "writes a position of a unit of the handler's state before an in-state has been stored")
            self.ob("R7.2-snap-after-slice", "SLICED" in s, ctx, node,
                    "writes a position directly although the state has not been time-sliced on every path before")

    def _grant_time_ok(self, ts_write: ast.Assign, s: set, ctx: Ctx) -> Tuple[Optional[bool], str]:
        v = _is_copy_of(ts_write.value)
        if self_attr(v) == "_event_time":
            if "TIME" in s or self._time_is_preset():
                return True, ""
            return False, "the handler's event time has not been set for this event on every path"
        if isinstance(v, ast.Attribute) and v.attr == "time_stamp":
            if "SLICED" in s:
                return True, ""
            return False, ("the time stamp is taken from another unit, but the state has not been time-sliced to the "
                           "event time, so that unit's stamp is not the event time")
        if self.init_event_time is not None and norm(v) == self.init_event_time and not self.event_time_assigned_outside_init:
            return True, ""
        root_ = v
        while isinstance(root_, (ast.Attribute, ast.Subscript)):
            root_ = root_.value
        if isinstance(root_, ast.Name) and ctx.fn is not None and root_.id in [a.arg for a in ctx.fn.fn.args.args if a.arg not in ("self", "cls")] \
                and ctx.fn.fn.name not in ("send_out_state", "send_event_time"):
            # the stamp is a parameter of a helper: what the callers pass is not followed here
            return None, "the time stamp is a parameter of this helper (the values passed by its callers are not followed)"
        return False, ("the time stamp is neither the handler's event time, nor the stamp of a time-sliced unit, nor the "
                       "constant the handler's event time is initialised with")

    def _block_of(self, fn: ast.FunctionDef, node: ast.AST) -> List[ast.stmt]:
        for n in ast.walk(fn):
            for fld in ("body", "orelse", "finalbody"):
                b = getattr(n, fld, None)
                if isinstance(b, list) and any(x is node for x in b):
                    return b
        return [node]  # type: ignore

    def _sibling_write(self, block: List[ast.stmt], recv: ast.AST, field: str) -> Optional[ast.Assign]:
        for st in block:
            if isinstance(st, ast.Assign):
                for t in st.targets:
                    if isinstance(t, ast.Attribute) and t.attr == field and norm(t.value) == norm(recv):
                        return st
        return None

    # -- driver -----------------------------------------------------------------------------------------------------
    def run(self) -> None:
        self._in_out_state = False
        w = FlowWalker(self.events, self.transfer, self.inline, loop_keep=lambda f: f in ("REGISTERED", "REG_OK"))
        exit_time: Optional[State] = frozenset()
        for ref in self.facts.send_event_time:
            out = w.run(ref, frozenset(["CLEAN", "REG_OK"]))
            if self.facts.takes_in_state:
                for st, node, kind in w.exits:
                    if kind == "raise":
                        continue
                    ctx = Ctx()
                    ctx.stack = [ref]
                    ctx.node = node or ref.fn
                    self.ob("R8.5-store-in-send-event-time", "STORED" in st or not self._uses_state_in_out(), ctx,
                            node or ref.fn.name,
                            "send_event_time returns without having stored its in-state although send_out_state works on "
                            "the stored state")
            exit_time = out if out is not None else frozenset()
        self._in_out_state = True
        for ref in self.facts.send_out_state:
            w2 = FlowWalker(self.events, self.transfer, self.inline, loop_keep=lambda f: f in ("REGISTERED", "REG_OK"))
            w2.run(ref, frozenset(set(exit_time or ()) | {"CLEAN", "REG_OK"}))
            if "R17.1" in self.rules:
                self._sampling_shape(ref, w2)

    def _uses_state_in_out(self) -> bool:
        for r in self.facts.out_closure:
            for n in ast.walk(r.fn):
                if self_attr(n) == self.roles.state_attr and isinstance(n.ctx, ast.Load):
                    return any(len(param_names(x.fn)) == 0 for x in self.facts.send_out_state)
        return False

    def _sampling_shape(self, ref: FnRef, w: FlowWalker) -> None:
        ctx = Ctx()
        ctx.stack = [ref]
        for st, node, kind in w.exits:
            if kind == "raise":
                continue
            ctx.node = node or ref.fn
            ok = "STORED" in st and "SLICED" in st
            self.ob("R17.1-sliced-out-state", ok, ctx, node or ref.fn.name,
                    "a sampling / end-of-run out-state must store the active state it is given and time-slice all of it "
                    "to the event time before returning it")
            if isinstance(node, ast.Return):
                ret_ok = node.value is not None and (self_attr(node.value) == self.roles.state_attr or (
                    isinstance(node.value, ast.Name) and node.value.id in self._state_aliases(ref.fn)))
                self.ob("R17.1-returns-stored-state", ret_ok, ctx, node,
                        "the out-state returned must be the stored (time-sliced) state")
