"""
Entry point:  ./check <property id> [--tier quick|thorough] [--repo DIR] [--replay FINDING.json] [--list]

Exit codes: 0 all obligations discharged (known findings printed), 1 unlisted violation (VIOLATION line printed),
2 analyser broken / cannot decide (ANALYSIS-ERROR line printed).
"""
import argparse
import importlib
import json
import os
import sys
import time
import traceback

from . import core
from .core import AnalysisError, Source

PROPS = ["C01", "C03", "C04", "C05", "C06", "C07", "C08", "C09", "C10", "C11", "C12", "C13", "C14", "C15", "C17", "C18",
         "C19", "C20"]


def load_prop(pid: str):
    try:
        return importlib.import_module(f"jfsa.props.{pid.lower()}")
    except ModuleNotFoundError as e:
        if e.name == f"jfsa.props.{pid.lower()}":
            raise AnalysisError(f"no check implemented for {pid}")
        raise


def analyse_findings(pid: str, src: Source):
    mod = load_prop(pid)
    try:
        reports = mod.analyse(src)
    except core.IdiomNotRecognised as e:
        # the mechanism is written in a way the role discovery does not follow: the property is UNDECIDED on this tree
        rep = core.Report(pid, src)
        rep.ob("R0-idiom-not-recognised", None, core.Loc("jellyfysh", 0, pid), pid, f"idiom not recognised: {e}")
        return mod, [rep]
    if not any(r.findings for r in reports):
        # vacuity guard; when violations were found they take precedence and are reported as such
        for r in reports:
            r.check_minimums()
    return mod, reports


def main(argv=None) -> int:
    ap = argparse.ArgumentParser(prog="check")
    ap.add_argument("prop")
    ap.add_argument("--tier", default=os.environ.get("VERIF_TIER", "quick"), choices=["quick", "thorough"])
    ap.add_argument("--repo", default=core.DEFAULT_REPO)
    ap.add_argument("--replay", default=None)
    ap.add_argument("--jobs", type=int, default=int(os.environ.get("JFSA_JOBS", "16")))
    ap.add_argument("--no-evidence", action="store_true")
    args = ap.parse_args(argv)
    pid = args.prop.upper()
    try:
        seed = int(os.environ.get("VERIF_SEED", "0"))
    except ValueError:
        seed = 0
    t0 = time.time()
    src = Source(args.repo)
    try:
        if args.replay:
            return replay(pid, src, args.replay)
        mod, reports = analyse_findings(pid, src)
        known = core.load_known()
        known_keys = {k["key"]: k for k in known.get("known", []) if k.get("property") == pid}
        new, listed = [], []
        seen = set()
        for r in reports:
            for f in r.findings:
                if f.key in seen:
                    continue
                seen.add(f.key)
                (listed if f.key in known_keys else new).append(f)
        selftest = None
        if args.tier == "thorough" and not new:
            from . import selftest as st
            selftest = st.run(pid, mod, args.repo, seed, args.jobs)
        wall = time.time() - t0
        if not args.no_evidence:
            core.write_evidence(pid, args.tier, seed, reports, wall, len(new), selftest, len(listed))
        obligations = sum(r.obligations for r in reports)
        discharged = sum(r.discharged for r in reports)
        undecided = sum(len(r.undecided) for r in reports)
        print(f"[{pid}] tier={args.tier} repo={args.repo} obligations={obligations} discharged={discharged} "
              f"undecided={undecided} violations={len(new)} known={len(listed)} wall={wall:.2f}s")
        counts = {}
        for r in reports:
            for k, v in r.rule_counts.items():
                counts[k] = counts.get(k, 0) + v
        print(f"[{pid}] rule instances: " + ", ".join(f"{k}={v}" for k, v in sorted(counts.items())))
        for r in reports:
            for u in r.undecided:
                print(f"[{pid}] UNDECIDED {u['rule']} at {u['at']}: {u['construct']} -- {u['why']}")
        for f in listed:
            print(f"KNOWN-FINDING: property={pid} {f.rule} {f.loc}: {f.construct} -- {known_keys[f.key].get('what', f.message)}")
        for f in new:
            path = core.write_finding(f)
            print(f"[{pid}] {f.rule} VIOLATED at {f.loc}: `{f.construct}` -- {f.message}")
            print(f"VIOLATION property={pid} replay={path}")
        if new:
            return 1
        if selftest is not None:
            print(f"[{pid}] self-test: {selftest['mutants_detected']}/{selftest['mutants_applied']} mutants reported, "
                  f"{selftest['twins_silent']}/{selftest['twins_applied']} behaviour-preserving twins silent, "
                  f"{selftest['skipped']} skipped (anchor text not present)")
            for r in selftest["results"]:
                if r["status"] == "skipped":
                    print(f"[{pid}] self-test skipped (anchor text not present): {r['kind']} '{r['name']}'")
            if selftest["failures"]:
                for fl in selftest["failures"]:
                    print(f"ANALYSIS-ERROR property={pid} self-test failed: {fl}")
                return 2
        return 0
    except AnalysisError as e:
        print(f"ANALYSIS-ERROR property={pid} {e}")
        _fallback_evidence(pid, args, seed, t0, str(e))
        return 2
    except Exception as e:  # analyser bug: never report it as a violation
        traceback.print_exc()
        print(f"ANALYSIS-ERROR property={pid} internal error: {type(e).__name__}: {e}")
        _fallback_evidence(pid, args, seed, t0, f"{type(e).__name__}: {e}")
        return 2
    finally:
        src.close()


def _fallback_evidence(pid, args, seed, t0, msg):
    if args.no_evidence:
        return
    rep = core.Report(pid, Source(args.repo))
    rep.explain(f"ANALYSIS-ERROR: {msg}")
    core.write_evidence(pid, args.tier, seed, [rep], time.time() - t0, 0)


def replay(pid: str, src: Source, path: str) -> int:
    with open(path) as f:
        finding = json.load(f)
    mod, reports = analyse_findings(pid, src)
    hit = False
    for r in reports:
        for f in r.findings:
            if f.key == finding.get("key"):
                hit = True
                print(f"[{pid}] REPRODUCED {f.rule} at {f.loc}: `{f.construct}` -- {f.message}")
                try:
                    lines = src.read(f.loc.file).splitlines()
                    lo = max(0, f.loc.line - 4)
                    for i in range(lo, min(len(lines), f.loc.line + 3)):
                        print(f"    {i + 1:5d} {'>>' if i + 1 == f.loc.line else '  '} {lines[i]}")
                except Exception:
                    pass
                print(f"VIOLATION property={pid} replay={path}")
    if not hit:
        print(f"[{pid}] finding {finding.get('key')} no longer reported on {src.root}")
    return 1 if hit else 0


if __name__ == "__main__":
    sys.exit(main())
