"""
Parity analysis of a C function (C03 R3.7): abstract interpretation in the domain of parities under the three reflections
F_x, F_y, F_z of the separation (sx, sy, sz) -> (-sx, sy, sz) etc.  A value is, per reflection,

    Z  identically zero (even and odd)        E  even        O  odd
    N  definitely a mixture of an even and an odd part (no parity)
    U  not known to the analysis (unsupported construct)

Products multiply parities, sums need equal parities (E + O = N), cos / fabs / x*x make even, sin keeps, exp / erfc / sqrt need an
even argument.  Control flow on reflection-invariant conditions joins the branches; loops are iterated to a fixpoint.

Lattice sums:  a loop  for (v = -B; v < B + 1; v++)  with a reflection-invariant bound B runs over a symmetric index range.  The sum
over v of g(s, v) has the parity that g has under the JOINT reflection (s_a, v) -> (-s_a, -v) (re-index v -> -v), so the index of such
a loop may be treated as odd under one of the reflections.  This is sound only if the loop carries no state other than pure
accumulators (`acc += term`, term independent of acc): every other variable that is assigned in the loop must be written in each
iteration before it is read, otherwise it becomes U.  Which reflection an index belongs to is not guessed from names: all
assignments (each symmetric loop to x, y, z or none) are tried and any assignment that proves the wanted parity is a proof.
"""
import itertools
from typing import Dict, List, Optional, Sequence, Tuple

from .cfront import CNode, CUnit, strip, text

P = Tuple[str, str, str]
EVEN: P = ("E", "E", "E")
ZEROV: P = ("Z", "Z", "Z")
UNKNOWN: P = ("U", "U", "U")


def _mul1(a: str, b: str) -> str:
    if a == "Z" or b == "Z":
        return "Z"
    if a == "U" or b == "U":
        return "U"
    if a == "N" or b == "N":
        return "N"
    return "E" if a == b else "O"


def _add1(a: str, b: str) -> str:
    if a == "Z":
        return b
    if b == "Z":
        return a
    if a == "U" or b == "U":
        return "U"
    if a == "N" or b == "N":
        return "N"
    return a if a == b else "N"


_join1 = _add1     # merging two control-flow paths under an invariant condition has the same table as a sum


def _fun1(kind: str, a: str) -> str:
    if a in ("U", "N"):
        return a
    if kind == "even":            # cos, fabs, cosh: even function
        return "E"
    if kind == "odd":             # sin, tan, sinh, asin, atan, erf, cbrt, trunc-like casts: odd function
        return a
    if kind == "zero-to-zero":    # sqrt: no parity of its own, sqrt(0) = 0
        return a if a in ("Z", "E") else "N"
    # exp, erfc, log, ...: no parity of their own, f(0) != 0
    return "E" if a in ("Z", "E") else "N"


FUNCS = {"cos": "even", "fabs": "even", "cosh": "even", "sin": "odd", "tan": "odd", "sinh": "odd", "tanh": "odd", "asin": "odd",
         "atan": "odd", "erf": "odd", "cbrt": "odd", "sqrt": "zero-to-zero", "exp": "none", "erfc": "none", "log": "none",
         "floor": "none", "ceil": "none", "round": "odd", "trunc": "odd"}


class Conflict:
    def __init__(self, line: int, what: str) -> None:
        self.line, self.what = line, what


class ParityRun:
    def __init__(self, unit: CUnit, fname: str, axes: Dict[str, int], assign: Dict[int, Optional[int]]) -> None:
        self.unit, self.fname, self.axes, self.assign = unit, fname, axes, assign
        self.env: Dict[str, P] = {}
        self.ret: Optional[P] = None
        self.conflicts: List[Conflict] = []
        self.unknowns: List[Conflict] = []
        self.sym_loops: List[int] = []
        self.rename: Dict[str, str] = {}      # callee local / value parameter -> unique name in env
        self.ptr: Dict[str, str] = {}         # callee pointer parameter -> caller variable it points to
        self.depth = 0
        self.negstart: Dict[str, str] = {}    # variable -> text of B when its last assignment was `v = -B`

    # -- values -------------------------------------------------------------------------------------------------------
    def note(self, n: CNode, v: P, parts: Sequence[P]) -> P:
        for ax in range(3):
            if v[ax] == "N" and all(p[ax] != "N" for p in parts):
                self.conflicts.append(Conflict(n.line, f"`{text(n)}` mixes {'/'.join(p[ax] for p in parts)} parts under the reflection of "
                                                         f"{'xyz'[ax]}"))
        return v

    def unknown(self, n: CNode, why: str) -> P:
        self.unknowns.append(Conflict(n.line, f"{why}: `{text(n)}`"))
        return UNKNOWN

    def ev(self, n: CNode) -> P:
        n0 = n
        n = strip(n)
        k = n.kind
        if k in ("IntegerLiteral", "FloatingLiteral"):
            try:
                return ZEROV if float(n.props.get("value")) == 0.0 else EVEN
            except (TypeError, ValueError):
                return EVEN
        if k == "UnaryOperator" and n.props.get("opcode") == "*" and strip(n.children[0]).kind == "DeclRefExpr" \
                and strip(n.children[0]).props.get("ref") in self.ptr:
            return self.env.get(self.ptr[strip(n.children[0]).props.get("ref")], EVEN)
        if k == "DeclRefExpr":
            name = self.rename.get(n.props.get("ref"), n.props.get("ref"))
            if name in self.env:
                return self.env[name]
            if name in self.axes:
                ax = self.axes[name]
                return tuple("O" if i == ax else "E" for i in range(3))      # type: ignore
            return EVEN            # other parameters, globals: do not change under the reflections
        if k == "MemberExpr":
            return EVEN            # fields of the parameter struct
        if k == "ArraySubscriptExpr":
            idx = self.ev(n.children[1])
            base = self.ev(n.children[0])
            if all(x in ("E", "Z") for x in idx):
                return tuple("E" if b == "Z" else b for b in base)            # type: ignore
            return self.unknown(n, "table looked up with an index that changes under a reflection")
        if k == "UnaryOperator":
            op = n.props.get("opcode")
            v = self.ev(n.children[0])
            if op in ("-", "+"):
                return v
            if op == "!":
                return tuple("E" if x in ("E", "Z") else "U" for x in v)     # type: ignore
            return self.unknown(n, "operator not modelled")
        if k == "BinaryOperator":
            op = n.props.get("opcode")
            a, b = self.ev(n.children[0]), self.ev(n.children[1])
            if op in ("*", "/"):
                return tuple(_mul1(x, y) for x, y in zip(a, b))              # type: ignore
            if op in ("+", "-"):
                return self.note(n, tuple(_add1(x, y) for x, y in zip(a, b)), (a, b))   # type: ignore
            if op in ("<", ">", "<=", ">=", "==", "!=", "&&", "||"):
                return tuple("E" if x in ("E", "Z") and y in ("E", "Z") else "U" for x, y in zip(a, b))   # type: ignore
            return self.unknown(n, "operator not modelled")
        if k == "CallExpr":
            name = text(n.children[0])
            args = [self.ev(c) for c in n.children[1:]]
            if name in FUNCS and len(args) == 1:
                return self.note(n, tuple(_fun1(FUNCS[name], x) for x in args[0]), args)    # type: ignore
            if name == "pow" and len(args) == 2:
                e = strip(n.children[2])
                if e.kind in ("IntegerLiteral", "FloatingLiteral"):
                    try:
                        val = float(e.props.get("value"))
                    except (TypeError, ValueError):
                        val = 0.5
                    if val == int(val):
                        if int(val) % 2 == 0:
                            return tuple(x if x in ("U", "N", "Z") else "E" for x in args[0])     # type: ignore
                        return args[0]
                return self.note(n, tuple(x if x in ("E", "U", "N") else ("E" if x == "Z" else "N") for x in args[0]), args)   # type: ignore
            if name in self.unit.functions and name != self.fname and self.depth < 4:
                r = self.call(name, n.children[1:])
                if r is not None:
                    return r
            for c in n.children[1:]:
                self.clobber_address_args(c)
            return self.unknown(n, "function not modelled")
        if k == "ConditionalOperator":
            c = self.ev(n.children[0])
            a, b = self.ev(n.children[1]), self.ev(n.children[2])
            if all(x in ("E", "Z") for x in c):
                return self.note(n, tuple(_join1(x, y) for x, y in zip(a, b)), (a, b))      # type: ignore
            return self.unknown(n, "condition changes under a reflection")
        if n0.kind == "CStyleCastExpr" or k == "CStyleCastExpr":
            return self.ev(n.children[-1])
        return self.unknown(n, "expression not modelled")

    # -- calls --------------------------------------------------------------------------------------------------------
    def clobber_address_args(self, c: CNode) -> None:
        c = strip(c)
        if c.kind == "UnaryOperator" and c.props.get("opcode") == "&":
            t = self.target(c.children[0])
            if t is not None:
                self.set(t, UNKNOWN)

    def target(self, t: CNode) -> Optional[str]:
        """name in env of an assignable expression (a variable, or *p for a pointer parameter bound to a caller variable)"""
        t = strip(t)
        if t.kind == "DeclRefExpr":
            return self.rename.get(t.props.get("ref"), t.props.get("ref"))
        if t.kind == "UnaryOperator" and t.props.get("opcode") == "*" and strip(t.children[0]).kind == "DeclRefExpr":
            return self.ptr.get(strip(t.children[0]).props.get("ref"))
        return None

    def call(self, fname: str, args: Sequence[CNode]) -> Optional[P]:
        """interpret a function of the same unit in place: value parameters become fresh locals, `&x` arguments bind `*p` to x"""
        params = self.unit.params(fname)
        if len(params) != len(args):
            return None
        new_rename: Dict[str, str] = {}
        new_ptr: Dict[str, str] = {}
        self.depth += 1
        tag = f"{fname}${self.depth}$"
        for p_, a in zip(params, args):
            a0 = strip(a)
            if a0.kind == "UnaryOperator" and a0.props.get("opcode") == "&":
                t = self.target(a0.children[0])
                if t is None:
                    self.depth -= 1
                    return None
                new_ptr[p_] = t
            else:
                self.env[tag + p_] = self.ev(a)
                new_rename[p_] = tag + p_
        body = self.unit.body(fname)
        for d in body.walk():
            if d.kind == "VarDecl":
                new_rename[d.props.get("name")] = tag + d.props.get("name")
        saved = (self.rename, self.ptr, self.ret)
        self.rename, self.ptr, self.ret = new_rename, new_ptr, None
        self.stmt(body)
        r = self.ret
        self.rename, self.ptr, self.ret = saved
        self.depth -= 1
        return r if r is not None else ZEROV

    # -- statements ---------------------------------------------------------------------------------------------------
    def assigned_in(self, n: CNode) -> List[str]:
        out = []
        for x in n.walk():
            if x.kind in ("BinaryOperator", "CompoundAssignOperator") and str(x.props.get("opcode", "")).endswith("=") \
                    and x.props.get("opcode") not in ("==", "!=", "<=", ">="):
                t = strip(x.children[0])
                if t.kind == "DeclRefExpr":
                    out.append(t.props.get("ref"))
            elif x.kind == "UnaryOperator" and x.props.get("opcode") in ("++", "--"):
                t = strip(x.children[0])
                if t.kind == "DeclRefExpr":
                    out.append(t.props.get("ref"))
            elif x.kind == "VarDecl":
                out.append(x.props.get("name"))
        return out

    def symmetric(self, f: CNode) -> Optional[Tuple[str, CNode]]:
        """(index variable, bound) of `for (v = -B; v < B + 1; v++)` / `v <= B`, B invariant under all reflections"""
        if len(f.children) < 4:
            return None
        init, cond, inc = f.children[0], f.children[-3], f.children[-2]
        if init.kind == "DeclStmt" and init.children and init.children[0].kind == "VarDecl" and init.children[0].children:
            var, start = init.children[0].props.get("name"), strip(init.children[0].children[-1])
        elif init.kind == "BinaryOperator" and init.props.get("opcode") == "=" and strip(init.children[0]).kind == "DeclRefExpr":
            var, start = strip(init.children[0]).props.get("ref"), strip(init.children[1])
        else:
            return None
        if not (start.kind == "UnaryOperator" and start.props.get("opcode") == "-"):
            return None
        bound = strip(start.children[0])
        if cond.kind != "BinaryOperator" or text(cond.children[0]) != var:
            return None
        op, rhs = cond.props.get("opcode"), strip(cond.children[1])
        if op == "<=":
            ok = text(rhs) == text(bound)
        elif op == "<":
            ok = rhs.kind == "BinaryOperator" and rhs.props.get("opcode") == "+" and \
                {text(rhs.children[0]), text(rhs.children[1])} == {text(bound), "1"}
        else:
            ok = False
        step = (inc.kind == "UnaryOperator" and inc.props.get("opcode") == "++" and text(inc.children[0]) == var) or \
            (inc.kind == "CompoundAssignOperator" and inc.props.get("opcode") == "+=" and text(inc.children[0]) == var and text(inc.children[1]) == "1")
        if not ok or not step:
            return None
        if var in self.assigned_in(f.children[-1]):
            return None
        if not all(x in ("E", "Z") for x in self.ev(bound)):
            return None
        return var, bound

    def symmetric_while(self, w: CNode) -> Optional[str]:
        """index of  v = -B; while (v <= B) { ...; v++; }  (v = -B being the last assignment to v before the loop)"""
        if len(w.children) != 2 or w.children[1].kind != "CompoundStmt" or not w.children[1].children:
            return None
        cond, body = strip(w.children[0]), w.children[1]
        if cond.kind != "BinaryOperator":
            return None
        v = self.target(cond.children[0])
        if v is None or v not in self.negstart:
            return None
        b = self.negstart[v]
        op, rhs = cond.props.get("opcode"), strip(cond.children[1])
        if op == "<=":
            ok = text(rhs) == b
        elif op == "<":
            ok = rhs.kind == "BinaryOperator" and rhs.props.get("opcode") == "+" and {text(rhs.children[0]), text(rhs.children[1])} == {b, "1"}
        else:
            ok = False
        last = body.children[-1]
        step = (last.kind == "UnaryOperator" and last.props.get("opcode") == "++" and self.target(last.children[0]) == v) or \
            (last.kind == "CompoundAssignOperator" and last.props.get("opcode") == "+=" and self.target(last.children[0]) == v
             and text(last.children[1]) == "1")
        rest = CNode("CompoundStmt", {}, body.children[:-1], body.line)
        raw = text(cond.children[0])
        if not ok or not step or raw in self.assigned_in(rest) or any(x.kind in ("ContinueStmt", "BreakStmt") for x in rest.walk()):
            return None
        return v

    def carried(self, body: CNode) -> List[str]:
        """variables assigned in the loop body that are neither pure accumulators nor written before read in every iteration"""
        names = set(self.assigned_in(body))
        bad: List[str] = []
        for v in sorted(names):
            writes = [x for x in body.walk() if x.kind in ("BinaryOperator", "CompoundAssignOperator") and text(x.children[0]) == v
                      and str(x.props.get("opcode", "")) in ("=", "+=", "-=", "*=", "/=")]
            incs = [x for x in body.walk() if x.kind == "UnaryOperator" and x.props.get("opcode") in ("++", "--") and text(x.children[0]) == v]
            acc = bool(writes) and not incs and all(x.props.get("opcode") in ("+=", "-=") and
                                                    not any(y.kind == "DeclRefExpr" and y.props.get("ref") == v for y in x.children[1].walk())
                                                    for x in writes)
            reads_elsewhere = [y for y in body.walk() if y.kind == "DeclRefExpr" and y.props.get("ref") == v]
            if acc and len(reads_elsewhere) == len(writes):
                continue
            # written before read: the first occurrence in source order is the target of a plain `=` outside any `if`
            if not incs and self._first_is_plain_write(body, v):
                continue
            # an inner loop index: declared / initialised by the header of a nested for
            if any(f.kind == "ForStmt" and v in self.assigned_in(f.children[0]) for f in body.walk()):
                continue
            bad.append(v)
        return bad

    def _first_is_plain_write(self, body: CNode, v: str) -> bool:
        state = {"done": False, "ok": False}

        def go(n: CNode, cond: bool) -> None:
            if state["done"]:
                return
            if n.kind == "BinaryOperator" and n.props.get("opcode") == "=" and text(n.children[0]) == v and strip(n.children[0]).kind == "DeclRefExpr":
                go(n.children[1], cond)
                if not state["done"]:
                    state["done"], state["ok"] = True, not cond
                return
            if n.kind == "VarDecl" and n.props.get("name") == v:
                for c in n.children:
                    go(c, cond)
                if not state["done"]:
                    state["done"], state["ok"] = True, bool(n.children) and not cond
                return
            if n.kind == "DeclRefExpr" and n.props.get("ref") == v:
                state["done"], state["ok"] = True, False
                return
            for i, c in enumerate(n.children):
                go(c, cond or (n.kind == "IfStmt" and i > 0) or n.kind in ("WhileStmt", "DoStmt", "ConditionalOperator"))
        go(body, False)
        return state["ok"]

    def set(self, name: str, v: P) -> None:
        self.env[name] = v

    def track_start(self, name: str, value: Optional[CNode]) -> None:
        """remember `v = -B` (a candidate start of a symmetric range written without a for header)"""
        self.negstart.pop(name, None)
        if value is not None:
            v = strip(value)
            if v.kind == "UnaryOperator" and v.props.get("opcode") == "-" and all(x in ("E", "Z") for x in self.ev(v.children[0])):
                self.negstart[name] = text(v.children[0])

    def stmt(self, n: CNode) -> None:
        k = n.kind
        if k == "CompoundStmt":
            for c in n.children:
                self.stmt(c)
        elif k == "DeclStmt":
            for d in n.children:
                if d.kind == "VarDecl":
                    name = self.rename.get(d.props.get("name"), d.props.get("name"))
                    has_init = bool(d.children) and self._is_expr(d.children[-1])
                    self.set(name, self.ev(d.children[-1]) if has_init else ZEROV)
                    self.track_start(name, d.children[-1] if has_init else None)
        elif k in ("BinaryOperator", "CompoundAssignOperator") and str(n.props.get("opcode", "")).endswith("=") \
                and n.props.get("opcode") not in ("==", "!=", "<=", ">="):
            rhs = self.ev(n.children[1])
            name = self.target(n.children[0])
            if name is None:
                return                                   # stores into memory do not flow into the result of these functions
            op = n.props.get("opcode")
            if op == "=":
                self.set(name, rhs)
                self.track_start(name, n.children[1])
            else:
                self.negstart.pop(name, None)
                old = self.env.get(name, self.ev(n.children[0]))
                if op in ("+=", "-="):
                    self.set(name, self.note(n, tuple(_add1(x, y) for x, y in zip(old, rhs)), (old, rhs)))     # type: ignore
                elif op in ("*=", "/="):
                    self.set(name, tuple(_mul1(x, y) for x, y in zip(old, rhs)))                               # type: ignore
                else:
                    self.set(name, self.unknown(n, "operator not modelled"))
        elif k == "UnaryOperator" and n.props.get("opcode") in ("++", "--"):
            name = self.target(n.children[0])
            if name is not None:
                old = self.env.get(name, EVEN)
                self.set(name, self.note(n, tuple(_add1(x, "E") for x in old), (old, EVEN)))     # type: ignore
        elif k == "IfStmt":
            c = self.ev(n.children[0])
            inv = all(x in ("E", "Z") for x in c)
            before = dict(self.env)
            self.stmt(n.children[1])
            then_env = self.env
            self.env = dict(before)
            if len(n.children) > 2:
                self.stmt(n.children[2])
            else_env = self.env
            merged: Dict[str, P] = {}
            for name in set(then_env) | set(else_env):
                a, b = then_env.get(name), else_env.get(name)
                if a is None or b is None:
                    merged[name] = a or b                                               # type: ignore
                elif a == b:
                    merged[name] = a
                elif inv:
                    merged[name] = tuple(_join1(x, y) for x, y in zip(a, b))          # type: ignore
                else:
                    merged[name] = UNKNOWN
                    self.unknowns.append(Conflict(n.line, f"`{name}` is assigned under a condition that changes under a reflection"))
            self.env = merged
        elif k == "ForStmt" and len(n.children) != 4:
            for name in self.assigned_in(n):
                self.set(name, UNKNOWN)
            self.unknowns.append(Conflict(n.line, "for statement without init / condition / increment not modelled"))
        elif k == "ForStmt":
            sym = self.symmetric(n)
            body = n.children[-1]
            if sym is not None:
                var, _ = sym
                self.sym_loops.append(n.line)
                ax = self.assign.get(n.line)
                self.set(var, tuple("O" if i == ax else "E" for i in range(3)))          # type: ignore
                bad = self.carried(body)
                self._fix(body, None, None)
                for v in bad:
                    self.set(v, UNKNOWN)
                    self.unknowns.append(Conflict(n.line, f"`{v}` carries state between the iterations of a symmetric sum"))
                self.set(var, EVEN)
            else:
                if n.children[0].kind != "NullStmt":
                    self.stmt(n.children[0])
                self._fix(body, n.children[-2], n.children[-3])
        elif k == "WhileStmt" and self.symmetric_while(n) is not None:
            var = self.symmetric_while(n)
            body = n.children[-1]
            self.sym_loops.append(n.line)
            ax = self.assign.get(n.line)
            self.set(var, tuple("O" if i == ax else "E" for i in range(3)))          # type: ignore
            inner = CNode("CompoundStmt", {}, body.children[:-1], body.line)
            bad = self.carried(inner)
            self._fix(inner, None, None)
            for v in bad:
                self.set(v, UNKNOWN)
                self.unknowns.append(Conflict(n.line, f"`{v}` carries state between the iterations of a symmetric sum"))
            self.set(var, EVEN)
            self.negstart.pop(var, None)
        elif k in ("WhileStmt", "DoStmt"):
            cond = n.children[0] if k == "WhileStmt" else n.children[-1]
            # a loop controlled by a variable that starts at -B but is not recognised as a symmetric sum: nothing is known about it
            for x in cond.walk():
                if x.kind == "DeclRefExpr" and self.rename.get(x.props.get("ref"), x.props.get("ref")) in self.negstart:
                    nm = self.rename.get(x.props.get("ref"), x.props.get("ref"))
                    self.set(nm, UNKNOWN)
                    self.unknowns.append(Conflict(n.line, f"loop over `{nm}` starts at a negated bound but is not a recognised symmetric sum"))
            self._fix(n.children[-1] if k == "WhileStmt" else n.children[0], None, cond)
        elif k == "ReturnStmt":
            if n.children:
                v = self.ev(n.children[0])
                self.ret = v if self.ret is None else tuple(_join1(x, y) for x, y in zip(self.ret, v))    # type: ignore
        elif k in ("NullStmt", "BreakStmt", "ContinueStmt"):
            pass
        elif k == "CallExpr":
            name = text(n.children[0])
            if name in self.unit.functions and name != self.fname and self.depth < 4 and self.call(name, n.children[1:]) is not None:
                return
            for c in n.children[1:]:
                self.clobber_address_args(c)
        else:
            for name in self.assigned_in(n):
                self.set(name, UNKNOWN)
            self.unknowns.append(Conflict(n.line, f"statement kind {k} not modelled"))

    @staticmethod
    def _is_expr(n: CNode) -> bool:
        return n.kind.endswith("Expr") or n.kind.endswith("Operator") or n.kind.endswith("Literal")

    def _fix(self, body: CNode, inc: Optional[CNode], cond: Optional[CNode]) -> None:
        """loop fixpoint: state at the head = join(entry, after body)"""
        if cond is not None and self._is_expr(cond):
            c = self.ev(cond)
            if not all(x in ("E", "Z") for x in c):
                for name in self.assigned_in(body):
                    self.set(name, UNKNOWN)
                self.unknowns.append(Conflict(body.line, "loop condition changes under a reflection"))
                return
        saved_c, saved_u = self.conflicts, self.unknowns
        all_c: List[Conflict] = []
        all_u: List[Conflict] = []
        for _ in range(12):
            head = dict(self.env)
            self.conflicts, self.unknowns = [], []
            self.stmt(body)
            if inc is not None and inc.kind != "NullStmt":
                self.stmt(inc)
            merged = {}
            for name in set(head) | set(self.env):
                a, b = head.get(name), self.env.get(name)
                merged[name] = (a or b) if a is None or b is None else tuple(_join1(x, y) for x, y in zip(a, b))
            for acc, new in ((all_c, self.conflicts), (all_u, self.unknowns)):
                for c in new:
                    if not any(c.line == d.line and c.what == d.what for d in acc):
                        acc.append(c)
            self.env = merged
            if merged == head:
                break
        self.conflicts, self.unknowns = saved_c + all_c, saved_u + all_u

    def run(self) -> Optional[P]:
        self.stmt(self.unit.body(self.fname))
        return self.ret


def parity_of(unit: CUnit, fname: str, want: P):
    """
    (proved?, best result, notes, number of symmetric sums): tries every assignment of the symmetric loops to the reflections.
    proved is True if some assignment yields `want`; False if every assignment yields a definite other parity / mixture (N, or E
    where O is wanted) without any U; None otherwise.
    """
    params = unit.params(fname)
    if len(params) < 3:
        return None, None, [f"{fname} has fewer than three parameters"], 0
    axes = {p: i for i, p in enumerate(params[-3:])}
    probe = ParityRun(unit, fname, axes, {})
    probe.run()
    loops = sorted(set(probe.sym_loops))
    best = None
    for choice in itertools.product((0, 1, 2, None), repeat=len(loops)):
        r = ParityRun(unit, fname, axes, dict(zip(loops, choice)))
        got = r.run()
        if got is None:
            continue

        def canon_(p):    # a result that is identically zero has every parity
            return tuple(w if g == "Z" else g for g, w in zip(p, want))
        got = canon_(got)
        score = sum(1 for g, w in zip(got, want) if g == w)
        if best is None or score > best[0]:
            best = (score, got, r, dict(zip(loops, choice)))
        if got == want:
            return True, got, [f"symmetric sums at lines {loops} taken with the reflections {['xyz'[c] if c is not None else '-' for c in choice]}"], len(loops)
    if best is None:
        return None, None, ["no return value"], len(loops)
    _, got, r, choice = best
    notes = [f"line {c.line}: {c.what}" for c in r.conflicts[:3]] + [f"line {c.line}: {c.what}" for c in r.unknowns[:3]]
    definite = all(g != "U" for g in got)
    return (False if definite else None), got, notes, len(loops)
