"""
Dimensional analysis of the event handlers' candidate-time and confirmation formulas (reuses the units inference of
jfsa/dims*.py).  Contract: potential.derivative(...) -> E/T, potential.displacement(...) -> T, random.expovariate(beta) -> E,
unit.position L, unit.velocity L/T, Time + x needs x: T, Time - Time -> T, uniform(a, b) has the dimension of its bounds.
"""
import ast
from typing import Dict, List, Optional

from .core import norm
from .dims import DIMLESS, RF, Solver, Term, dim, show_dim
from .dims_front import E_, L_, T_, VEL, Instance, PyDims, V
from .pyfront import ClassInfo, Program, param_names, self_attr

RATE = dim(E=1, T=-1)


class HandlerDims(PyDims):
    def fresh_param(self, inst, owner, name, default):
        return V(Term.var(f"{inst.ctx}.{name}"))

    def method(self, inst: Instance, name: str) -> None:
        if name in inst.methods_done:
            return
        inst.methods_done[name] = True
        r = self.prog.resolve_method(inst.cls, name)
        if r is None:
            return
        owner, fn = r
        env: Dict[str, V] = {}
        for p in param_names(fn):
            env[p] = V(Term.var(f"{inst.ctx}.{name}.{p}"))
            if "potential_change" in p:
                self.solver.equal(env[p].t, Term.known(E_), (owner.file, fn.lineno, f"{owner.name}.{name}"), f"parameter {p}")
        self.depth += 1
        try:
            if self.depth < 10:
                self.block([s for s in fn.body], env, inst, fn, name, owner)
        finally:
            self.depth -= 1

    def ev(self, e, env, inst, fn, mname, owner=None):
        owner = owner or inst.cls
        if isinstance(e, ast.Attribute):
            if e.attr == "position":
                return V(Term.known(L_))
            if e.attr == "velocity":
                return V(Term.known(VEL))
            if e.attr == "time_stamp" or self_attr(e) in ("_event_time", "_last_committed_event_time"):
                return V(Term.known(T_))
            if e.attr in ("charge", "identifier", "weight"):
                return V(DIMLESS)
            if e.attr == "total_rate":
                return V(Term.var(f"{inst.ctx}.walker_total_rate"))
            a = self_attr(e)
            if a is not None and a not in inst.attrs:
                inst.attrs[a] = V(Term.var(f"{inst.ctx}.attr.{a}"))
        if isinstance(e, ast.Subscript) and isinstance(e.value, ast.Attribute) and e.value.attr == "charge":
            return V(DIMLESS)
        return super().ev(e, env, inst, fn, mname, owner)

    def call(self, e: ast.Call, env, inst, fn, mname, owner):
        f = e.func
        name = norm(f)
        org = self.origin(owner, e, mname)
        if name == "random.expovariate" and e.args:
            a = self.ev(e.args[0], env, inst, fn, mname, owner)
            return V(a.t.scale(RF(-1)) if a.t is not None else None)
        if name == "random.uniform" and len(e.args) == 2:
            a, b = (self.ev(x, env, inst, fn, mname, owner) for x in e.args)
            if a.t is not None and b.t is not None and not a.poly0 and not b.poly0:
                self.solver.equal(a.t, b.t, org, norm(e))
            return V(b.t if not b.poly0 else a.t)
        if name in ("random.random", "random.choice", "random.randint"):
            return V(DIMLESS)
        if isinstance(f, ast.Attribute) and f.attr in ("derivative", "displacement") and self_attr(f.value) and "potential" in self_attr(f.value):
            for a in e.args:
                self.ev(a, env, inst, fn, mname, owner)
            for k in e.keywords:
                v = self.ev(k.value, env, inst, fn, mname, owner)
                if k.arg == "potential_change" and v.t is not None:
                    self.solver.equal(v.t, Term.known(E_), org, f"potential_change of {norm(f)}")
            # a potential_change passed positionally is the last argument of a displacement call that draws it
            if f.attr == "displacement" and e.args and isinstance(e.args[-1], ast.Call) and norm(e.args[-1].func) == "random.expovariate":
                v = self.ev(e.args[-1], env, inst, fn, mname, owner)
                if v.t is not None:
                    self.solver.equal(v.t, Term.known(E_), org, f"potential change handed to {norm(f)}")
            if f.attr == "derivative":
                # multi-body potentials return a tuple of rates; subscripting keeps the dimension
                return V(Term.known(RATE))
            return V(Term.known(T_))
        if name.endswith("separation_vector") or name.endswith("correct_position_entry") or name.endswith("next_image"):
            for a in e.args:
                self.ev(a, env, inst, fn, mname, owner)
            return V(Term.known(L_))
        if name.endswith("charge_correction_factor") or name.endswith("_charge_of_unit") or "_charges" in name:
            return V(DIMLESS)
        if name.endswith("position_to_cell") or name.endswith("translate") or name.endswith("sample_cell") or name.endswith("relative_cell") \
                or name.endswith("neighbor_cell") or name.endswith("nearby_cells"):
            for a in e.args:
                self.ev(a, env, inst, fn, mname, owner)
            return V()
        if name.endswith("bounding_potential_warning"):
            return V()
        if name in ("copy", "deepcopy") and e.args:
            return self.ev(e.args[0], env, inst, fn, mname, owner)
        return super().call(e, env, inst, fn, mname, owner)

    def block(self, stmts, env, inst, fn, mname, owner) -> None:
        # Time arithmetic: `<time> + x`  => x : T ;  `<time> - <time>` => T  (handled through the T dimension of both)
        super().block(stmts, env, inst, fn, mname, owner)


def analyse_handlers(prog: Program, src, handlers: List[ClassInfo]):
    solver = Solver()
    hd = HandlerDims(prog, solver, src)
    for h in handlers:
        inst = Instance(h, h.name)
        # constructor attributes stay free variables, inferred from their uses
        for m in ("send_event_time", "send_out_state"):
            from .handlers import implementations
            for ref in implementations(prog, h, m):
                hd.method(inst, ref.fn.name)
    return solver


def check_handler_dimensions(prog: Program, src, rep, rule: str, only=None) -> None:
    from .core import Loc
    from .handlers import concrete_handlers
    hs = [h for h in concrete_handlers(prog) if only is None or only(h)]
    solver = analyse_handlers(prog, src, hs)
    seen = set()
    for cf in solver.conflicts:
        file, line, qual = cf.origin
        key = (file, qual, cf.text)
        if key in seen:
            continue
        seen.add(key)
        rep.ob(rule, False, Loc(file, line, qual), cf.text,
               f"dimensionally inconsistent handler formula: the two sides differ by {show_dim(cf.residual)} (L length, E energy, T time) "
               f"under the contract derivative -> E/T, displacement -> T, expovariate(beta) -> E, velocity L/T, position L, time stamps T: "
               f"a factor such as the speed or a rate is missing, doubled or on the wrong side of a division")
    rep.ob(rule, True, Loc("jellyfysh/event_handler", 0, ""), f"{solver.n_constraints - len(solver.conflicts)} dimension constraints of "
           f"{len(hs)} handler classes consistent", "")
    inferred = {}
    for k in sorted(solver.rows):
        if ".attr." in k or k.endswith("walker_total_rate"):
            v = solver.value(k)
            if v is not None:
                inferred[k] = show_dim(v)
    rep.extra.setdefault("inferred_handler_dimensions", {}).update(inferred)
    if solver.n_constraints < 150 and only is None:
        from .core import AnalysisError
        raise AnalysisError(f"handler dimension analysis generated only {solver.n_constraints} constraints (about 350 on the pinned tree)")
