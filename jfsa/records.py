"""
Record normal form (front end, applied once per source tree when the Program is loaded).

A `typing.NamedTuple` class is a tuple with named positions.  Code that was written with anonymous tuples and index / unpacking
and code that was modernised to a NamedTuple do the same thing; the rules are written for tuples, so

    Rec(a, b) / Rec(x=a, y=b)   ->  (a, b)
    e.y   (e of record type)    ->  e[1]
    IntEnumCls.MEMBER           ->  its integer
    self.attr = (a, b) everywhere, read only as self.attr[i] / unpacked   ->  two attributes  self.attr__0, self.attr__1

Which expressions are of record type is inferred (flow-insensitively, per function): constructor calls, calls of functions /
methods whose definitions are all annotated `-> Rec`, locals assigned from these, loop variables over containers whose elements
are records (a `self.attr` that receives `append(Rec(..))` / `[k] = Rec(..)` / a list of records anywhere in its class hierarchy,
a local list / dict filled the same way, `.values()` / `.items()` of such a dict).  Anything the inference does not reach is left
as it is (a rule then sees an attribute access it may not recognise -- undecided, never a wrong reading).
"""
import ast
import copy
from typing import Dict, List, Optional, Set, Tuple


def _dotted_last(e: Optional[ast.AST]) -> Optional[str]:
    if isinstance(e, ast.Name):
        return e.id
    if isinstance(e, ast.Attribute):
        return e.attr
    if isinstance(e, ast.Constant) and isinstance(e.value, str):
        return e.value.split(".")[-1].strip("'\" ")
    if isinstance(e, ast.Subscript):          # Optional[Rec]
        if _dotted_last(e.value) == "Optional":
            return _dotted_last(e.slice)
    return None


def _self_attr(e: ast.AST) -> Optional[str]:
    if isinstance(e, ast.Attribute) and isinstance(e.value, ast.Name) and e.value.id == "self":
        return e.attr
    return None


class Records:
    def __init__(self, prog) -> None:
        self.prog = prog
        self.fields: Dict[str, List[str]] = {}
        self.defaults: Dict[str, Dict[str, ast.AST]] = {}
        self.enums: Dict[str, Dict[str, int]] = {}
        self.dfields: Dict[str, List[str]] = {}      # dataclasses: objects with named fields (not tuples)
        for ci in prog.classes:
            bases = {_dotted_last(b) for b in ci.node.bases}
            if "NamedTuple" in bases:
                fs, ds = [], {}
                for st in ci.node.body:
                    if isinstance(st, ast.AnnAssign) and isinstance(st.target, ast.Name):
                        fs.append(st.target.id)
                        if st.value is not None:
                            ds[st.target.id] = st.value
                if fs and ci.name not in self.fields:
                    self.fields[ci.name] = fs
                    self.defaults[ci.name] = ds
            if any(_dotted_last(d.func if isinstance(d, ast.Call) else d) == "dataclass" for d in ci.node.decorator_list):
                fs = [st.target.id for st in ci.node.body if isinstance(st, ast.AnnAssign) and isinstance(st.target, ast.Name)]
                if fs and ci.name not in self.fields and ci.name not in self.dfields:
                    self.dfields[ci.name] = fs
            if "IntEnum" in bases:
                members: Dict[str, int] = {}
                for st in ci.node.body:
                    if isinstance(st, ast.Assign) and len(st.targets) == 1 and isinstance(st.targets[0], ast.Name) \
                            and isinstance(st.value, ast.Constant) and isinstance(st.value.value, int) and not isinstance(st.value.value, bool):
                        members[st.targets[0].id] = st.value.value
                if members:
                    self.enums[ci.name] = members
        # functions whose every definition is annotated with the same record type
        self.returns: Dict[str, Optional[str]] = {}
        for mi, ci, fn in prog.functions():
            r = _dotted_last(fn.returns)
            r = r if r in self.fields or r in self.dfields else None
            if fn.name in self.returns and self.returns[fn.name] != r:
                self.returns[fn.name] = None
            else:
                self.returns.setdefault(fn.name, r)
        # attributes that hold a record / a container of records, by attribute name (class hierarchy is not distinguished: an attribute
        # name that is used for two different things is dropped)
        self.attr_is: Dict[str, Optional[str]] = {}
        self.attr_elems: Dict[str, Optional[str]] = {}
        self.attr_elems_nested: Dict[str, Optional[str]] = {}

        def note(table: Dict[str, Optional[str]], attr: str, rec: Optional[str]) -> None:
            if attr in table and table[attr] != rec:
                table[attr] = None
            else:
                table.setdefault(attr, rec)
        for mi, ci, fn in prog.functions():
            if ci is None:
                continue
            for n in ast.walk(fn):
                if isinstance(n, ast.Assign):
                    for t in n.targets:
                        a = _self_attr(t)
                        if a:
                            rec = self.ctor(n.value)
                            if rec or not (isinstance(n.value, ast.Constant) and n.value.value is None):
                                if rec:
                                    note(self.attr_is, a, rec)
                                elif self.elem_display(n.value):
                                    note(self.attr_elems, a, self.elem_display(n.value))
                                elif a in self.attr_is and not self._neutral(n.value):
                                    self.attr_is[a] = None
                        if isinstance(t, ast.Subscript) and _self_attr(t.value) and self.ctor(n.value):
                            note(self.attr_elems, _self_attr(t.value), self.ctor(n.value))
                elif isinstance(n, ast.Call) and isinstance(n.func, ast.Attribute) and n.func.attr in ("append", "appendleft", "add") \
                        and _self_attr(n.func.value) and len(n.args) == 1 and self.ctor(n.args[0]):
                    note(self.attr_elems, _self_attr(n.func.value), self.ctor(n.args[0]))
                elif isinstance(n, ast.Call) and isinstance(n.func, ast.Attribute) and n.func.attr in ("append", "appendleft", "add") \
                        and isinstance(n.func.value, ast.Subscript) and _self_attr(n.func.value.value) and len(n.args) == 1 and self.ctor(n.args[0]):
                    # self.attr[key].append(Rec(..)): a table of lists of records
                    note(self.attr_elems_nested, _self_attr(n.func.value.value), self.ctor(n.args[0]))

    @staticmethod
    def _neutral(v: ast.AST) -> bool:
        return isinstance(v, ast.Constant) and v.value is None

    def ctor(self, e: ast.AST) -> Optional[str]:
        if isinstance(e, ast.Call):
            name = _dotted_last(e.func)
            if name in self.dfields:
                return name
            if name in self.fields and not any(isinstance(a, ast.Starred) for a in e.args) and not any(k.arg is None for k in e.keywords):
                return name
        return None

    def ctor_type(self, e: ast.AST) -> Optional[str]:
        """the record class a constructor call builds (also with starred arguments, which as_tuple cannot spell out)"""
        if isinstance(e, ast.Call):
            name = _dotted_last(e.func)
            if name in self.fields or name in self.dfields:
                return name
        return None

    def elem_display(self, e: ast.AST) -> Optional[str]:
        """record type of the elements of a list display / comprehension of constructor calls"""
        if isinstance(e, ast.DictComp):
            return self.ctor_type(e.value)
        if isinstance(e, ast.Dict) and e.values:
            rs = {self.ctor_type(x) for x in e.values}
            return rs.pop() if len(rs) == 1 and None not in rs else None
        if isinstance(e, (ast.List, ast.Tuple)) and e.elts:
            rs = {self.ctor(x) for x in e.elts}
            return rs.pop() if len(rs) == 1 and None not in rs else None
        if isinstance(e, (ast.ListComp, ast.GeneratorExp)):
            return self.ctor_type(e.elt)
        return None

    def as_tuple(self, call: ast.Call, rec: str) -> Optional[ast.AST]:
        fs = self.fields[rec]
        vals: Dict[str, ast.AST] = {}
        for f, a in zip(fs, call.args):
            vals[f] = a
        if len(call.args) > len(fs):
            return None
        for k in call.keywords:
            if k.arg not in fs or k.arg in vals:
                return None
            vals[k.arg] = k.value
        for f in fs:
            if f not in vals:
                if f in self.defaults[rec]:
                    vals[f] = copy.deepcopy(self.defaults[rec][f])
                else:
                    return None
        return ast.copy_location(ast.Tuple(elts=[vals[f] for f in fs], ctx=ast.Load()), call)

    # -- per function ---------------------------------------------------------------------------------------------------
    def rewrite_function(self, fn: ast.FunctionDef) -> bool:
        T: Dict[str, Optional[str]] = {}
        E: Dict[str, Optional[str]] = {}      # local containers: element type

        def put(table: Dict[str, Optional[str]], name: str, rec: Optional[str]) -> bool:
            if rec is None:
                return False
            if name in table:
                if table[name] != rec and table[name] is not None:
                    table[name] = None
                    return True
                return False
            table[name] = rec
            return True
        known = set(self.fields) | set(self.dfields)
        for a in fn.args.args + fn.args.kwonlyargs:
            r = _dotted_last(a.annotation)
            if r in known:
                T[a.arg] = r
            elif isinstance(a.annotation, ast.Subscript) and _dotted_last(a.annotation.value) in ("List", "Sequence", "Iterable", "MutableSequence", "Tuple",
                                                                                              "list", "tuple", "Collection", "Iterator", "Set", "FrozenSet") \
                    and _dotted_last(a.annotation.slice) in known:
                E[a.arg] = _dotted_last(a.annotation.slice)

        def type_of(e: ast.AST) -> Optional[str]:
            if isinstance(e, ast.Name):
                return T.get(e.id)
            c = self.ctor(e)
            if c:
                return c
            if isinstance(e, ast.Call):
                name = _dotted_last(e.func)
                if name and self.returns.get(name):
                    return self.returns[name]
                if isinstance(e.func, ast.Attribute) and e.func.attr in ("pop", "popleft") and elem_of(e.func.value):
                    return elem_of(e.func.value)
                if isinstance(e.func, ast.Attribute) and e.func.attr == "get" and elem_of(e.func.value):
                    return elem_of(e.func.value)
                if name in ("next", "min", "max") and e.args and elem_of(e.args[0]):
                    return elem_of(e.args[0])
            a = _self_attr(e)
            if a and self.attr_is.get(a):
                return self.attr_is[a]
            if isinstance(e, ast.Subscript) and not isinstance(e.slice, ast.Slice):
                return elem_of(e.value)
            if isinstance(e, ast.IfExp):
                x, y = type_of(e.body), type_of(e.orelse)
                return x if x == y else None
            return None

        def elem_of(e: ast.AST) -> Optional[str]:
            if isinstance(e, ast.Name):
                return E.get(e.id)
            a = _self_attr(e)
            if a and self.attr_elems.get(a):
                return self.attr_elems[a]
            d = self.elem_display(e)
            if d:
                return d
            if isinstance(e, ast.Call):
                name = _dotted_last(e.func)
                if isinstance(e.func, ast.Attribute) and e.func.attr in ("values", "copy") and not e.args:
                    return elem_of(e.func.value)
                if name in ("list", "tuple", "reversed", "sorted", "iter", "deque", "set") and e.args:
                    return elem_of(e.args[0])
            if isinstance(e, ast.Subscript) and isinstance(e.slice, ast.Slice):
                return elem_of(e.value)
            if isinstance(e, ast.Subscript) and _self_attr(e.value) and self.attr_elems_nested.get(_self_attr(e.value)):
                return self.attr_elems_nested[_self_attr(e.value)]
            return None

        def bind_loop(target: ast.AST, it: ast.AST) -> bool:
            ch = False
            if isinstance(target, ast.Name):
                ch |= put(T, target.id, elem_of(it))
            elif isinstance(target, ast.Tuple) and isinstance(it, ast.Call):
                name = _dotted_last(it.func)
                if name == "enumerate" and it.args and len(target.elts) == 2 and isinstance(target.elts[1], ast.Name):
                    ch |= put(T, target.elts[1].id, elem_of(it.args[0]))
                elif isinstance(it.func, ast.Attribute) and it.func.attr == "items" and len(target.elts) == 2 and isinstance(target.elts[1], ast.Name):
                    ch |= put(T, target.elts[1].id, elem_of(it.func.value))
                elif name == "zip" and len(it.args) == len(target.elts):
                    for t, a in zip(target.elts, it.args):
                        if isinstance(t, ast.Name):
                            ch |= put(T, t.id, elem_of(a))
            return ch
        for _ in range(4):
            changed = False
            for n in ast.walk(fn):
                if isinstance(n, ast.Assign) and len(n.targets) == 1:
                    t = n.targets[0]
                    if isinstance(t, ast.Name):
                        changed |= put(T, t.id, type_of(n.value))
                        changed |= put(E, t.id, elem_of(n.value))
                    elif isinstance(t, ast.Subscript) and isinstance(t.value, ast.Name):
                        changed |= put(E, t.value.id, type_of(n.value))
                elif isinstance(n, ast.AnnAssign) and isinstance(n.target, ast.Name):
                    r = _dotted_last(n.annotation)
                    if r in self.fields:
                        changed |= put(T, n.target.id, r)
                elif isinstance(n, ast.Call) and isinstance(n.func, ast.Attribute) and n.func.attr in ("append", "appendleft", "add") \
                        and isinstance(n.func.value, ast.Name) and len(n.args) == 1:
                    changed |= put(E, n.func.value.id, type_of(n.args[0]))
                elif isinstance(n, ast.For):
                    changed |= bind_loop(n.target, n.iter)
                elif isinstance(n, ast.comprehension):
                    changed |= bind_loop(n.target, n.iter)
                elif isinstance(n, ast.NamedExpr) and isinstance(n.target, ast.Name):
                    changed |= put(T, n.target.id, type_of(n.value))
            if not changed:
                break
        recs = self

        class Rewrite(ast.NodeTransformer):
            def __init__(self) -> None:
                self.changed = False

            def visit_Attribute(self, node: ast.Attribute):
                # type of the receiver BEFORE its own rewriting (names are unchanged by it)
                rec = type_of(node.value) if isinstance(node.ctx, ast.Load) else None
                self.generic_visit(node)
                if rec and rec in recs.fields and node.attr in recs.fields[rec]:
                    self.changed = True
                    return ast.copy_location(ast.Subscript(value=node.value, slice=ast.Constant(value=recs.fields[rec].index(node.attr)),
                                                           ctx=ast.Load()), node)
                if isinstance(node.value, ast.Name) and node.value.id in recs.enums and node.attr in recs.enums[node.value.id] \
                        and isinstance(node.ctx, ast.Load):
                    self.changed = True
                    return ast.copy_location(ast.Constant(value=recs.enums[node.value.id][node.attr]), node)
                return node

            def visit_Call(self, node: ast.Call):
                # dataclasses.replace(x, f=v)  ->  D(x.f1, .., v, ..)   (x of dataclass type D)
                if _dotted_last(node.func) == "replace" and len(node.args) == 1 and node.keywords and type_of(node.args[0]) in recs.dfields \
                        and (isinstance(node.func, ast.Name) or ast.unparse(node.func) == "dataclasses.replace"):
                    d = type_of(node.args[0])
                    kw = {k.arg: k.value for k in node.keywords}
                    # the object expression is repeated once per field that is kept: only a side-effect free one may be repeated
                    kept = len(recs.dfields[d]) - len(kw)
                    if set(kw) <= set(recs.dfields[d]) and (isinstance(node.args[0], (ast.Name, ast.Attribute, ast.Subscript)) or kept <= 1):
                        self.changed = True
                        args = [kw[f] if f in kw else ast.Attribute(value=copy.deepcopy(node.args[0]), attr=f, ctx=ast.Load()) for f in recs.dfields[d]]
                        new_call = ast.copy_location(ast.Call(func=ast.Name(id=d, ctx=ast.Load()), args=args, keywords=[]), node)
                        return self.generic_visit(new_call)
                self.generic_visit(node)
                rec = recs.ctor(node)
                if rec and rec in recs.fields:
                    t = recs.as_tuple(node, rec)
                    if t is not None:
                        self.changed = True
                        return t
                return node
        rw = Rewrite()
        fn.body = [rw.visit(st) for st in fn.body]
        return rw.changed


def scalarise_tuple_attributes(prog, only: Optional[Set[str]] = None) -> None:
    """
    `self.attr` that is only ever assigned a tuple display of one fixed length (or None) and only ever read as `self.attr[i]` with a
    literal index or unpacked into as many names, is that many attributes `self.attr__i`.
    """
    by_class: Dict[str, List[ast.FunctionDef]] = {}
    for mi, ci, fn in prog.functions():
        if ci is not None:
            by_class.setdefault(ci.name, []).append(fn)
    # attribute names are treated per class hierarchy root name: collect per attribute name over the whole program (a name that
    # does not qualify everywhere is left alone everywhere)
    width: Dict[str, Optional[int]] = {}
    for fns in by_class.values():
        for fn in fns:
            parents: Dict[int, ast.AST] = {}
            for p in ast.walk(fn):
                for c in ast.iter_child_nodes(p):
                    parents[id(c)] = p
            for n in ast.walk(fn):
                a = _self_attr(n)
                if not a:
                    continue
                p = parents.get(id(n))
                if isinstance(n.ctx, ast.Store):
                    if isinstance(p, ast.Assign) and len(p.targets) == 1 and p.targets[0] is n:
                        if isinstance(p.value, ast.Tuple) and not any(isinstance(x, ast.Starred) for x in p.value.elts):
                            k = len(p.value.elts)
                            if a in width and width[a] not in (k, -1):
                                width[a] = None
                            elif width.get(a, -1) == -1:
                                width[a] = k
                            continue
                        if isinstance(p.value, ast.Constant) and p.value.value is None:
                            width.setdefault(a, width.get(a, -1))
                            continue
                    width[a] = None
                elif isinstance(n.ctx, ast.Load):
                    ok = False
                    if isinstance(p, ast.Subscript) and p.value is n and isinstance(p.slice, ast.Constant) and isinstance(p.slice.value, int) \
                            and isinstance(p.ctx, ast.Load):
                        ok = True
                    elif isinstance(p, ast.Assign) and p.value is n and len(p.targets) == 1 and isinstance(p.targets[0], ast.Tuple) \
                            and all(isinstance(x, ast.Name) for x in p.targets[0].elts):
                        ok = True
                    elif isinstance(p, ast.Compare) and len(p.ops) == 1 and isinstance(p.ops[0], (ast.Is, ast.IsNot)):
                        ok = True       # `self.attr is None`: kept as a test on the first component
                    if not ok:
                        width[a] = None
                else:
                    width[a] = None
    good = {a: k for a, k in width.items() if isinstance(k, int) and k >= 2 and (only is None or a in only)}
    if not good:
        return

    class Split(ast.NodeTransformer):
        def visit_Assign(self, node: ast.Assign):
            self.generic_visit(node)
            if len(node.targets) == 1:
                a = _self_attr(node.targets[0])
                if a in good and isinstance(node.targets[0].ctx, ast.Store):
                    k = good[a]
                    vals = node.value.elts if isinstance(node.value, ast.Tuple) else [ast.Constant(value=None)] * k
                    if len(vals) != k:
                        return node
                    return [ast.copy_location(ast.Assign(targets=[ast.Attribute(value=ast.Name(id="self", ctx=ast.Load()), attr=f"{a}__{i}",
                                                                                ctx=ast.Store())], value=v), node) for i, v in enumerate(vals)]
                b = _self_attr(node.value)
                if b in good and isinstance(node.targets[0], ast.Tuple) and len(node.targets[0].elts) == good[b]:
                    return [ast.copy_location(ast.Assign(targets=[t], value=ast.Attribute(value=ast.Name(id="self", ctx=ast.Load()),
                                                                                         attr=f"{b}__{i}", ctx=ast.Load())), node)
                            for i, t in enumerate(node.targets[0].elts)]
            return node

        def visit_Subscript(self, node: ast.Subscript):
            self.generic_visit(node)
            a = _self_attr(node.value)
            if a in good and isinstance(node.slice, ast.Constant) and isinstance(node.slice.value, int) and 0 <= node.slice.value < good[a] \
                    and isinstance(node.ctx, ast.Load):
                return ast.copy_location(ast.Attribute(value=ast.Name(id="self", ctx=ast.Load()), attr=f"{a}__{node.slice.value}", ctx=ast.Load()), node)
            return node

        def visit_Compare(self, node: ast.Compare):
            self.generic_visit(node)
            a = _self_attr(node.left)
            if a in good and len(node.ops) == 1 and isinstance(node.ops[0], (ast.Is, ast.IsNot)):
                node.left = ast.copy_location(ast.Attribute(value=ast.Name(id="self", ctx=ast.Load()), attr=f"{a}__0", ctx=ast.Load()), node.left)
            return node
    for fns in by_class.values():
        for fn in fns:
            if any(_self_attr(n) in good for n in ast.walk(fn)):
                new_body: List[ast.stmt] = []
                for st in fn.body:
                    r = Split().visit(st)
                    new_body.extend(r if isinstance(r, list) else [r])
                fn.body = new_body
                ast.fix_missing_locations(fn)


def scalarise_dict_attributes(prog) -> None:
    """
    `self.attr = {K0: v0, K1: v1}` with literal keys (the only kind of store apart from None) and every read a subscript
    `self.attr[key]`: the entries are separate attributes `self.attr__K0`, ..; a read with a computed key over the integer keys
    0 .. n-1 is the tuple look-up `(self.attr__0, .., self.attr__n-1)[key]`.
    """
    fns = [fn for mi, ci, fn in prog.functions() if ci is not None]
    keys: Dict[str, Optional[Tuple]] = {}
    for fn in fns:
        parents: Dict[int, ast.AST] = {}
        for p in ast.walk(fn):
            for c in ast.iter_child_nodes(p):
                parents[id(c)] = p
        for n in ast.walk(fn):
            a = _self_attr(n)
            if not a:
                continue
            p = parents.get(id(n))
            if isinstance(n.ctx, ast.Store):
                if isinstance(p, ast.Assign) and len(p.targets) == 1 and p.targets[0] is n:
                    v = p.value
                    if isinstance(v, ast.Dict) and v.keys and all(isinstance(k, ast.Constant) and isinstance(k.value, (int, str)) and
                                                                   not isinstance(k.value, bool) for k in v.keys):
                        ks = tuple(k.value for k in v.keys)
                        if a in keys and keys[a] not in (ks, ()):
                            keys[a] = None
                        elif keys.get(a, ()) == ():
                            keys[a] = ks
                        continue
                    if isinstance(v, ast.Constant) and v.value is None:
                        keys.setdefault(a, ())
                        continue
                keys[a] = None
            elif isinstance(n.ctx, ast.Load):
                ok = (isinstance(p, ast.Subscript) and p.value is n and isinstance(p.ctx, ast.Load)) or \
                    (isinstance(p, ast.Compare) and len(p.ops) == 1 and isinstance(p.ops[0], (ast.Is, ast.IsNot)))
                if not ok and a in keys:
                    keys[a] = None
                elif not ok:
                    keys[a] = None
            else:
                keys[a] = None
    good = {a: ks for a, ks in keys.items() if ks}
    if not good:
        return

    def attr(a: str, k, ctx) -> ast.Attribute:
        return ast.Attribute(value=ast.Name(id="self", ctx=ast.Load()), attr=f"{a}__{k}", ctx=ctx)

    class Split(ast.NodeTransformer):
        def visit_Assign(self, node: ast.Assign):
            self.generic_visit(node)
            if len(node.targets) == 1:
                a = _self_attr(node.targets[0])
                if a in good and isinstance(node.targets[0].ctx, ast.Store):
                    if isinstance(node.value, ast.Dict):
                        return [ast.copy_location(ast.Assign(targets=[attr(a, k.value, ast.Store())], value=v), node)
                                for k, v in zip(node.value.keys, node.value.values)]
                    return [ast.copy_location(ast.Assign(targets=[attr(a, k, ast.Store())], value=ast.Constant(value=None)), node) for k in good[a]]
            return node

        def visit_Subscript(self, node: ast.Subscript):
            self.generic_visit(node)
            a = _self_attr(node.value)
            if a in good and isinstance(node.ctx, ast.Load):
                ks = good[a]
                if isinstance(node.slice, ast.Constant) and node.slice.value in ks:
                    return ast.copy_location(attr(a, node.slice.value, ast.Load()), node)
                if sorted(ks) == list(range(len(ks))):
                    tup = ast.Tuple(elts=[attr(a, k, ast.Load()) for k in range(len(ks))], ctx=ast.Load())
                    return ast.copy_location(ast.Subscript(value=tup, slice=node.slice, ctx=ast.Load()), node)
            return node

        def visit_Compare(self, node: ast.Compare):
            self.generic_visit(node)
            a = _self_attr(node.left)
            if a in good and len(node.ops) == 1 and isinstance(node.ops[0], (ast.Is, ast.IsNot)):
                node.left = ast.copy_location(attr(a, good[a][0], ast.Load()), node.left)
            return node
    for fn in fns:
        if any(_self_attr(n) in good for n in ast.walk(fn)):
            # a computed key over non-integer keys cannot be expressed: leave such attributes alone
            bad = {(_self_attr(n.value)) for n in ast.walk(fn) if isinstance(n, ast.Subscript) and _self_attr(n.value) in good
                   and not isinstance(n.slice, ast.Constant) and sorted(good[_self_attr(n.value)]) != list(range(len(good[_self_attr(n.value)])))}
            for b in bad:
                good.pop(b, None)
    for fn in fns:
        if any(_self_attr(n) in good for n in ast.walk(fn)):
            new_body: List[ast.stmt] = []
            for st in fn.body:
                r = Split().visit(st)
                new_body.extend(r if isinstance(r, list) else [r])
            fn.body = new_body
            ast.fix_missing_locations(fn)


def split_local_tuple_lists(fn: ast.FunctionDef) -> bool:
    """
    A local list that only collects fixed-arity tuples (`L = []`, `L.append((a, b))`) and is only read by iterating over it and
    indexing the element with literals (`f(x[1]) for x in L`) is that many parallel lists `L__0`, `L__1`: which value flows where
    is then visible per component.
    """
    stores = {}
    for n in ast.walk(fn):
        if isinstance(n, ast.Name) and isinstance(n.ctx, ast.Store):
            stores[n.id] = stores.get(n.id, 0) + 1
    changed = False
    for init in [a for a in ast.walk(fn) if isinstance(a, ast.Assign) and len(a.targets) == 1 and isinstance(a.targets[0], ast.Name)
                 and isinstance(a.value, ast.List) and not a.value.elts and stores.get(a.targets[0].id) == 1]:
        L = init.targets[0].id
        parents: Dict[int, ast.AST] = {}
        for p in ast.walk(fn):
            for c in ast.iter_child_nodes(p):
                parents[id(c)] = p
        uses = [n for n in ast.walk(fn) if isinstance(n, ast.Name) and n.id == L and isinstance(n.ctx, ast.Load)]
        appends, iters = [], []
        ok = True
        for u in uses:
            p = parents.get(id(u))
            pp = parents.get(id(p)) if p is not None else None
            if isinstance(p, ast.Attribute) and p.attr == "append" and isinstance(pp, ast.Call) and pp.func is p and len(pp.args) == 1 \
                    and isinstance(pp.args[0], ast.Tuple) and not any(isinstance(x, ast.Starred) for x in pp.args[0].elts) \
                    and isinstance(parents.get(id(pp)), ast.Expr):
                appends.append(pp)
            elif isinstance(p, (ast.For, ast.comprehension)) and p.iter is u and isinstance(p.target, ast.Name):
                iters.append(p)
            else:
                ok = False
        arities = {len(a.args[0].elts) for a in appends}
        if not ok or not appends or not iters or len(arities) != 1:
            continue
        k = arities.pop()
        # every use of an iteration variable is x[literal]
        plan = []
        for it in iters:
            x = it.target.id
            scope = parents.get(id(it)) if isinstance(it, ast.comprehension) else it
            xs = [n for n in ast.walk(scope) if isinstance(n, ast.Name) and n.id == x and isinstance(n.ctx, ast.Load)]
            idx = set()
            for n in xs:
                p = parents.get(id(n))
                if isinstance(p, ast.Subscript) and p.value is n and isinstance(p.slice, ast.Constant) and isinstance(p.slice.value, int) \
                        and 0 <= p.slice.value < k and isinstance(p.ctx, ast.Load):
                    idx.add(p.slice.value)
                else:
                    ok = False
            if len(idx) != 1:
                ok = False
            plan.append((it, scope, x, idx))
        if not ok:
            continue
        # rewrite
        block_of_init = None
        for p in ast.walk(fn):
            for fld in ("body", "orelse", "finalbody"):
                b = getattr(p, fld, None)
                if isinstance(b, list) and any(st is init for st in b):
                    block_of_init = b
        if block_of_init is None:
            continue
        pos = [i for i, st in enumerate(block_of_init) if st is init][0]
        block_of_init[pos:pos + 1] = [ast.copy_location(ast.Assign(targets=[ast.Name(id=f"{L}__{i}", ctx=ast.Store())], value=ast.List(elts=[], ctx=ast.Load())), init)
                                      for i in range(k)]
        for a in appends:
            e = parents[id(a)]          # the Expr statement
            for p in ast.walk(fn):
                for fld in ("body", "orelse", "finalbody"):
                    b = getattr(p, fld, None)
                    if isinstance(b, list) and any(st is e for st in b):
                        j = [i for i, st in enumerate(b) if st is e][0]
                        b[j:j + 1] = [ast.copy_location(ast.Expr(value=ast.Call(func=ast.Attribute(value=ast.Name(id=f"{L}__{i}", ctx=ast.Load()), attr="append",
                                                                                                ctx=ast.Load()), args=[v], keywords=[])), e)
                                      for i, v in enumerate(a.args[0].elts)]
        for it, scope, x, idx in plan:
            i = next(iter(idx))
            it.iter = ast.copy_location(ast.Name(id=f"{L}__{i}", ctx=ast.Load()), it.iter)

            class _Idx(ast.NodeTransformer):
                def visit_Subscript(self, node: ast.Subscript):
                    self.generic_visit(node)
                    if isinstance(node.value, ast.Name) and node.value.id == x and isinstance(node.slice, ast.Constant):
                        return ast.copy_location(ast.Name(id=x, ctx=ast.Load()), node)
                    return node
            if isinstance(it, ast.comprehension):
                comp = scope
                for fld in ("elt", "key", "value"):
                    if hasattr(comp, fld):
                        setattr(comp, fld, _Idx().visit(getattr(comp, fld)))
                for g in comp.generators:
                    g.ifs = [_Idx().visit(c) for c in g.ifs]
            else:
                it.body = [_Idx().visit(st) for st in it.body]
        ast.fix_missing_locations(fn)
        changed = True
    return changed


def normalise_records(prog) -> None:
    recs = Records(prog)
    if recs.fields or recs.enums or recs.dfields:
        for mi, ci, fn in prog.functions():
            if recs.rewrite_function(fn):
                ast.fix_missing_locations(fn)
                for _ in range(3):
                    if not split_local_tuple_lists(fn):
                        break
        # module-level code is left alone (constants only)
    # only attributes that held a record object: a plain tuple attribute of the pinned code is what the rules already read
    scalarise_tuple_attributes(prog, {a for a, r in recs.attr_is.items() if r})
    scalarise_dict_attributes(prog)
