"""
E2 -- syntax-directed forward must-analysis over Python statements with interprocedural inlining of self-method calls.

The abstract state is a frozenset of facts; join is intersection (a fact holds after a join only if it holds on every
incoming path).  A client supplies
    events(node, ctx)  -> list of events raised by evaluating this AST node (called in evaluation order, post-order),
    transfer(state, event, ctx) -> new state   (may record obligations through ctx),
    inline(call, ctx)  -> list of FnRef to inline at this call (all are walked, results joined), or [].
Exits (return / fall-through) are collected with their states.  Exception edges: the state at a handler entry is the
meet of all states seen inside the try body.
"""
import ast
from typing import Any, Callable, FrozenSet, List, Optional, Sequence, Tuple

from .handlers import FnRef

State = FrozenSet[Any]


def meet(a: Optional[State], b: Optional[State]) -> Optional[State]:
    if a is None:
        return b
    if b is None:
        return a
    return a & b


class Ctx:
    """Where we are: stack of FnRef being walked (innermost last) and the node at hand."""

    def __init__(self) -> None:
        self.stack: List[FnRef] = []
        self.node: Optional[ast.AST] = None
        self.call_sites: List[ast.AST] = []

    @property
    def fn(self) -> FnRef:
        return self.stack[-1]

    @property
    def entry(self) -> FnRef:
        return self.stack[0]

    def where(self) -> Tuple[str, int, str]:
        return self.fn.file, getattr(self.node, "lineno", self.fn.fn.lineno), self.fn.qual

    def path(self) -> str:
        return " > ".join(r.qual for r in self.stack)


class FlowWalker:
    def __init__(self, events: Callable[[ast.AST, Ctx], List[Any]],
                 transfer: Callable[[State, Any, Ctx], State],
                 inline: Callable[[ast.Call, Ctx], Sequence[FnRef]],
                 max_depth: int = 8, loop_keep: Optional[Callable[[Any], bool]] = None) -> None:
        self.events, self.transfer, self.inline = events, transfer, inline
        # facts generated inside a loop body normally do not survive the loop (zero iterations); loop_keep names the
        # facts for which the client assumes at least one iteration (stated in the client's assumptions)
        self.loop_keep = loop_keep
        self.max_depth = max_depth
        self.ctx = Ctx()
        self._try_acc: List[Optional[State]] = []
        self.exits: List[Tuple[State, Optional[ast.AST], str]] = []  # (state, return node, kind)
        self._exit_stack: List[List[Tuple[State, Optional[ast.AST], str]]] = []

    # -- public ---------------------------------------------------------------------------------------------------
    def run(self, ref: FnRef, init: State) -> Optional[State]:
        """Walk one entry function; returns the meet over all normal exits (None if no normal exit)."""
        self.exits = []
        out = self._function(ref, init)
        return out

    # -- functions ------------------------------------------------------------------------------------------------
    def _function(self, ref: FnRef, state: State) -> Optional[State]:
        self.ctx.stack.append(ref)
        self._exit_stack.append([])
        body = list(ref.fn.body)
        end = self._block(body, state)
        exits = self._exit_stack.pop()
        if end is not None:
            exits.append((end, None, "fallthrough"))
        self.ctx.stack.pop()
        if not self.ctx.stack:
            self.exits = exits
        normal = [s for s, _, kind in exits if kind != "raise"]
        out: Optional[State] = None
        for s in normal:
            out = meet(out, s)
        return out

    # -- statements -----------------------------------------------------------------------------------------------
    def _see(self, state: State) -> None:
        for i in range(len(self._try_acc)):
            self._try_acc[i] = meet(self._try_acc[i], state)

    def _block(self, stmts: Sequence[ast.stmt], state: Optional[State]) -> Optional[State]:
        for s in stmts:
            if state is None:
                return None
            state = self._stmt(s, state)
        return state

    def _stmt(self, s: ast.stmt, state: State) -> Optional[State]:
        self._see(state)
        if isinstance(s, ast.Expr):
            return self._expr(s.value, state)
        if isinstance(s, (ast.Assign, ast.AnnAssign, ast.AugAssign)):
            if getattr(s, "value", None) is not None:
                state = self._expr(s.value, state)
            targets = s.targets if isinstance(s, ast.Assign) else [s.target]
            for t in targets:
                state = self._expr(t, state)
            self.ctx.node = s
            for ev in self.events(s, self.ctx):
                state = self.transfer(state, ev, self.ctx)
            return state
        if isinstance(s, ast.Return):
            if s.value is not None:
                state = self._expr(s.value, state)
            self.ctx.node = s
            for ev in self.events(s, self.ctx):
                state = self.transfer(state, ev, self.ctx)
            self._exit_stack[-1].append((state, s, "return"))
            return None
        if isinstance(s, ast.Raise):
            if s.exc is not None:
                state = self._expr(s.exc, state)
            self._exit_stack[-1].append((state, s, "raise"))
            return None
        if isinstance(s, ast.If):
            state = self._expr(s.test, state)
            a = self._block(s.body, state)
            b = self._block(s.orelse, state)
            return meet(a, b) if (a is not None or b is not None) else None
        if isinstance(s, (ast.For, ast.While)):
            if isinstance(s, ast.For):
                state = self._expr(s.iter, state)
            entry = state
            out: Optional[State] = None
            for _ in range(4):
                st = entry
                if isinstance(s, ast.While):
                    st = self._expr(s.test, st)
                else:
                    st = self._expr(s.target, st)
                out = self._block(s.body, st)
                new_entry = meet(entry, out) if out is not None else entry
                if new_entry == entry:
                    break
                entry = new_entry
            after = entry
            if self.loop_keep is not None and out is not None:
                after = after | frozenset(f for f in out if self.loop_keep(f))
            if isinstance(s, ast.While):
                after = self._expr(s.test, after)
            # the loop as a whole may be an event for the client (e.g. "every cnode of the state was time-sliced")
            self.ctx.node = s
            for ev in self.events(s, self.ctx):
                after = self.transfer(after, ev, self.ctx)
            if s.orelse:
                return self._block(s.orelse, after)
            return after
        if isinstance(s, ast.Try):
            self._try_acc.append(state)
            body_out = self._block(s.body, state)
            acc = self._try_acc.pop()
            if body_out is not None:
                acc = meet(acc, body_out)
            outs: List[Optional[State]] = []
            if body_out is not None:
                outs.append(self._block(s.orelse, body_out) if s.orelse else body_out)
            for h in s.handlers:
                outs.append(self._block(h.body, acc if acc is not None else state))
            res: Optional[State] = None
            for o in outs:
                if o is not None:
                    res = meet(res, o)
            if s.finalbody:
                res = self._block(s.finalbody, res if res is not None else (acc or state))
            return res
        if isinstance(s, ast.With):
            for item in s.items:
                state = self._expr(item.context_expr, state)
            return self._block(s.body, state)
        if isinstance(s, ast.Assert):
            return state  # asserts are never relied upon and raise no events
        if isinstance(s, (ast.Pass, ast.Import, ast.ImportFrom, ast.Global, ast.Nonlocal, ast.Break, ast.Continue,
                          ast.FunctionDef, ast.ClassDef, ast.Delete)):
            if isinstance(s, ast.Delete):
                self.ctx.node = s
                for ev in self.events(s, self.ctx):
                    state = self.transfer(state, ev, self.ctx)
            return state
        return state

    # -- expressions (evaluation order, post-order) -------------------------------------------------------------------
    def _expr(self, e: Optional[ast.AST], state: State) -> State:
        if e is None:
            return state
        if isinstance(e, (ast.Lambda, ast.GeneratorExp, ast.ListComp, ast.SetComp, ast.DictComp)):
            # comprehension bodies are evaluated here (lambdas are not: they run when called)
            if isinstance(e, ast.Lambda):
                return state
            for g in e.generators:
                state = self._expr(g.iter, state)
                for c in g.ifs:
                    state = self._expr(c, state)
            if isinstance(e, ast.DictComp):
                state = self._expr(e.key, state)
                state = self._expr(e.value, state)
            else:
                state = self._expr(e.elt, state)
            return state
        if isinstance(e, ast.Call):
            state = self._expr(e.func, state)
            for a in e.args:
                state = self._expr(a, state)
            for k in e.keywords:
                state = self._expr(k.value, state)
            self.ctx.node = e
            for ev in self.events(e, self.ctx):
                state = self.transfer(state, ev, self.ctx)
            targets = list(self.inline(e, self.ctx)) if len(self.ctx.stack) < self.max_depth else []
            if targets:
                res: Optional[State] = None
                walked = False
                for ref in targets:
                    if any(r.fn is ref.fn for r in self.ctx.stack):
                        continue  # recursion: the first unrolling carries the facts
                    walked = True
                    self.ctx.call_sites.append(e)
                    out = self._function(ref, state)
                    self.ctx.call_sites.pop()
                    if out is not None:
                        res = meet(res, out)
                if walked and res is not None:
                    state = res
            return state
        for child in ast.iter_child_nodes(e):
            if isinstance(child, (ast.expr_context, ast.operator, ast.unaryop, ast.boolop, ast.cmpop)):
                continue
            state = self._expr(child, state)
        self.ctx.node = e
        for ev in self.events(e, self.ctx):
            state = self.transfer(state, ev, self.ctx)
        return state
