"""
Interval x congruence abstract interpretation for the periodic-boundary entry methods (C15).

Abstract value of a float expression:
  * lin:   exact symbolic form  cx * x  +  cl * L  (+ n * L for an unknown integer n, if `mod`),  or None (unknown),
           where x is the float parameter of the method and L the box length of the component at hand;
  * lo/hi: bounds in units of L (Fractions, None = unbounded) with strictness flags.

Sound float semantics used for `a % L` with L > 0 (CPython float_rem): the result lies in the CLOSED interval
[0, L] -- for a tiny negative `a` the exact result L - |a| rounds to L itself -- and is congruent to a modulo L.
`math.fmod(a, L)` lies in (-L, L).
"""
import ast
from fractions import Fraction
from typing import Dict, List, Optional, Tuple

INF = None


class AVal:
    __slots__ = ("cx", "cl", "mod", "known", "lo", "lo_strict", "hi", "hi_strict")

    def __init__(self, cx=None, cl=None, mod=False, lo=None, lo_strict=False, hi=None, hi_strict=False):
        self.known = cx is not None
        self.cx = Fraction(cx) if cx is not None else None
        self.cl = Fraction(cl) if cl is not None else None
        self.mod = mod
        self.lo, self.lo_strict, self.hi, self.hi_strict = lo, lo_strict, hi, hi_strict

    def copy(self) -> "AVal":
        v = AVal(self.cx, self.cl, self.mod, self.lo, self.lo_strict, self.hi, self.hi_strict)
        return v

    def is_point(self) -> Optional[Fraction]:
        if self.lo is not None and self.hi is not None and self.lo == self.hi and not self.lo_strict \
                and not self.hi_strict:
            return self.lo
        return None

    def describe(self) -> str:
        lo = "-inf" if self.lo is None else f"{self.lo}L"
        hi = "+inf" if self.hi is None else f"{self.hi}L"
        rng = f"{'(' if self.lo_strict or self.lo is None else '['}{lo}, {hi}{')' if self.hi_strict or self.hi is None else ']'}"
        if self.known:
            lin = f"{self.cx}*x + {self.cl}*L" + (" + n*L" if self.mod else "")
        else:
            lin = "?"
        return f"range {rng}, value {lin}"


def top() -> AVal:
    return AVal()


def const_units(c: Fraction) -> AVal:
    """The value c * L."""
    return AVal(0, c, False, c, False, c, False)


def _add_bound(a, a_s, b, b_s):
    if a is None or b is None:
        return None, True
    return a + b, a_s or b_s


def add(a: AVal, b: AVal, sign: int = 1) -> AVal:
    if sign == -1:
        b = neg(b)
    r = AVal()
    if a.known and b.known:
        r.known = True
        r.cx, r.cl, r.mod = a.cx + b.cx, a.cl + b.cl, a.mod or b.mod
    r.lo, r.lo_strict = _add_bound(a.lo, a.lo_strict, b.lo, b.lo_strict)
    r.hi, r.hi_strict = _add_bound(a.hi, a.hi_strict, b.hi, b.hi_strict)
    if r.lo is None:
        r.lo_strict = False
    if r.hi is None:
        r.hi_strict = False
    return r


def neg(a: AVal) -> AVal:
    r = AVal()
    if a.known:
        r.known = True
        r.cx, r.cl, r.mod = -a.cx, -a.cl, a.mod
    r.lo, r.lo_strict = (None if a.hi is None else -a.hi), a.hi_strict
    r.hi, r.hi_strict = (None if a.lo is None else -a.lo), a.lo_strict
    return r


def py_mod(a: AVal) -> AVal:
    """a % L for L > 0, float semantics: closed [0, L], congruent to a."""
    r = AVal()
    if a.known:
        r.known, r.cx, r.cl, r.mod = True, a.cx, a.cl, True
    r.lo, r.lo_strict, r.hi, r.hi_strict = Fraction(0), False, Fraction(1), False
    return r


def c_fmod(a: AVal) -> AVal:
    r = AVal()
    if a.known:
        r.known, r.cx, r.cl, r.mod = True, a.cx, a.cl, True
    r.lo, r.lo_strict, r.hi, r.hi_strict = Fraction(-1), True, Fraction(1), True
    if a.lo is not None and a.lo >= 0:
        r.lo, r.lo_strict = Fraction(0), False
    return r


def refine(v: AVal, op: str, c: Fraction) -> Optional[AVal]:
    """v restricted by `v op c*L`; None if the restriction is empty."""
    r = v.copy()
    if op in ("<", "<="):
        strict = op == "<"
        if r.hi is None or c < r.hi or (c == r.hi and strict and not r.hi_strict):
            r.hi, r.hi_strict = c, strict
    elif op in (">", ">="):
        strict = op == ">"
        if r.lo is None or c > r.lo or (c == r.lo and strict and not r.lo_strict):
            r.lo, r.lo_strict = c, strict
    elif op == "==":
        r1 = refine(v, "<=", c)
        return refine(r1, ">=", c) if r1 is not None else None
    elif op == "!=":
        if r.lo is not None and r.lo == c and not r.lo_strict:
            r.lo_strict = True
        if r.hi is not None and r.hi == c and not r.hi_strict:
            r.hi_strict = True
    if r.lo is not None and r.hi is not None:
        if r.lo > r.hi or (r.lo == r.hi and (r.lo_strict or r.hi_strict)):
            return None
    return r


NEGATE = {"<": ">=", "<=": ">", ">": "<=", ">=": "<", "==": "!=", "!=": "=="}
FLIP = {"<": ">", "<=": ">=", ">": "<", ">=": "<=", "==": "==", "!=": "!="}
OPS = {ast.Lt: "<", ast.LtE: "<=", ast.Gt: ">", ast.GtE: ">=", ast.Eq: "==", ast.NotEq: "!="}


class Undecided(Exception):
    pass


class State:
    def __init__(self, env: Dict[str, AVal], x_cong_zero: bool = False):
        self.env = env
        self.x_cong_zero = x_cong_zero  # fact: x is an integer multiple of L on this path

    def copy(self) -> "State":
        return State({k: v.copy() for k, v in self.env.items()}, self.x_cong_zero)


class EntryInterpreter:
    """
    Interprets the body of a scalar boundary method `f(x, index)`.
    `resolve_symbol(expr)` maps an expression to ('L', key) / ('H', key) / None, where key identifies the component.
    """

    def __init__(self, func: ast.FunctionDef, xname: str, resolve_symbol, expected_key: str, call_summary=None):
        self.call_summary = call_summary
        self.func = func
        self.xname = xname
        self.resolve_symbol = resolve_symbol
        self.expected_key = expected_key
        self.wrong_component: List[ast.AST] = []

    def eval(self, e: ast.AST, st: State) -> AVal:
        sym = self.resolve_symbol(e)
        if sym is not None:
            kind, key = sym
            if key != self.expected_key:
                self.wrong_component.append(e)
                return top()
            return const_units(Fraction(1) if kind == "L" else Fraction(1, 2))
        if isinstance(e, ast.Name):
            if e.id in st.env:
                return st.env[e.id]
            return top()
        if isinstance(e, ast.Constant) and isinstance(e.value, (int, float)) and not isinstance(e.value, bool):
            if e.value == 0:
                return const_units(Fraction(0))
            return top()
        if isinstance(e, ast.UnaryOp) and isinstance(e.op, ast.USub):
            return neg(self.eval(e.operand, st))
        if isinstance(e, ast.UnaryOp) and isinstance(e.op, ast.UAdd):
            return self.eval(e.operand, st)
        if isinstance(e, ast.BinOp):
            if isinstance(e.op, ast.Add):
                return add(self.eval(e.left, st), self.eval(e.right, st))
            if isinstance(e.op, ast.Sub):
                return add(self.eval(e.left, st), self.eval(e.right, st), -1)
            if isinstance(e.op, ast.Mod):
                m = self.eval(e.right, st)
                if m.is_point() == 1 and m.known and m.cx == 0:
                    return py_mod(self.eval(e.left, st))
                return top()
            if isinstance(e.op, (ast.Mult, ast.Div)):
                l, r = self.eval(e.left, st), self.eval(e.right, st)
                k = _const_number(e.right)
                if k is not None and k != 0 and l.is_point() is not None and l.known and l.cx == 0:
                    f = Fraction(k).limit_denominator(1 << 20)
                    return const_units(l.is_point() * f if isinstance(e.op, ast.Mult) else l.is_point() / f)
                k = _const_number(e.left)
                if k is not None and isinstance(e.op, ast.Mult) and r.is_point() is not None and r.known and r.cx == 0:
                    return const_units(r.is_point() * Fraction(k).limit_denominator(1 << 20))
                return top()
        if isinstance(e, ast.Call):
            name = _call_name(e)
            if self.call_summary is not None:
                r = self.call_summary(e, st, self)
                if r is not None:
                    return r
            if name in ("math.fmod", "fmod") and len(e.args) == 2:
                m = self.eval(e.args[1], st)
                if m.is_point() == 1:
                    return c_fmod(self.eval(e.args[0], st))
            if name == "float" and len(e.args) == 1:
                return self.eval(e.args[0], st)
            # a routine that is not interpreted applied to (something computed from) the coordinate: the result is whatever that
            # routine does -- undecided here, not a wrong range
            if (name or "").split(".")[-1] not in ("correct_position_entry", "correct_separation_entry", "next_image") and \
                    any(isinstance(x, ast.Name) and x.id in st.env for a_ in e.args for x in ast.walk(a_)):
                raise Undecided(f"call of `{name}` not interpreted")
            return top()
        if isinstance(e, ast.IfExp):
            raise Undecided("conditional expression outside return/assign")
        return top()

    # -- conditions ---------------------------------------------------------------------------------------------
    def split(self, test: ast.AST, st: State) -> Tuple[Optional[State], Optional[State]]:
        """(state if test true, state if test false); None = infeasible."""
        if isinstance(test, ast.UnaryOp) and isinstance(test.op, ast.Not):
            t, f = self.split(test.operand, st)
            return f, t
        if isinstance(test, ast.Compare) and len(test.ops) == 1 and type(test.ops[0]) in OPS:
            op = OPS[type(test.ops[0])]
            left, right = test.left, test.comparators[0]
            if isinstance(left, ast.Name) and left.id in st.env:
                c = self.eval(right, st).is_point()
                var = left.id
            elif isinstance(right, ast.Name) and right.id in st.env:
                c = self.eval(left, st).is_point()
                var, op = right.id, FLIP[op]
            else:
                return st.copy(), st.copy()
            if c is None:
                return st.copy(), st.copy()
            out = []
            for o in (op, NEGATE[op]):
                rv = refine(st.env[var], o, c)
                if rv is None:
                    out.append(None)
                    continue
                s2 = st.copy()
                s2.env[var] = rv
                p = rv.is_point()
                if p is not None and rv.known and rv.cx == 1 and (p - rv.cl).denominator == 1:
                    # var == p*L exactly and var == x + cl*L (+ n*L)  =>  x = (p - cl - n)*L is a multiple of L
                    s2.x_cong_zero = True
                out.append(s2)
            return out[0], out[1]
        return st.copy(), st.copy()

    # -- statements ---------------------------------------------------------------------------------------------
    def run(self) -> List[Tuple[State, AVal, ast.AST]]:
        st = State({self.xname: AVal(1, 0, False)})
        results: List[Tuple[State, AVal, ast.AST]] = []
        self._block(self.func.body, st, results)
        return results

    def _assign(self, st: State, name: str, value: ast.AST, results, cont) -> None:
        if isinstance(value, ast.IfExp):
            t, f = self.split(value.test, st)
            for s2, branch in ((t, value.body), (f, value.orelse)):
                if s2 is not None:
                    self._assign(s2, name, branch, results, cont)
            return
        st.env[name] = self.eval(value, st)
        cont(st)

    def _block(self, stmts: List[ast.stmt], st: Optional[State], results) -> None:
        """Depth-first path enumeration; every path must end in a return."""
        if st is None:
            return
        if not stmts:
            results.append((st, None, None))  # falls off the end: returns None
            return
        s, rest = stmts[0], stmts[1:]
        if isinstance(s, ast.Expr) and isinstance(s.value, ast.Constant):
            return self._block(rest, st, results)
        if isinstance(s, ast.Return):
            if s.value is None:
                results.append((st, None, s))
            elif isinstance(s.value, ast.IfExp):
                t, f = self.split(s.value.test, st)
                if t is not None:
                    self._block([ast.Return(value=s.value.body, lineno=s.lineno)], t, results)
                if f is not None:
                    self._block([ast.Return(value=s.value.orelse, lineno=s.lineno)], f, results)
            else:
                results.append((st, self.eval(s.value, st), s))
            return
        if isinstance(s, ast.Assign) and len(s.targets) == 1 and isinstance(s.targets[0], ast.Name):
            return self._assign(st, s.targets[0].id, s.value, results, lambda s2: self._block(rest, s2, results))
        if isinstance(s, ast.AnnAssign) and isinstance(s.target, ast.Name) and s.value is not None:
            return self._assign(st, s.target.id, s.value, results, lambda s2: self._block(rest, s2, results))
        if isinstance(s, ast.AugAssign) and isinstance(s.target, ast.Name):
            value = ast.BinOp(left=ast.Name(id=s.target.id, ctx=ast.Load()), op=s.op, right=s.value)
            return self._assign(st, s.target.id, value, results, lambda s2: self._block(rest, s2, results))
        if isinstance(s, ast.If):
            t, f = self.split(s.test, st)
            self._block(list(s.body) + rest, t, results)
            self._block(list(s.orelse) + rest, f, results)
            return
        if isinstance(s, ast.Assert):
            t, _ = self.split(s.test, st)
            return self._block(rest, st, results)  # asserts are not relied upon
        if isinstance(s, (ast.Pass, ast.Import, ast.ImportFrom)):
            return self._block(rest, st, results)
        raise Undecided(f"statement kind {type(s).__name__} not interpreted")


def _const_number(e: ast.AST):
    if isinstance(e, ast.Constant) and isinstance(e.value, (int, float)) and not isinstance(e.value, bool):
        return e.value
    return None


def _call_name(e: ast.Call) -> str:
    f = e.func
    if isinstance(f, ast.Name):
        return f.id
    if isinstance(f, ast.Attribute) and isinstance(f.value, ast.Name):
        return f"{f.value.id}.{f.attr}"
    return ""


def congruent_to_x(v: AVal, st: State) -> bool:
    if not v.known:
        return False
    if v.cx == 1 and v.cl.denominator == 1:
        return True
    if v.cx == 0 and v.cl.denominator == 1 and st.x_cong_zero:
        return True
    return False


def within(v: AVal, lo: Fraction, lo_closed: bool, hi: Fraction, hi_closed: bool) -> bool:
    if v.lo is None or v.hi is None:
        return False
    if v.lo < lo or (v.lo == lo and not lo_closed and not v.lo_strict):
        return False
    if v.hi > hi or (v.hi == hi and not hi_closed and not v.hi_strict):
        return False
    return True
