"""
R4.7  grids of the bound estimators span the whole cell.

An estimator that bounds the derivative over a cell by evaluating it on a regular grid  lower + (upper - lower) * i / n  must let the
index i run over 0 .. n inclusive: with range(n) the grid stops one step short of the upper faces, the extreme value on those faces
is not seen, and the "bound" can lie below the true rate (thinning is then unsound, C04, and the sampled distribution wrong, C01).
Decided here: for every division  <index expression> / D  in jellyfysh/estimator whose index comes from `range(E)` (a loop, a
comprehension or itertools.product(range(E), ...)), E is D + 1.  Not decided: that the grid is fine enough (a numerical question).
"""
import ast
from typing import Dict, List, Optional

from .core import Loc, Report, Source, norm


def _range_arg(it: ast.AST) -> Optional[ast.AST]:
    if isinstance(it, ast.Call) and norm(it.func) == "range" and len(it.args) == 1:
        return it.args[0]
    return None


def check_estimator_grids(src: Source, rep: Report, rule: str = "R4.7-grid-reaches-upper-face") -> int:
    n = 0
    for rel in src.walk("jellyfysh/estimator", "*.py"):
        tree = src.parse(rel)
        for fn in [x for x in ast.walk(tree) if isinstance(x, ast.FunctionDef)]:
            scalar: Dict[str, ast.AST] = {}      # i  -> E   for i in range(E)
            tuples: Dict[str, ast.AST] = {}      # t  -> E   for t in product(range(E), ...)
            for node in ast.walk(fn):
                if isinstance(node, (ast.For, ast.comprehension)):
                    e = _range_arg(node.iter)
                    if e is not None and isinstance(node.target, ast.Name):
                        scalar[node.target.id] = e
                    it = node.iter
                    if isinstance(it, ast.Call) and norm(it.func).split(".")[-1] == "product" and it.args:
                        es = [_range_arg(a) for a in it.args]
                        if all(x is not None for x in es) and len({norm(x) for x in es}) == 1:
                            if isinstance(node.target, ast.Name):
                                tuples[node.target.id] = es[0]
                            elif isinstance(node.target, ast.Tuple):
                                for t in node.target.elts:
                                    if isinstance(t, ast.Name):
                                        scalar[t.id] = es[0]
            if not scalar and not tuples:
                continue
            for div in [x for x in ast.walk(fn) if isinstance(x, ast.BinOp) and isinstance(x.op, ast.Div)]:
                # index values in the numerator: names used as values (not as subscripts of something else)
                slices = {id(y) for s in ast.walk(div.left) if isinstance(s, ast.Subscript) for y in ast.walk(s.slice)}
                found: List[ast.AST] = []
                for y in ast.walk(div.left):
                    if isinstance(y, ast.Name) and y.id in scalar and id(y) not in slices:
                        found.append(scalar[y.id])
                    if isinstance(y, ast.Subscript) and isinstance(y.value, ast.Name) and y.value.id in tuples:
                        found.append(tuples[y.value.id])
                d = norm(div.right)
                for e in found:
                    et = norm(e)
                    if et in (f"{d} + 1", f"1 + {d}"):
                        ok: Optional[bool] = True
                    elif et == d:
                        ok = False
                    else:
                        continue            # not a grid of this shape (e.g. a loop over dimensions divided by something unrelated)
                    n += 1
                    rep.ob(rule, ok, Loc(rel, div.lineno, fn.name), div,
                           f"the index runs over range({et}) and is divided by {d}: the grid  lower + (upper - lower) * i / n  must include "
                           f"i = n (range(n + 1)), otherwise the upper faces of the cell are never evaluated and the bound over the cell "
                           f"can lie below the true rate")
    return n
