"""
E1 -- Python front end: module index, import resolution, class table with C3 MRO, method resolution.
Works on the Source abstraction (never imports the analysed package).
"""
import ast
from typing import Dict, Iterator, List, Optional, Tuple

from .core import AnalysisError, Source

PKG = "jellyfysh"
EXCLUDE_PREFIXES = ("jellyfysh/output/",)


class ModuleInfo:
    def __init__(self, file: str, name: str, tree: ast.Module, is_pkg: bool) -> None:
        self.file, self.name, self.tree, self.is_pkg = file, name, tree, is_pkg
        self.imports: Dict[str, str] = {}  # local name -> dotted target
        self.classes: Dict[str, "ClassInfo"] = {}
        self.functions: Dict[str, ast.FunctionDef] = {}
        self.assigns: Dict[str, ast.AST] = {}  # module-level simple assignments name -> value

    @property
    def package(self) -> str:
        return self.name if self.is_pkg else self.name.rsplit(".", 1)[0]


class ClassInfo:
    def __init__(self, module: ModuleInfo, node: ast.ClassDef) -> None:
        self.module, self.node, self.name = module, node, node.name
        self.file = module.file
        self.methods: Dict[str, ast.FunctionDef] = {n.name: n for n in node.body if isinstance(n, ast.FunctionDef)}
        self.bases: List[Optional["ClassInfo"]] = []
        self.base_names: List[str] = []
        self._mro: Optional[List["ClassInfo"]] = None

    @property
    def qual(self) -> str:
        return f"{self.module.name}.{self.name}"

    def __repr__(self) -> str:
        return f"<class {self.qual}>"

    def is_abstract_method(self, name: str) -> bool:
        m = self.methods.get(name)
        if m is None:
            return False
        return any((isinstance(d, ast.Name) and d.id == "abstractmethod") or
                   (isinstance(d, ast.Attribute) and d.attr == "abstractmethod") for d in m.decorator_list)


def const_value(prog: "Program", owner: Optional["ClassInfo"], e: Optional[ast.AST], depth: int = 0):
    """
    Value of a constant expression as the interpreter would bind it at definition time: literals, names of class attributes (of
    the defining class or its bases) and module-level constants, unary minus and arithmetic of those; None if not constant.
    """
    if e is None or depth > 5:
        return None
    try:
        return ast.literal_eval(e)
    except Exception:
        pass
    if isinstance(e, ast.Name) and owner is not None:
        for c in prog.mro(owner):
            for st in c.node.body:
                if isinstance(st, ast.Assign) and any(isinstance(t, ast.Name) and t.id == e.id for t in st.targets):
                    return const_value(prog, c, st.value, depth + 1)
                if isinstance(st, ast.AnnAssign) and isinstance(st.target, ast.Name) and st.target.id == e.id and st.value is not None:
                    return const_value(prog, c, st.value, depth + 1)
        if e.id in owner.module.assigns:
            return const_value(prog, owner, owner.module.assigns[e.id], depth + 1)
        return None
    if isinstance(e, ast.Attribute) and isinstance(e.value, ast.Name) and owner is not None and e.value.id in ("self", "cls", owner.name):
        return const_value(prog, owner, ast.Name(id=e.attr, ctx=ast.Load()), depth + 1)
    if isinstance(e, ast.UnaryOp) and isinstance(e.op, ast.USub):
        v = const_value(prog, owner, e.operand, depth + 1)
        return -v if isinstance(v, (int, float)) else None
    if isinstance(e, ast.BinOp):
        a, b = const_value(prog, owner, e.left, depth + 1), const_value(prog, owner, e.right, depth + 1)
        if isinstance(a, (int, float)) and isinstance(b, (int, float)):
            try:
                if isinstance(e.op, ast.Add):
                    return a + b
                if isinstance(e.op, ast.Sub):
                    return a - b
                if isinstance(e.op, ast.Mult):
                    return a * b
                if isinstance(e.op, ast.Div):
                    return a / b
            except ZeroDivisionError:
                return None
    return None


class Program:
    def __init__(self, src: Source) -> None:
        self.src = src
        self.modules: Dict[str, ModuleInfo] = {}
        self.by_file: Dict[str, ModuleInfo] = {}
        self.classes: List[ClassInfo] = []
        self._load()

    # -- loading ------------------------------------------------------------------------------------------------
    def _load(self) -> None:
        files = [f for f in self.src.walk(PKG, "*.py") if not f.startswith(EXCLUDE_PREFIXES)]
        if len(files) < 50:
            raise AnalysisError(f"only {len(files)} python modules found below {PKG}/")
        for f in files:
            parts = f[:-3].split("/")
            is_pkg = parts[-1] == "__init__"
            if is_pkg:
                parts = parts[:-1]
            name = ".".join(parts)
            mi = ModuleInfo(f, name, self.src.parse(f), is_pkg)
            self.modules[name] = mi
            self.by_file[f] = mi
        for mi in self.modules.values():
            self._index_module(mi)
        for ci in self.classes:
            for b in ci.node.bases:
                bn = _dotted(b)
                ci.base_names.append(bn or "?")
                ci.bases.append(self.resolve_class(ci.module, bn) if bn else None)
        # second pass of the normal form: with all classes known, write summaries of the methods tell which self-calls leave a
        # local's value intact (normalize.mod_summaries), so more locals can be propagated
        if not self.src.__dict__.get("_jfsa_normal_phase_b"):
            self.src.__dict__["_jfsa_normal_phase_b"] = True
            from .normalize import normalise_function
            from .records import normalise_records
            normalise_records(self)
            # predicates of the package that were extracted into module-level functions are read where they are tested
            from .normalize import _inline_test_predicates
            for mi in self.modules.values():
                for ci in mi.classes.values():
                    for m in ci.methods.values():
                        if any(isinstance(x, ast.If) and isinstance(x.test, (ast.Call, ast.UnaryOp)) for x in ast.walk(m)):
                            _inline_test_predicates(self, ci, m, set(), methods_too="final")
            for mi in self.modules.values():
                for fn in [n for n in ast.walk(mi.tree) if isinstance(n, ast.FunctionDef)]:
                    normalise_function(fn, self)
                ast.fix_missing_locations(mi.tree)

    def _index_module(self, mi: ModuleInfo) -> None:
        for n in mi.tree.body:
            self._index_stmt(mi, n)

    def _index_stmt(self, mi: ModuleInfo, n: ast.stmt) -> None:
        if isinstance(n, ast.Import):
            for a in n.names:
                if a.asname:
                    mi.imports[a.asname] = a.name
                else:
                    mi.imports[a.name.split(".")[0]] = a.name.split(".")[0]
        elif isinstance(n, ast.ImportFrom):
            if n.level:
                base = mi.name.split(".") if mi.is_pkg else mi.name.split(".")[:-1]
                base = base[:len(base) - (n.level - 1)]
                modname = ".".join(base + ([n.module] if n.module else []))
            else:
                modname = n.module or ""
            for a in n.names:
                mi.imports[a.asname or a.name] = f"{modname}.{a.name}"
        elif isinstance(n, ast.ClassDef):
            ci = ClassInfo(mi, n)
            ci.prog = self
            mi.classes[n.name] = ci
            self.classes.append(ci)
        elif isinstance(n, ast.FunctionDef):
            mi.functions[n.name] = n
        elif isinstance(n, ast.Assign) and len(n.targets) == 1 and isinstance(n.targets[0], ast.Name):
            mi.assigns[n.targets[0].id] = n.value
        elif isinstance(n, (ast.If, ast.Try)):
            for sub in ast.iter_child_nodes(n):
                if isinstance(sub, ast.stmt):
                    self._index_stmt(mi, sub)
            if isinstance(n, ast.Try):
                for h in n.handlers:
                    for sub in h.body:
                        self._index_stmt(mi, sub)

    # -- resolution ---------------------------------------------------------------------------------------------
    def resolve_dotted(self, dotted: str, depth: int = 0):
        """Resolve a dotted absolute name to ModuleInfo, ClassInfo, ('func', mi, node), ('var', mi, name) or None."""
        if depth > 12 or not dotted:
            return None
        if dotted in self.modules:
            return self.modules[dotted]
        if "." not in dotted:
            return None
        head, attr = dotted.rsplit(".", 1)
        owner = self.resolve_dotted(head, depth + 1)
        if isinstance(owner, ModuleInfo):
            if attr in owner.classes:
                return owner.classes[attr]
            if attr in owner.functions:
                return "func", owner, owner.functions[attr]
            if attr in owner.imports:
                return self.resolve_dotted(owner.imports[attr], depth + 1)
            if attr in owner.assigns:
                return "var", owner, attr
            sub = f"{owner.name}.{attr}"
            if sub in self.modules:
                return self.modules[sub]
        return None

    def resolve_name(self, mi: ModuleInfo, dotted: str):
        """Resolve a (possibly dotted) name as seen from module mi."""
        if not dotted:
            return None
        head, _, rest = dotted.partition(".")
        if head in mi.classes:
            target = mi.classes[head]
            return target if not rest else None
        if head in mi.functions and not rest:
            return "func", mi, mi.functions[head]
        if head in mi.imports:
            full = mi.imports[head] + ("." + rest if rest else "")
            return self.resolve_dotted(full)
        if head in mi.assigns and not rest:
            return "var", mi, head
        return None

    def resolve_class(self, mi: ModuleInfo, dotted: str) -> Optional[ClassInfo]:
        r = self.resolve_name(mi, dotted)
        return r if isinstance(r, ClassInfo) else None

    def class_named(self, name: str) -> ClassInfo:
        cs = [c for c in self.classes if c.name == name]
        if len(cs) != 1:
            raise AnalysisError(f"class {name}: {len(cs)} definitions found (anchor vanished or ambiguous)")
        return cs[0]

    def classes_in(self, file: str) -> List[ClassInfo]:
        return [c for c in self.classes if c.file == file]

    def classes_named(self, name: str) -> List[ClassInfo]:
        return [c for c in self.classes if c.name == name]

    def mro(self, ci: ClassInfo) -> List[ClassInfo]:
        if ci._mro is None:
            ci._mro = self._c3(ci, ())
        return ci._mro

    def _c3(self, ci: ClassInfo, stack: Tuple[ClassInfo, ...]) -> List[ClassInfo]:
        if ci in stack:
            raise AnalysisError(f"inheritance cycle at {ci.qual}")
        bases = [b for b in ci.bases if b is not None]
        seqs = [list(self._c3(b, stack + (ci,))) for b in bases] + [list(bases)]
        res = [ci]
        while True:
            seqs = [s for s in seqs if s]
            if not seqs:
                return res
            for s in seqs:
                cand = s[0]
                if not any(cand in t[1:] for t in seqs):
                    break
            else:
                raise AnalysisError(f"inconsistent MRO for {ci.qual}")
            res.append(cand)
            for s in seqs:
                if s[0] is cand:
                    del s[0]

    def resolve_method(self, ci: ClassInfo, name: str, after: Optional[ClassInfo] = None
                       ) -> Optional[Tuple[ClassInfo, ast.FunctionDef]]:
        """First definition of `name` in the MRO of ci (strictly after class `after` if given: super())."""
        mro = self.mro(ci)
        if after is not None:
            if after not in mro:
                return None
            mro = mro[mro.index(after) + 1:]
        for c in mro:
            if name in c.methods:
                return c, c.methods[name]
        return None

    def is_subclass(self, ci: ClassInfo, ancestor_name: str) -> bool:
        return any(c.name == ancestor_name for c in self.mro(ci))

    def subclasses(self, ancestor_name: str, strict: bool = True) -> List[ClassInfo]:
        return [c for c in self.classes if self.is_subclass(c, ancestor_name)
                and (not strict or c.name != ancestor_name)]

    def is_concrete(self, ci: ClassInfo) -> bool:
        """No abstract method remains unimplemented along the MRO."""
        seen = set()
        for c in self.mro(ci):
            for name in c.methods:
                if name in seen:
                    continue
                seen.add(name)
                if c.is_abstract_method(name):
                    return False
        return True

    def all_methods(self, ci: ClassInfo) -> Dict[str, Tuple[ClassInfo, ast.FunctionDef]]:
        out: Dict[str, Tuple[ClassInfo, ast.FunctionDef]] = {}
        for c in self.mro(ci):
            for name, fn in c.methods.items():
                out.setdefault(name, (c, fn))
        return out

    def functions(self) -> Iterator[Tuple[ModuleInfo, Optional[ClassInfo], ast.FunctionDef]]:
        for mi in self.modules.values():
            for fn in mi.functions.values():
                yield mi, None, fn
            for ci in mi.classes.values():
                for fn in ci.methods.values():
                    yield mi, ci, fn


def _dotted(e: ast.AST) -> Optional[str]:
    if isinstance(e, ast.Name):
        return e.id
    if isinstance(e, ast.Attribute):
        h = _dotted(e.value)
        return f"{h}.{e.attr}" if h else None
    return None


dotted = _dotted


def body_without_docstring(fn) -> List[ast.stmt]:
    b = list(fn.body)
    if b and isinstance(b[0], ast.Expr) and isinstance(b[0].value, ast.Constant) and isinstance(b[0].value.value, str):
        b = b[1:]
    return b


def self_attr(e: ast.AST) -> Optional[str]:
    """'x' for self.x"""
    if isinstance(e, ast.Attribute) and isinstance(e.value, ast.Name) and e.value.id == "self":
        return e.attr
    return None


def param_names(fn: ast.FunctionDef, skip_self: bool = True) -> List[str]:
    names = [a.arg for a in fn.args.posonlyargs + fn.args.args]
    if skip_self and names and names[0] in ("self", "cls"):
        names = names[1:]
    return names
