"""
Metamorphic variants of the whole Python source tree: mechanical, behaviour-preserving rewrites applied to every function of
every module (through the source overlay, /repo is not written).  A check that is not silent on a variant has a rule that reads
the layout of the code instead of what it does.  The rewrites are purely syntactic and semantics-preserving by construction:

  flip-if        if c: A else: B            ->  if not c: B else: A
  guard-to-else  if c: <leaves>; rest       ->  if c: <leaves> else: rest
  else-to-guard  if c: <leaves> else: B     ->  if c: <leaves>; B          (and the mirror case)
  aug-expand     x += y                     ->  x = x + y                  (names / attributes / subscripts of numbers; see note)
  rename-locals  local variables get a suffix
  compare-flip   a < b                      ->  b > a
  de-morgan      a or b                     ->  not (not a and not b)      (only in if / while tests)
  return-local   return <expr>              ->  result_ = <expr>; return result_
  keys-in        x in d.keys()              ->  x in d

aug-expand is applied only where the target is not a list-typed accumulator (`x += [..]`, `x += other_list` would rebind instead
of extending in place): targets whose right-hand side is a list display / comprehension / a subscript of a self attribute, and
targets that are plain names initialised with a list are skipped.
"""
import ast
import copy
from typing import Callable, Dict, List, Optional, Set

from .core import Source

LEAVES = (ast.Return, ast.Raise, ast.Continue, ast.Break)


def _leaves(stmts: List[ast.stmt]) -> bool:
    return bool(stmts) and isinstance(stmts[-1], LEAVES)


def _neg(test: ast.AST) -> ast.AST:
    if isinstance(test, ast.UnaryOp) and isinstance(test.op, ast.Not):
        return test.operand
    return ast.UnaryOp(op=ast.Not(), operand=test)


class FlipIf(ast.NodeTransformer):
    def visit_If(self, node: ast.If):
        self.generic_visit(node)
        if node.orelse:
            return ast.copy_location(ast.If(test=_neg(node.test), body=node.orelse, orelse=node.body), node)
        return node


class _Blocks(ast.NodeTransformer):
    """base: rewrite every statement list"""

    def block(self, stmts: List[ast.stmt]) -> List[ast.stmt]:
        return stmts

    def generic_visit(self, node):
        super().generic_visit(node)
        for fld in ("body", "orelse", "finalbody"):
            b = getattr(node, fld, None)
            if isinstance(b, list) and b and isinstance(b[0], ast.stmt):
                setattr(node, fld, self.block(b))
        if isinstance(node, ast.Try):
            for h in node.handlers:
                h.body = self.block(h.body)
        return node


class GuardToElse(_Blocks):
    def block(self, stmts):
        for i, s in enumerate(stmts):
            if isinstance(s, ast.If) and not s.orelse and _leaves(s.body) and i + 1 < len(stmts):
                s.orelse = self.block(stmts[i + 1:])
                return stmts[:i + 1]
        return stmts


class ElseToGuard(_Blocks):
    def block(self, stmts):
        out: List[ast.stmt] = []
        for s in stmts:
            if isinstance(s, ast.If) and s.orelse and _leaves(s.body):
                rest = s.orelse
                s.orelse = []
                out.append(s)
                out.extend(rest)
            elif isinstance(s, ast.If) and s.orelse and _leaves(s.orelse):
                g = ast.copy_location(ast.If(test=_neg(s.test), body=s.orelse, orelse=[]), s)
                out.append(g)
                out.extend(s.body)
            else:
                out.append(s)
        return out


class AugExpand(ast.NodeTransformer):
    def __init__(self) -> None:
        self.list_names: Set[str] = set()

    def visit_FunctionDef(self, node: ast.FunctionDef):
        saved = self.list_names
        self.list_names = {t.id for a in ast.walk(node) if isinstance(a, ast.Assign) and isinstance(a.value, (ast.List, ast.ListComp, ast.Dict, ast.Set))
                           for t in a.targets if isinstance(t, ast.Name)}
        self.generic_visit(node)
        self.list_names = saved
        return node

    def visit_AugAssign(self, node: ast.AugAssign):
        v = node.value
        listy = isinstance(v, (ast.List, ast.ListComp, ast.Tuple)) or (isinstance(node.target, ast.Name) and node.target.id in self.list_names) \
            or (isinstance(v, ast.Subscript) and isinstance(v.value, ast.Attribute)) or isinstance(v, ast.Name) and v.id in self.list_names
        if listy or not isinstance(node.op, (ast.Add, ast.Sub, ast.Mult)):
            return node
        load = copy.deepcopy(node.target)
        for x in ast.walk(load):
            if hasattr(x, "ctx"):
                x.ctx = ast.Load()
        return ast.copy_location(ast.Assign(targets=[node.target], value=ast.BinOp(left=load, op=node.op, right=node.value)), node)


class RenameLocals(ast.NodeTransformer):
    def visit_FunctionDef(self, node: ast.FunctionDef):
        # innermost functions first
        self.generic_visit(node)
        params = {a.arg for a in node.args.posonlyargs + node.args.args + node.args.kwonlyargs}
        if node.args.vararg:
            params.add(node.args.vararg.arg)
        if node.args.kwarg:
            params.add(node.args.kwarg.arg)
        declared = {n for g in ast.walk(node) if isinstance(g, (ast.Global, ast.Nonlocal)) for n in g.names}
        nested_params = {a.arg for f in ast.walk(node) if isinstance(f, (ast.FunctionDef, ast.Lambda)) and f is not node
                         for a in f.args.posonlyargs + f.args.args + f.args.kwonlyargs}
        local = {n.id for n in ast.walk(node) if isinstance(n, ast.Name) and isinstance(n.ctx, ast.Store)} - params - declared - nested_params
        local = {n for n in local if not n.endswith("_v")}
        handlers = {h.name for h in ast.walk(node) if isinstance(h, ast.ExceptHandler) and h.name}
        local -= handlers
        for n in ast.walk(node):
            if isinstance(n, ast.Name) and n.id in local:
                n.id = n.id + "_v"
        return node


class CompareFlip(ast.NodeTransformer):
    SW = {ast.Lt: ast.Gt, ast.Gt: ast.Lt, ast.LtE: ast.GtE, ast.GtE: ast.LtE}

    def visit_Compare(self, node: ast.Compare):
        self.generic_visit(node)
        if len(node.ops) == 1 and type(node.ops[0]) in self.SW:
            return ast.copy_location(ast.Compare(left=node.comparators[0], ops=[self.SW[type(node.ops[0])]()], comparators=[node.left]), node)
        return node


class DeMorgan(ast.NodeTransformer):
    def _rw(self, test: ast.AST) -> ast.AST:
        if isinstance(test, ast.BoolOp) and isinstance(test.op, ast.Or):
            return ast.UnaryOp(op=ast.Not(), operand=ast.BoolOp(op=ast.And(), values=[_neg(self._rw(v)) for v in test.values]))
        return test

    def visit_If(self, node: ast.If):
        self.generic_visit(node)
        node.test = self._rw(node.test)
        return node

    def visit_While(self, node: ast.While):
        self.generic_visit(node)
        node.test = self._rw(node.test)
        return node


class ReturnLocal(_Blocks):
    def block(self, stmts):
        out: List[ast.stmt] = []
        for s in stmts:
            if isinstance(s, ast.Return) and s.value is not None and not isinstance(s.value, (ast.Name, ast.Constant)) \
                    and not any(isinstance(x, (ast.Yield, ast.YieldFrom, ast.Await)) for x in ast.walk(s.value)):
                a = ast.copy_location(ast.Assign(targets=[ast.Name(id="result_", ctx=ast.Store())], value=s.value), s)
                r = ast.copy_location(ast.Return(value=ast.Name(id="result_", ctx=ast.Load())), s)
                out.extend([a, r])
            else:
                out.append(s)
        return out


class KeysIn(ast.NodeTransformer):
    def visit_Compare(self, node: ast.Compare):
        self.generic_visit(node)
        if len(node.ops) == 1 and isinstance(node.ops[0], (ast.In, ast.NotIn)):
            c = node.comparators[0]
            if isinstance(c, ast.Call) and isinstance(c.func, ast.Attribute) and c.func.attr == "keys" and not c.args:
                node.comparators = [c.func.value]
        return node


TRANSFORMS: Dict[str, Callable[[], ast.NodeTransformer]] = {
    "flip-if": FlipIf, "guard-to-else": GuardToElse, "else-to-guard": ElseToGuard, "aug-expand": AugExpand,
    "rename-locals": RenameLocals, "compare-flip": CompareFlip, "de-morgan": DeMorgan, "return-local": ReturnLocal,
    "keys-in": KeysIn,
}


def variant_overlay(src: Source, name: str, top: str = "jellyfysh", only: Optional[Set[str]] = None) -> Dict[str, str]:
    """overlay for the named transformation over every .py file below `top` (unit tests excluded); unchanged files are left out"""
    out: Dict[str, str] = {}
    for rel in src.walk(top, "*.py"):
        if "/unittest/" in rel or rel.endswith("_build.py"):
            continue
        if only is not None and rel not in only:
            continue
        text = src.read(rel)
        try:
            tree = ast.parse(text)
        except SyntaxError:
            continue
        before = ast.dump(tree)
        new = TRANSFORMS[name]().visit(tree)
        ast.fix_missing_locations(new)
        if ast.dump(new) != before:
            out[rel] = ast.unparse(new) + "\n"
    return out
