"""
Name-independent comparison of expressions inside one function: locals that are assigned exactly once are replaced by their
defining expressions (for comparison only -- purity does not matter because nothing is moved), products / sums are flattened
and sorted.  Rules use this to state "the value subtracted is the value put into the row" without naming any variable.
"""
import ast
import copy
from typing import Dict, List, Optional, Tuple

from .core import norm


class Resolver:
    def __init__(self, fn: ast.AST) -> None:
        counts: Dict[str, int] = {}
        self.defs: Dict[str, ast.AST] = {}
        for n in ast.walk(fn):
            if isinstance(n, ast.Name) and isinstance(n.ctx, (ast.Store, ast.Del)):
                counts[n.id] = counts.get(n.id, 0) + 1
            elif isinstance(n, ast.arg):
                counts[n.arg] = counts.get(n.arg, 0) + 2
        for n in ast.walk(fn):
            if isinstance(n, ast.Assign) and len(n.targets) == 1 and isinstance(n.targets[0], ast.Name) and counts.get(n.targets[0].id) == 1:
                # a freshly built container is an object with identity (it is filled later), not a value to substitute
                if isinstance(n.value, (ast.List, ast.Dict, ast.Set, ast.ListComp, ast.DictComp, ast.SetComp)) or \
                        (isinstance(n.value, ast.Call) and norm(n.value.func) in ("list", "dict", "set", "deque", "collections.deque")):
                    continue
                self.defs[n.targets[0].id] = n.value
            elif isinstance(n, ast.Assign) and len(n.targets) == 1 and isinstance(n.targets[0], (ast.Tuple, ast.List)) \
                    and isinstance(n.value, (ast.Tuple, ast.List)) and len(n.value.elts) == len(n.targets[0].elts):
                for t, v in zip(n.targets[0].elts, n.value.elts):
                    if isinstance(t, ast.Name) and counts.get(t.id) == 1:
                        self.defs[t.id] = v

    def res(self, e: ast.AST, keep: Tuple[str, ...] = (), depth: int = 6) -> ast.AST:
        """copy of e with single-assignment locals (except those in `keep`) replaced by their definitions"""
        defs, outer = self.defs, self

        class T(ast.NodeTransformer):
            def visit_Name(self, node: ast.Name):
                if isinstance(node.ctx, ast.Load) and node.id in defs and node.id not in keep and depth > 0:
                    return outer.res(defs[node.id], keep, depth - 1)
                return node
        return T().visit(copy.deepcopy(e))

    def text(self, e: ast.AST, keep: Tuple[str, ...] = ()) -> str:
        return norm(self.res(e, keep))

    def factors(self, e: ast.AST, keep: Tuple[str, ...] = ()) -> List[str]:
        """sorted texts of the factors of a product (division by a product contributes `1/<factor>`)"""
        out: List[str] = []

        def go(x: ast.AST, inv: bool) -> None:
            if isinstance(x, ast.BinOp) and isinstance(x.op, ast.Mult):
                go(x.left, inv)
                go(x.right, inv)
            elif isinstance(x, ast.BinOp) and isinstance(x.op, ast.Div):
                go(x.left, inv)
                go(x.right, not inv)
            else:
                out.append(("1/" if inv else "") + norm(x))
        go(self.res(e, keep), False)
        return sorted(out)

    def definition(self, name: str) -> Optional[ast.AST]:
        return self.defs.get(name)


def split_atom(atom: str) -> Optional[Tuple[str, str, str]]:
    """(left, op, right) of a normalised comparison atom produced by guards.atoms"""
    for op in (" <= ", " < ", " == ", " != ", " not in ", " in ", " is not ", " is "):
        depth = 0
        for i, ch in enumerate(atom):
            if ch in "([{":
                depth += 1
            elif ch in ")]}":
                depth -= 1
            elif depth == 0 and atom.startswith(op, i):
                return atom[:i], op.strip(), atom[i + len(op):]
    return None
