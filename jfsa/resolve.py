"""
Name-independent comparison of expressions inside one function: locals are replaced by their defining expressions (for
comparison only -- purity does not matter because nothing is moved), products / sums are flattened and sorted.  Rules use this
to state "the value subtracted is the value put into the row" without naming any variable.

Which definition: a local that is assigned exactly once in the function resolves to that assignment; a local that is assigned
several times (e.g. the same name reused in two loops) resolves to the latest assignment that precedes the use in the same
block or in an enclosing block (a definition in a sibling branch or in a different loop is never taken).
"""
import ast
import copy
from typing import Dict, List, Optional, Tuple

from .core import norm

Path = Tuple[Tuple[int, int], ...]


def _is_container_display(v: ast.AST) -> bool:
    return isinstance(v, (ast.List, ast.Dict, ast.Set, ast.ListComp, ast.DictComp, ast.SetComp)) or \
        (isinstance(v, ast.Call) and norm(v.func) in ("list", "dict", "set", "deque", "collections.deque"))


class Resolver:
    def __init__(self, fn: ast.AST, unpack_calls: bool = False) -> None:
        # unpack_calls: `a, b = f(..)` also makes a = f(..)[0], b = f(..)[1] (off by default: rules that follow values INTO tuple-returning
        # helpers need the names)
        self.unpack_calls = unpack_calls
        counts: Dict[str, int] = {}
        self.defs: Dict[str, ast.AST] = {}
        self.paths: Dict[int, Path] = {}          # node id -> path of the enclosing statement
        self.all_defs: Dict[str, List[Tuple[Path, ast.AST]]] = {}
        for n in ast.walk(fn):
            if isinstance(n, ast.Name) and isinstance(n.ctx, (ast.Store, ast.Del)):
                counts[n.id] = counts.get(n.id, 0) + 1
            elif isinstance(n, ast.arg):
                counts[n.arg] = counts.get(n.arg, 0) + 2
        self.counts = counts
        self.mutated = set()
        for n in ast.walk(fn):
            if isinstance(n, ast.Call) and isinstance(n.func, ast.Attribute) and isinstance(n.func.value, ast.Name) \
                    and n.func.attr in ("append", "extend", "insert", "pop", "remove", "clear", "sort", "reverse", "update", "add", "discard",
                                        "setdefault", "popitem", "popleft", "appendleft"):
                self.mutated.add(n.func.value.id)
            if isinstance(n, ast.Subscript) and isinstance(n.ctx, (ast.Store, ast.Del)) and isinstance(n.value, ast.Name):
                self.mutated.add(n.value.id)
            if isinstance(n, ast.AugAssign) and isinstance(n.target, ast.Name):
                self.mutated.add(n.target.id)
        # names that are accumulated into or bound by loops / with / except are never resolved to one of their assignments
        self.unstable = set()
        for n in ast.walk(fn):
            if isinstance(n, ast.AugAssign):
                self.unstable.update(x.id for x in ast.walk(n.target) if isinstance(x, ast.Name))
            elif isinstance(n, (ast.For, ast.comprehension)):
                self.unstable.update(x.id for x in ast.walk(n.target) if isinstance(x, ast.Name))
            elif isinstance(n, ast.ExceptHandler) and n.name:
                self.unstable.add(n.name)
            elif isinstance(n, ast.withitem) and n.optional_vars is not None:
                self.unstable.update(x.id for x in ast.walk(n.optional_vars) if isinstance(x, ast.Name))

        def index(stmts: List[ast.stmt], prefix: Path) -> None:
            for i, st in enumerate(stmts):
                path = prefix + ((id(stmts), i),)
                nested = []
                for fld in ("body", "orelse", "finalbody"):
                    b = getattr(st, fld, None)
                    if isinstance(b, list) and b and isinstance(b[0], ast.stmt):
                        nested.append(b)
                if isinstance(st, ast.Try):
                    nested.extend(h.body for h in st.handlers)
                inner_ids = set()
                for b in nested:
                    index(b, path)
                    for s2 in b:
                        inner_ids.update(id(x) for x in ast.walk(s2))
                for x in ast.walk(st):
                    if id(x) not in inner_ids:
                        self.paths.setdefault(id(x), path)
                self._record_defs(st, path)
        body = getattr(fn, "body", None)
        if isinstance(body, list):
            index(body, ())

    def _record_defs(self, n: ast.stmt, path: Path) -> None:
        pairs: List[Tuple[str, ast.AST]] = []
        if isinstance(n, ast.Assign) and len(n.targets) == 1 and isinstance(n.targets[0], ast.Name):
            # a freshly built container is an object with identity (it is filled later), not a value to substitute
            # ... unless it is never changed after it was built
            if not _is_container_display(n.value) or n.targets[0].id not in self.mutated:
                pairs.append((n.targets[0].id, n.value))
        elif isinstance(n, ast.Assign) and len(n.targets) == 1 and isinstance(n.targets[0], (ast.Tuple, ast.List)):
            t = n.targets[0]
            if isinstance(n.value, (ast.Tuple, ast.List)) and len(n.value.elts) == len(t.elts):
                pairs += [(x.id, v) for x, v in zip(t.elts, n.value.elts) if isinstance(x, ast.Name)]
            elif isinstance(n.value, (ast.Subscript, ast.Attribute, ast.Name, ast.Call)) and any(isinstance(x, ast.Starred) for x in t.elts):
                # first, *rest = X : first is X[0], rest is X[1:]  (one starred target, no targets after it)
                k = [i for i, x in enumerate(t.elts) if isinstance(x, ast.Starred)]
                if len(k) == 1 and k[0] == len(t.elts) - 1 and isinstance(t.elts[-1].value, ast.Name):
                    for i, x in enumerate(t.elts[:-1]):
                        if isinstance(x, ast.Name):
                            sub = ast.copy_location(ast.Subscript(value=n.value, slice=ast.Constant(value=i), ctx=ast.Load()), n.value)
                            self.paths[id(sub)] = path
                            pairs.append((x.id, sub))
                    sl = ast.copy_location(ast.Subscript(value=n.value, slice=ast.Slice(lower=ast.Constant(value=k[0]), upper=None, step=None),
                                                         ctx=ast.Load()), n.value)
                    self.paths[id(sl)] = path
                    pairs.append((t.elts[-1].value.id, sl))
            elif isinstance(n.value, (ast.Subscript, ast.Attribute, ast.Name)) or (isinstance(n.value, ast.Call) and self.unpack_calls):
                # a, b = X  (X a stored pair): a is X[0], b is X[1]
                for i, x in enumerate(t.elts):
                    if isinstance(x, ast.Name):
                        sub = ast.copy_location(ast.Subscript(value=n.value, slice=ast.Constant(value=i), ctx=ast.Load()), n.value)
                        self.paths[id(sub)] = path
                        pairs.append((x.id, sub))
        for name, v in pairs:
            self.all_defs.setdefault(name, []).append((path, v))
            if self.counts.get(name) == 1:
                self.defs[name] = v

    def _reaching(self, name: str, at: Optional[Path]) -> Optional[ast.AST]:
        if name in self.defs:
            return self.defs[name]
        if at is None or name not in self.all_defs or name in self.unstable:
            return None
        best: Optional[Tuple[Path, ast.AST]] = None
        for path, v in self.all_defs[name]:
            k = len(path)
            if k > len(at) or path[:k - 1] != at[:k - 1]:
                continue
            if path[k - 1][0] != at[k - 1][0] or path[k - 1][1] >= at[k - 1][1]:
                continue
            if best is None or path > best[0]:
                best = (path, v)
        return best[1] if best is not None else None

    def res(self, e: ast.AST, keep: Tuple[str, ...] = (), depth: int = 6, at: Optional[Path] = None) -> ast.AST:
        """copy of e with locals (except those in `keep`) replaced by their (reaching) definitions"""
        return self._subst(e, tuple(keep), depth, at if at is not None else self.paths.get(id(e)))

    def _subst(self, e: ast.AST, keep: Tuple[str, ...], depth: int, at: Optional[Path]) -> ast.AST:
        if isinstance(e, ast.Name) and isinstance(e.ctx, ast.Load) and e.id not in keep and depth > 0:
            here = self.paths.get(id(e), at)
            d = self._reaching(e.id, here)
            if d is not None:
                return self._subst(d, keep, depth - 1, self.paths.get(id(d), here))
            return copy.copy(e)
        if isinstance(e, (ast.Lambda, ast.ListComp, ast.SetComp, ast.DictComp, ast.GeneratorExp)):
            # names bound inside are not locals of the function: protect them
            bound = {a.arg for a in e.args.args} if isinstance(e, ast.Lambda) else \
                {x.id for g in e.generators for x in ast.walk(g.target) if isinstance(x, ast.Name)}
            keep = keep + tuple(bound)
        new = copy.copy(e)
        for field, value in ast.iter_fields(e):
            if isinstance(value, list):
                setattr(new, field, [self._subst(v, keep, depth, at) if isinstance(v, ast.AST) else v for v in value])
            elif isinstance(value, ast.AST):
                setattr(new, field, self._subst(value, keep, depth, at))
        # X[k:][i] is X[k + i]
        if isinstance(new, ast.Subscript) and isinstance(new.slice, ast.Constant) and isinstance(new.slice.value, int) and new.slice.value >= 0 \
                and isinstance(new.value, ast.Subscript) and isinstance(new.value.slice, ast.Slice) and new.value.slice.upper is None \
                and new.value.slice.step is None and isinstance(new.value.slice.lower, ast.Constant) and isinstance(new.value.slice.lower.value, int) \
                and new.value.slice.lower.value >= 0:
            return ast.copy_location(ast.Subscript(value=new.value.value, slice=ast.Constant(value=new.value.slice.lower.value + new.slice.value),
                                                   ctx=ast.Load()), new)
        return new

    def text(self, e: ast.AST, keep: Tuple[str, ...] = ()) -> str:
        return norm(self.res(e, keep))

    def factors(self, e: ast.AST, keep: Tuple[str, ...] = ()) -> List[str]:
        """sorted texts of the factors of a product (division by a product contributes `1/<factor>`)"""
        out: List[str] = []

        def go(x: ast.AST, inv: bool) -> None:
            if isinstance(x, ast.BinOp) and isinstance(x.op, ast.Mult):
                go(x.left, inv)
                go(x.right, inv)
            elif isinstance(x, ast.BinOp) and isinstance(x.op, ast.Div):
                go(x.left, inv)
                go(x.right, not inv)
            else:
                out.append(("1/" if inv else "") + norm(x))
        go(self.res(e, keep), False)
        return sorted(out)

    def definition(self, name: str) -> Optional[ast.AST]:
        return self.defs.get(name)


def split_atom(atom: str) -> Optional[Tuple[str, str, str]]:
    """(left, op, right) of a normalised comparison atom produced by guards.atoms"""
    for op in (" <= ", " < ", " == ", " != ", " not in ", " in ", " is not ", " is "):
        depth = 0
        for i, ch in enumerate(atom):
            if ch in "([{":
                depth += 1
            elif ch in ")]}":
                depth -= 1
            elif depth == 0 and atom.startswith(op, i):
                return atom[:i], op.strip(), atom[i + len(op):]
    return None


def elementwise(fn: ast.AST, value: ast.AST):
    """
    How the sequence `value` is built element by element: (element expression, loop variable text, iterated expression, filtered?)
    for a comprehension / generator (possibly wrapped in tuple() / list()) or for a local list that starts empty and is filled by a
    single `append` inside one loop; None if `value` is not built that way.
    """
    from .guards import path_conditions
    v = value
    for _ in range(3):
        while isinstance(v, ast.Call) and norm(v.func) in ("tuple", "list") and len(v.args) == 1:
            v = v.args[0]
        if isinstance(v, ast.Name):
            # a local that holds a comprehension (never changed afterwards) is that comprehension
            d = Resolver(fn).defs.get(v.id)
            if isinstance(d, (ast.ListComp, ast.GeneratorExp)):
                v = d
                continue
        break
    if isinstance(v, (ast.ListComp, ast.GeneratorExp)) and len(v.generators) == 1:
        g = v.generators[0]
        return v.elt, norm(g.target), g.iter, bool(g.ifs)
    if isinstance(v, ast.Name):
        inits = [a for a in ast.walk(fn) if isinstance(a, ast.Assign) and len(a.targets) == 1 and norm(a.targets[0]) == v.id]
        apps = [(lp, c) for lp in ast.walk(fn) if isinstance(lp, ast.For) for c in ast.walk(lp) if isinstance(c, ast.Call)
                and isinstance(c.func, ast.Attribute) and c.func.attr == "append" and norm(c.func.value) == v.id and len(c.args) == 1]
        # innermost loop only
        apps = [(lp, c) for lp, c in apps if not any(l2 is not lp and any(x is l2 for x in ast.walk(lp)) and any(x is c for x in ast.walk(l2))
                                                      for l2, _ in apps)]
        other = [c for c in ast.walk(fn) if isinstance(c, ast.Call) and isinstance(c.func, ast.Attribute) and norm(c.func.value) == v.id
                 and c.func.attr not in ("append", "copy", "index", "count")]
        if len(inits) == 1 and isinstance(inits[0].value, ast.List) and not inits[0].value.elts and len(apps) == 1 and not other:
            lp, c = apps[0]
            conds = path_conditions(lp.body, c) or []
            return c.args[0], norm(lp.target), lp.iter, bool(conds)
    return None
