"""
Finite comparison-outcome domain: a pair of times (q1, r1), (q2, r2) is abstracted to the cell
(q1 ? q2, r1 ? r2) in {<,=,>}^2.  Boolean code over comparisons of these four atoms is evaluated on all nine cells.
"""
import ast
from typing import Callable, Dict, List, Optional, Tuple

CELLS: List[Tuple[str, str]] = [(a, b) for a in "<=>" for b in "<=>"]


class NotInFragment(Exception):
    pass


def cmp_holds(order: str, op: str) -> bool:
    """Truth of `a op b` given the order relation of a to b ('<', '=', '>')."""
    return {
        "<": order == "<", "<=": order in "<=", ">": order == ">", ">=": order in ">=",
        "==": order == "=", "!=": order != "=",
    }[op]


def lex_expected(cell: Tuple[str, str], op: str) -> bool:
    """Expected truth of `t1 op t2` for the exact lexicographic order (= rational order of q + r on normalised pairs)."""
    qo, ro = cell
    order = qo if qo != "=" else ro
    return cmp_holds(order, op)


OPSTR = {ast.Lt: "<", ast.LtE: "<=", ast.Gt: ">", ast.GtE: ">=", ast.Eq: "==", ast.NotEq: "!="}
FLIPPED = {"<": ">", "=": "=", ">": "<"}


class PyBoolEvaluator:
    """
    Evaluates a Python method body (straight-line assigns, if/else, return of boolean expressions) for one cell.
    `atom(expr)` -> ('q'|'r', 1|2) or None classifies a leaf as quotient / remainder of the first or second time.
    `call(expr, cell)` -> bool or raises NotInFragment: evaluates calls to sibling comparison methods.
    """

    def __init__(self, atom: Callable[[ast.AST], Optional[Tuple[str, int]]],
                 call: Callable[[ast.AST, Tuple[str, str]], bool]) -> None:
        self.atom, self.call = atom, call

    def expr(self, e: ast.AST, cell: Tuple[str, str], env: Dict[str, bool]) -> bool:
        if isinstance(e, ast.BoolOp):
            vals = [self.expr(v, cell, env) for v in e.values]
            return all(vals) if isinstance(e.op, ast.And) else any(vals)
        if isinstance(e, ast.UnaryOp) and isinstance(e.op, ast.Not):
            return not self.expr(e.operand, cell, env)
        if isinstance(e, ast.Name) and e.id in env:
            return env[e.id]
        if isinstance(e, ast.Constant) and isinstance(e.value, bool):
            return e.value
        if isinstance(e, ast.IfExp):
            return self.expr(e.body if self.expr(e.test, cell, env) else e.orelse, cell, env)
        if isinstance(e, ast.Compare):
            operands = [e.left] + list(e.comparators)
            result = True
            for a, op, b in zip(operands, e.ops, operands[1:]):
                if type(op) not in OPSTR:
                    raise NotInFragment(f"operator {type(op).__name__}")
                ka, kb = self.atom(a), self.atom(b)
                if ka is None or kb is None:
                    # maybe a comparison of whole objects: delegate
                    return self.call(e, cell)
                if ka[0] != kb[0] or ka[1] == kb[1]:
                    raise NotInFragment(f"comparison mixes {ka} with {kb}")
                order = cell[0] if ka[0] == "q" else cell[1]
                if ka[1] == 2:
                    order = FLIPPED[order]
                result = result and cmp_holds(order, OPSTR[type(op)])
            return result
        if isinstance(e, ast.Call):
            return self.call(e, cell)
        raise NotInFragment(f"expression {type(e).__name__}")

    def body(self, stmts: List[ast.stmt], cell: Tuple[str, str], env: Optional[Dict[str, bool]] = None) -> bool:
        env = {} if env is None else env
        for s in stmts:
            if isinstance(s, ast.Expr) and isinstance(s.value, ast.Constant):
                continue
            if isinstance(s, ast.Assign) and len(s.targets) == 1 and isinstance(s.targets[0], ast.Name):
                env[s.targets[0].id] = self.expr(s.value, cell, env)
                continue
            if isinstance(s, ast.Return) and s.value is not None:
                return self.expr(s.value, cell, env)
            if isinstance(s, ast.If):
                branch = s.body if self.expr(s.test, cell, env) else s.orelse
                try:
                    return self.body(branch, cell, env)
                except _FellThrough:
                    continue
            if isinstance(s, (ast.Pass, ast.Assert)):
                continue
            raise NotInFragment(f"statement {type(s).__name__}")
        raise _FellThrough()


class _FellThrough(NotInFragment):
    pass
