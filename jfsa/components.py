"""
R7.6 / R11.4 -- component consistency: a per-component periodic correction (correct_position_entry,
correct_separation_entry, next_image of the periodic boundaries) must be applied with the index of the component its
argument was computed from.  Purely a def-use rule: the subscript indices of position / velocity / cell_min / cell_max
inside the corrected value (local single- or multi-assignment names resolved one level) must equal the index argument.
"""
import ast
from typing import Dict, List, Optional, Set

from .core import Loc, Report, norm
from .pyfront import Program

ENTRY_METHODS = ("correct_position_entry", "correct_separation_entry", "next_image")
COMPONENT_FIELDS = ("position", "velocity", "cell_min", "cell_max")


def _component_indices(e: ast.AST, fn: ast.FunctionDef, exclude: ast.AST, depth: int = 0) -> Set[str]:
    out: Set[str] = set()
    for n in ast.walk(e):
        if isinstance(n, ast.Subscript) and isinstance(n.value, ast.Attribute) and n.value.attr in COMPONENT_FIELDS:
            out.add(norm(n.slice))
        elif isinstance(n, ast.Subscript) and isinstance(n.value, ast.Name) and depth == 0:
            # plain local vector, e.g. separation[index] / center[d]
            pass
        if isinstance(n, ast.Name) and depth < 2:
            for a in ast.walk(fn):
                if isinstance(a, ast.Assign) and len(a.targets) == 1 and isinstance(a.targets[0], ast.Name) \
                        and a.targets[0].id == n.id and not any(x is exclude for x in ast.walk(a.value)):
                    out |= _component_indices(a.value, fn, exclude, depth + 1)
    return out


def check_component_consistency(prog: Program, rep: Report, rule: str, file_prefixes=("jellyfysh/",)) -> None:
    for mi, ci, fn in prog.functions():
        if not mi.file.startswith(tuple(file_prefixes)):
            continue
        for call in [n for n in ast.walk(fn) if isinstance(n, ast.Call) and isinstance(n.func, ast.Attribute)
                     and n.func.attr in ENTRY_METHODS and len(n.args) == 2]:
            recv = norm(call.func.value)
            if "periodic_boundaries" not in recv:
                continue
            idx = norm(call.args[1])
            used = _component_indices(call.args[0], fn, call)
            if not used:
                continue
            ok = used == {idx}
            rep.ob(rule, ok, Loc(mi.file, call.lineno, f"{ci.name + '.' if ci else ''}{fn.name}"), call,
                   f"the value corrected for component `{idx}` was computed from component(s) {sorted(used)}: the box length "
                   f"of another direction is applied (invisible in cubic boxes, wrong in cuboid ones)")
