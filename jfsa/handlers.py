"""
Facts about event-handler classes derived from their code (method closures through the resolved MRO):
which handlers change a trajectory, snap a position, depend on kinematics of their in-state, are self-clocked, ...
"""
import ast
import copy
from typing import Dict, Iterator, List, Optional, Sequence, Set, Tuple

from .core import AnalysisError
from .pyfront import ClassInfo, Program, body_without_docstring, dotted, param_names, self_attr

LOG_CALL_HEADS = ("logging", "logger", "log_init_arguments", "print", "warnings")


class FnRef:
    __slots__ = ("owner", "fn", "orig")

    def __init__(self, owner: ClassInfo, fn: ast.FunctionDef) -> None:
        from .normalize import canon
        self.owner, self.orig = owner, fn
        # rules see the canonical form (locals propagated, guard clauses nested, not-tests flipped); cached, so identity is stable
        self.fn = canon(None, owner, fn, helpers=False)

    @property
    def qual(self) -> str:
        return f"{self.owner.name}.{self.fn.name}"

    @property
    def file(self) -> str:
        return self.owner.file


def getattr_dispatch(prog: Program, cls: ClassInfo) -> Dict[str, List[str]]:
    """
    Instance-level rebinding `self.X = getattr(self, "<prefix>" + ...)` in any __init__ along the MRO:
    returns X -> names of all methods (along the MRO) starting with the prefix.
    """
    out: Dict[str, List[str]] = {}
    for c in prog.mro(cls):
        init = c.methods.get("__init__")
        if init is None:
            continue
        for n in ast.walk(init):
            if isinstance(n, ast.Assign) and len(n.targets) == 1 and self_attr(n.targets[0]) \
                    and isinstance(n.value, ast.Call) and isinstance(n.value.func, ast.Name) \
                    and n.value.func.id == "getattr" and len(n.value.args) >= 2:
                a = n.value.args[1]
                prefix = None
                if isinstance(a, ast.BinOp) and isinstance(a.op, ast.Add) and isinstance(a.left, ast.Constant) \
                        and isinstance(a.left.value, str):
                    prefix = a.left.value
                elif isinstance(a, ast.JoinedStr) and a.values and isinstance(a.values[0], ast.Constant):
                    prefix = a.values[0].value
                if prefix:
                    names = sorted(m for m in prog.all_methods(cls) if m.startswith(prefix))
                    out[self_attr(n.targets[0])] = names
            # the same dispatch written as a table: self.X = {KEY: self.m1, ..}[key]  (the table possibly bound to a local first)
            if isinstance(n, ast.Assign) and len(n.targets) == 1 and self_attr(n.targets[0]) \
                    and (isinstance(n.value, ast.Subscript) or (isinstance(n.value, ast.Call) and isinstance(n.value.func, ast.Attribute)
                                                                 and n.value.func.attr == "get" and n.value.args)):
                table = n.value.value if isinstance(n.value, ast.Subscript) else n.value.func.value
                if isinstance(table, ast.Name):
                    defs = [a.value for a in ast.walk(init) if isinstance(a, ast.Assign) and len(a.targets) == 1
                            and isinstance(a.targets[0], ast.Name) and a.targets[0].id == table.id]
                    table = defs[0] if len(defs) == 1 else None
                if isinstance(table, ast.Dict) and table.values and all(self_attr(v) for v in table.values):
                    out[self_attr(n.targets[0])] = sorted(self_attr(v) for v in table.values)
        # .. or as a ladder over the mode: if .. : self.X = self.m1  elif .. : self.X = self.m2
        ladder: Dict[str, List[str]] = {}
        for n in ast.walk(init):
            if isinstance(n, ast.If) and n.orelse:
                for a in ast.walk(n):
                    if isinstance(a, ast.Assign) and len(a.targets) == 1 and self_attr(a.targets[0]) and self_attr(a.value) \
                            and self_attr(a.value) in prog.all_methods(cls):
                        ladder.setdefault(self_attr(a.targets[0]), [])
                        if self_attr(a.value) not in ladder[self_attr(a.targets[0])]:
                            ladder[self_attr(a.targets[0])].append(self_attr(a.value))
        for k, v in ladder.items():
            if k not in out and len(v) >= 2:
                out[k] = sorted(v)
    return out


def implementations(prog: Program, cls: ClassInfo, method: str) -> List[FnRef]:
    """The function(s) that run when `instance.method(...)` is called: getattr-rebinding aware."""
    disp = getattr_dispatch(prog, cls)
    if method in disp and disp[method]:
        return [FnRef(*prog.resolve_method(cls, m)) for m in disp[method]]
    r = prog.resolve_method(cls, method)
    return [FnRef(*r)] if r else []


def closure(prog: Program, cls: ClassInfo, entries: Sequence[FnRef]) -> List[FnRef]:
    """All methods reachable from the entries through self.m(...) / super().m(...) / Cls.m(self, ...) calls."""
    seen: Set[Tuple[str, str]] = set()
    out: List[FnRef] = []
    stack = list(reversed(list(entries)))
    while stack:
        ref = stack.pop()
        key = (ref.owner.qual, ref.fn.name)
        if key in seen:
            continue
        seen.add(key)
        out.append(ref)
        for callee in callees(prog, cls, ref):
            stack.append(callee)
    return out


def callees(prog: Program, cls: ClassInfo, ref: FnRef) -> List[FnRef]:
    out = []
    for n in ast.walk(ref.fn):
        if not isinstance(n, ast.Call):
            continue
        f = n.func
        if isinstance(f, ast.Attribute):
            if isinstance(f.value, ast.Name) and f.value.id == "self":
                for impl in implementations(prog, cls, f.attr):
                    out.append(impl)
            elif isinstance(f.value, ast.Call) and isinstance(f.value.func, ast.Name) and f.value.func.id == "super":
                r = prog.resolve_method(cls, f.attr, after=ref.owner)
                if r:
                    out.append(FnRef(*r))
    return out


def in_assert_or_log(parents: Dict[int, ast.AST], node: ast.AST) -> bool:
    cur = node
    while id(cur) in parents:
        cur = parents[id(cur)]
        if isinstance(cur, ast.Assert):
            return True
        if isinstance(cur, ast.Call):
            head = (dotted(cur.func) or "").split(".")[0]
            if head in LOG_CALL_HEADS or (dotted(cur.func) or "").endswith("_warning"):
                return True
    return False


def parent_map(fn: ast.AST) -> Dict[int, ast.AST]:
    parents: Dict[int, ast.AST] = {}
    for n in ast.walk(fn):
        for c in ast.iter_child_nodes(n):
            parents[id(c)] = n
    return parents


def field_of_target(t: ast.AST) -> Optional[Tuple[str, ast.AST, bool]]:
    """For a store target return (field, receiver expression, elementwise) if it writes a unit field."""
    if isinstance(t, ast.Attribute) and t.attr in ("position", "velocity", "time_stamp", "identifier", "charge"):
        return t.attr, t.value, False
    if isinstance(t, ast.Subscript) and isinstance(t.value, ast.Attribute) \
            and t.value.attr in ("position", "velocity", "time_stamp", "identifier", "charge"):
        return t.value.attr, t.value.value, True
    return None


def stores(fn: ast.AST) -> Iterator[Tuple[ast.stmt, str, ast.AST, bool, Optional[ast.AST]]]:
    """Yield (statement, field, receiver, elementwise, value) for each unit-field write in fn."""
    for n in ast.walk(fn):
        if isinstance(n, ast.Assign):
            for t in n.targets:
                targets = t.elts if isinstance(t, ast.Tuple) else [t]
                for tt in targets:
                    r = field_of_target(tt)
                    if r:
                        yield n, r[0], r[1], r[2], n.value
        elif isinstance(n, ast.AugAssign):
            r = field_of_target(n.target)
            if r:
                # the effective value of `t op= v` is `t op v`
                load = copy.deepcopy(n.target)
                for x in ast.walk(load):
                    if hasattr(x, "ctx"):
                        x.ctx = ast.Load()
                yield n, r[0], r[1], True if r[2] else False, ast.copy_location(ast.BinOp(left=load, op=n.op, right=n.value), n.value)
        elif isinstance(n, ast.AnnAssign) and n.value is not None:
            r = field_of_target(n.target)
            if r:
                yield n, r[0], r[1], r[2], n.value


def is_zero_vector(e: ast.AST) -> bool:
    """[0.0 for _ in ..], [0.0, 0.0, ..], [0.0] * n, n * [0.0]"""
    def zero_list(x: ast.AST) -> bool:
        if isinstance(x, ast.ListComp):
            return isinstance(x.elt, ast.Constant) and x.elt.value == 0 and not isinstance(x.elt.value, bool)
        return isinstance(x, ast.List) and bool(x.elts) and all(isinstance(c, ast.Constant) and c.value == 0 and not isinstance(c.value, bool)
                                                                  for c in x.elts)
    if zero_list(e):
        return True
    if isinstance(e, ast.BinOp) and isinstance(e.op, ast.Mult):
        return zero_list(e.left) or zero_list(e.right)
    return False


class HandlerFacts:
    def __init__(self, prog: Program, cls: ClassInfo) -> None:
        self.prog, self.cls = prog, cls
        self.send_event_time = implementations(prog, cls, "send_event_time")
        self.send_out_state = implementations(prog, cls, "send_out_state")
        if not self.send_event_time or not self.send_out_state:
            raise AnalysisError(f"{cls.name}: send_event_time / send_out_state not resolved")
        self.time_closure = closure(prog, cls, self.send_event_time)
        self.out_closure = closure(prog, cls, self.send_out_state)
        self.time_slice_fns = {id(r.fn) for r in self.time_closure + self.out_closure if is_time_slice_routine(r.fn)}
        # derived facts
        self.velocity_writes = [(r, s) for r in self.out_closure for s, f, *_ in stores(r.fn) if f == "velocity"]
        self.changes_trajectory = bool(self.velocity_writes)
        self.position_snaps = [(r, s) for r in self.out_closure for s, f, *_ in stores(r.fn)
                               if f == "position" and id(r.fn) not in self.time_slice_fns]
        self.snaps_position = bool(self.position_snaps)
        self.kinematic_reads = []
        for r in self.time_closure:
            parents = parent_map(r.fn)
            for n in ast.walk(r.fn):
                if isinstance(n, ast.Attribute) and n.attr in ("position", "velocity") and isinstance(n.ctx, ast.Load) \
                        and not in_assert_or_log(parents, n):
                    self.kinematic_reads.append((r, n))
        self.kinematics_sensitive = bool(self.kinematic_reads)
        self.takes_in_state = any(len(param_names(r.fn)) > 0 for r in self.send_event_time)
        self.one_shot = prog.is_subclass(cls, "StartOfRunEventHandler")
        self.ends_run = prog.is_subclass(cls, "EndOfRunEventHandler")
        self.self_clocked = (not self.takes_in_state) and any(_advances_own_time(r.fn) for r in self.time_closure)
        self.reads_shape = []
        for r in self.time_closure:
            parents = parent_map(r.fn)
            for n in ast.walk(r.fn):
                if isinstance(n, ast.Attribute) and n.attr == "children" and isinstance(n.ctx, ast.Load) \
                        and not in_assert_or_log(parents, n):
                    self.reads_shape.append((r, n))
        self.out_state_params = max(len(param_names(r.fn)) for r in self.send_out_state)


def _advances_own_time(fn: ast.FunctionDef) -> bool:
    """self._event_time += x   or   self._event_time = self._event_time + x  (the sum possibly bound to a local first)"""
    from .resolve import Resolver
    R = None
    for n in ast.walk(fn):
        if isinstance(n, ast.AugAssign) and self_attr(n.target) == "_event_time" and isinstance(n.op, ast.Add):
            return True
        if isinstance(n, ast.Assign) and len(n.targets) == 1 and self_attr(n.targets[0]) == "_event_time":
            R = R or Resolver(fn)
            v = R.res(n.value)
            if isinstance(v, ast.BinOp) and isinstance(v.op, ast.Add) and "_event_time" in (self_attr(v.left), self_attr(v.right)):
                return True
            # the clock rebuilt from an attribute that the same routine accumulates (self._t += dt; self._event_time = f(self._t))
            acc = {self_attr(a.target) for a in ast.walk(fn) if isinstance(a, ast.AugAssign) and self_attr(a.target)}
            if isinstance(v, ast.Call) and any(self_attr(x) in acc for x in ast.walk(v) if isinstance(x, ast.Attribute)):
                return True
    return False


def is_time_slice_routine(fn: ast.FunctionDef) -> bool:
    """
    Role: writes X.position[d] from an expression containing X.position[d], X.velocity[d] and X.time_stamp
    (p + v * (T - t)).  Whether it also updates the stamp is an obligation (R7.2), not part of the role.
    """
    from .normalize import canon
    fn = canon(None, None, fn)
    for s, field, recv, elementwise, value in stores(fn):
        if field == "position" and elementwise and value is not None:
            attrs = {n.attr for n in ast.walk(value) if isinstance(n, ast.Attribute)}
            if {"position", "velocity", "time_stamp"} <= attrs:
                return True
    return False


def time_slice_obligations(fn: ast.FunctionDef):
    """Yield (rule, ok, node, message) for the shape of the time-slice routine."""
    from .normalize import canon
    fn = canon(None, None, fn)
    for s, field, recv, elementwise, value in stores(fn):
        if not (field == "position" and elementwise and value is not None):
            continue
        recv_txt = ast.unparse(recv)
        # p + v * (T - t)
        core = value
        wrapped = isinstance(core, ast.Call) and (dotted(core.func) or "").endswith("correct_position_entry")
        yield ("R7.2-slice-wraps", wrapped, s,
               "the advanced position must be put back into the box with correct_position_entry")
        inner = core.args[0] if wrapped and core.args else core
        ok_form = False
        if isinstance(inner, ast.BinOp) and isinstance(inner.op, ast.Add):
            a, b = inner.left, inner.right
            if isinstance(b, ast.BinOp) and isinstance(b.op, ast.Mult):
                v, dt = b.left, b.right
                if not (isinstance(dt, ast.BinOp) and isinstance(dt.op, ast.Sub)):
                    v, dt = dt, v
                ok_form = (isinstance(a, ast.Subscript) and ast.unparse(a.value) == f"{recv_txt}.position"
                           and isinstance(v, ast.Subscript) and ast.unparse(v.value) == f"{recv_txt}.velocity"
                           and ast.unparse(a.slice) == ast.unparse(v.slice)
                           and isinstance(dt, ast.BinOp) and isinstance(dt.op, ast.Sub)
                           and self_attr(dt.left) is not None and ast.unparse(dt.right) == f"{recv_txt}.time_stamp")
        yield ("R7.2-slice-formula", ok_form, s,
               "the time-slice must be position[d] + velocity[d] * (event_time - time_stamp) of the same unit and "
               "the same component")
        # same block: stamp update; enclosing guard velocity is not None
        parents = parent_map(fn)
        cur = s
        guarded = False
        loop_parent = None
        while id(cur) in parents:
            cur = parents[id(cur)]
            if isinstance(cur, ast.For) and loop_parent is None:
                loop_parent = cur
            if isinstance(cur, ast.If):
                t = ast.unparse(cur.test)
                in_body = any(x is s for st in cur.body for x in ast.walk(st))
                if ("velocity is not None" in t and in_body) or ("velocity is None" in t and not in_body):
                    guarded = True
                    guard_block = cur.body if in_body else cur.orelse
        yield ("R7.2-slice-guard", guarded, s, "units at rest (velocity None) must not be advanced")
        stamp = False
        scope = guard_block if guarded else fn.body
        for st in scope:
            for n in ast.walk(st):
                if isinstance(n, ast.Call) and isinstance(n.func, ast.Attribute) and n.func.attr == "update" \
                        and ast.unparse(n.func.value) == f"{recv_txt}.time_stamp" and n.args \
                        and self_attr(n.args[0]) is not None and not _inside(loop_parent, n):
                    stamp = True
                if isinstance(n, ast.Assign) and any(ast.unparse(t) == f"{recv_txt}.time_stamp" for t in n.targets) \
                        and not _inside(loop_parent, n):
                    stamp = True
        yield ("R7.2-slice-updates-stamp", stamp, s,
               "after advancing the position the unit's time stamp must be set to the event time once (otherwise the "
               "next slice advances it again over the same interval)")


def _inside(container, node) -> bool:
    return container is not None and any(x is node for x in ast.walk(container))


def concrete_handlers(prog: Program) -> List[ClassInfo]:
    hs = [c for c in prog.subclasses("EventHandler") if prog.is_concrete(c) and c.file.startswith("jellyfysh/event_handler/")]
    if len(hs) < 15:
        raise AnalysisError(f"only {len(hs)} concrete event handler classes found (19 on the pinned tree)")
    return sorted(hs, key=lambda c: c.name)
