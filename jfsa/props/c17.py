"""
C17 -- samples and end of run occur at nominal times on a fully time-sliced state.

Decided: R17.1 sampling/end-of-run out-states store, time-slice all, return the stored state; R17.2 their out-state argument
is the extracted active global state; R17.3 commit -> trash -> mediating order in both run loops and a fresh global state
for the write; R17.4 fixed-interval handlers advance by exactly one Time + interval per call, end of run at
Time.from_float(end time); R17.5 reflection dispatch resolves uniquely with matching arity; R17.6 self-clocked taggers are
re-created only by themselves in every shipped .ini.  Not decided: sample counts, growth of rounding with k.
"""
import ast
from typing import Dict, List

from ..config_graph import ConfigGraph
from ..core import Loc, Report, Source, norm
from ..handlers import HandlerFacts, concrete_handlers
from ..inifront import load_all
from ..mediator_rules import check_argument_methods, check_reflection, check_run_loops
from ..protocol import HandlerProtocol
from ..pyfront import Program, param_names, self_attr
from ..resolve import Resolver
from ..selftest import Edit

ID = "C17"


def check_clock(prog: Program, rep: Report) -> None:
    """R17.4"""
    for h in concrete_handlers(prog):
        facts = HandlerFacts(prog, h)
        if facts.self_clocked:
            # interval attribute: assigned in __init__ from a constructor parameter, unchanged elsewhere
            for ref in facts.send_event_time:
                incs = []
                from ..normalize import canon as _canon0
                try:
                    fn_c = _canon0(prog, h, ref.fn)      # private helpers (`_advance_clock()`) read in place
                except Exception:
                    fn_c = ref.fn
                R = Resolver(fn_c)
                new_clock = set()
                for n in ast.walk(fn_c):
                    if isinstance(n, ast.AugAssign) and self_attr(n.target) == "_event_time":
                        incs.append((n, n.op, n.value))
                    elif isinstance(n, ast.Assign) and self_attr(n.targets[0]) == "_event_time":
                        v = R.res(n.value)     # the new clock may be computed into a local first
                        if isinstance(v, ast.BinOp):
                            other = v.right if self_attr(v.left) == "_event_time" else v.left
                            incs.append((n, v.op, other))
                            new_clock.add(norm(v))
                        else:
                            # the clock is rebuilt rather than advanced: from a float that this method accumulates (the absolute
                            # time is then rounded at its own size at every step and the k-th sampling time drifts from
                            # k * interval), or in a way that is not followed (undecided)
                            floats = {self_attr(a.target) for a in ast.walk(fn_c) if isinstance(a, ast.AugAssign) and self_attr(a.target)}
                            floats |= {self_attr(a.targets[0]) for a in ast.walk(fn_c) if isinstance(a, ast.Assign) and self_attr(a.targets[0])
                                       and isinstance(a.value, ast.BinOp) and any(self_attr(x) == self_attr(a.targets[0]) for x in ast.walk(a.value))}
                            from_float = isinstance(v, ast.Call) and norm(v.func).endswith("from_float") \
                                and any(self_attr(x) in floats for x in ast.walk(v) if isinstance(x, ast.Attribute))
                            incs.append((n, None, v))
                            rep.ob("R17.4-interval-step", False if from_float else None, Loc(ref.file, n.lineno, ref.qual), n,
                                   "the clock of a fixed-interval handler must advance by `+ self.<interval>` through Time.__add__; here it is "
                                   "rebuilt from a float that accumulates the absolute time, so every step rounds at the size of the time "
                                   "reached and the k-th sample is no longer at k * interval")
                loc = Loc(ref.file, ref.fn.lineno, ref.qual)
                rep.ob("R17.4-one-step", len(incs) == 1, loc, f"{ref.qual}: {len(incs)} clock advance(s)",
                       "a fixed-interval handler must advance its clock exactly once per candidate")
                for stmt, op, inc in incs:
                    if op is None:
                        continue
                    attr = self_attr(inc)
                    ok = isinstance(op, ast.Add) and attr is not None
                    why = "the clock must advance by `+ self.<interval>` through Time.__add__ (no scaling, no float sum)"
                    if ok:
                        ok, why = _interval_is_ctor_param(prog, h, attr)
                    rep.ob("R17.4-interval-step", ok, Loc(ref.file, stmt.lineno, ref.qual), stmt, why)
                rets = [n for n in ast.walk(fn_c) if isinstance(n, ast.Return)]
                for r in rets:
                    rv = r.value
                    ok = rv is not None and (self_attr(rv) == "_event_time" or R.text(rv) in new_clock)
                    rep.ob("R17.4-returns-clock", ok,
                           Loc(ref.file, r.lineno, ref.qual), r, "the candidate time returned must be the advanced clock")
            # initial clock: Time(0.0, 0.0) or Time.from_float(-interval)
            init = prog.resolve_method(h, "__init__")
            if init:
                from ..normalize import canon as _canon
                init = (init[0], _canon(prog, init[0], init[1]))      # helper functions that compute the first time read in place
                RI = Resolver(init[1])
                for n in ast.walk(init[1]):
                    if isinstance(n, ast.Assign) and self_attr(n.targets[0]) == "_event_time":
                        vals = [n.value.body, n.value.orelse] if isinstance(n.value, ast.IfExp) else [n.value]
                        # a local that is assigned in the branches of the constructor: every value it can hold
                        if isinstance(n.value, ast.Name) and n.value.id in RI.all_defs:
                            vals = [v for _, v in RI.all_defs[n.value.id]]
                        for v in vals:
                            t = norm(v)
                            ok = t in ("Time(0.0, 0.0)", "Time(0, 0)") or (t.startswith("Time.from_float(-") and
                                                                            _is_interval_param(init[1], v))
                            rep.ob("R17.4-initial-clock", ok, Loc(init[0].file, n.lineno, f"{h.name}.__init__"), v,
                                   "the clock must start at 0 or at minus one interval (first sample at time 0)")
        if facts.ends_run:
            init = prog.resolve_method(h, "__init__")
            ok = False
            stmt = None
            if init:
                ps = param_names(init[1])
                for n in ast.walk(init[1]):
                    if isinstance(n, ast.Assign) and self_attr(n.targets[0]) == "_event_time":
                        stmt = n
                        v = n.value
                        ok = isinstance(v, ast.Call) and norm(v.func).endswith("from_float") and len(v.args) == 1 \
                            and isinstance(v.args[0], ast.Name) and v.args[0].id in ps
            rep.ob("R17.4-end-time", ok, Loc(h.file, stmt.lineno if stmt else h.node.lineno, f"{h.name}.__init__"),
                   stmt if stmt is not None else h.name,
                   "the end-of-run time must be Time.from_float(<configured end time>)")
            for ref in facts.send_event_time:
                for r in [n for n in ast.walk(ref.fn) if isinstance(n, ast.Return)]:
                    rep.ob("R17.4-returns-clock", r.value is not None and self_attr(r.value) == "_event_time",
                           Loc(ref.file, r.lineno, ref.qual), r, "the end-of-run candidate must be the configured time")


def _is_interval_param(init: ast.FunctionDef, call: ast.AST) -> bool:
    ps = param_names(init)
    if not (isinstance(call, ast.Call) and len(call.args) == 1 and isinstance(call.args[0], ast.UnaryOp)
            and isinstance(call.args[0].op, ast.USub)):
        return False
    operand = call.args[0].operand
    if isinstance(operand, ast.Name):
        return operand.id in ps
    # the attribute the constructor has just bound to the parameter (self._interval = sampling_interval; from_float(-self._interval))
    a = self_attr(operand)
    return a is not None and any(isinstance(n, ast.Assign) and any(self_attr(t) == a for t in n.targets)
                                 and isinstance(n.value, ast.Name) and n.value.id in ps for n in ast.walk(init))


def _interval_is_ctor_param(prog: Program, h, attr: str):
    assigns = []
    for name, (owner, fn) in prog.all_methods(h).items():
        for n in ast.walk(fn):
            if isinstance(n, (ast.Assign, ast.AugAssign)):
                ts = n.targets if isinstance(n, ast.Assign) else [n.target]
                if any(self_attr(t) == attr for t in ts):
                    assigns.append((name, fn, n))
    if len(assigns) != 1 or assigns[0][0] != "__init__":
        return False, f"the interval attribute `{attr}` must be assigned exactly once, in the constructor"
    name, fn, n = assigns[0]
    ok = isinstance(n, ast.Assign) and isinstance(n.value, ast.Name) and n.value.id in param_names(fn)
    return ok, f"the interval attribute `{attr}` must be the configured interval itself (found `{norm(n)}`)"


def analyse(src: Source) -> List[Report]:
    rep = Report(ID, src)
    rep.explain(
        "R17.1 must-dataflow over send_out_state of every sampling / end-of-run handler: the given active state is stored, "
        "all of it is time-sliced to the event time, the stored state is returned, no velocity is written. R17.2 the "
        "mediator hands exactly extract_active_global_state() to these handlers. R17.3 in both run loops (helpers "
        "inlined) insert_into_global_state is preceded by get_succeeding_event and the out-state, and precedes the trash "
        "loop and the mediating method on every path; the mediating methods write a fresh extract_global_state(); "
        "end-of-run raises EndOfRun on every path. R17.4 self-clocked handlers advance their clock exactly once per call "
        "by the configured interval through Time.__add__; the end time is Time.from_float(configured). R17.5 the "
        "reflective get_arguments_*/mediate_* lookup resolves uniquely for every concrete handler, with matching arities. "
        "R17.6 in every shipped .ini a self-clocked tagger is created/trashed only by itself (and one-shot / run-ending "
        "taggers). Not decided: number of samples, growth of rounding with k (kinds of C14 bound one rounding per step).")
    prog = Program(src)
    handlers = concrete_handlers(prog)
    n = 0
    for h in handlers:
        if prog.is_subclass(h, "SamplingEventHandler") or prog.is_subclass(h, "EndOfRunEventHandler"):
            hp = HandlerProtocol(prog, h, rep, ["R17.1", "R8.5", "R7.1"])
            hp.run()
            rep.ob("R17.1-no-velocity-write", not hp.facts.changes_trajectory, Loc(h.file, h.node.lineno, h.name),
                   f"{h.name} writes no velocity", "a sampling / end-of-run event must not change any velocity")
            n += 1
    rep.unit("sampling_or_end_of_run_handlers", n)
    check_argument_methods(prog, rep)
    check_run_loops(prog, rep, "R17.3")
    check_clock(prog, rep)
    check_reflection(prog, rep)
    cfgs = load_all(prog)
    cache: Dict[str, HandlerFacts] = {}
    for cfg in cfgs:
        g = ConfigGraph(prog, cfg, cache)
        g.explore(rep, ("C17",))
        # the number of samples written is the number of sampling times: an output handler that receives the periodic samples of a
        # sampling event handler must not also be written by the end-of-run handler (one more record at a time that is no sampling time)
        samplers, enders = {}, {}
        for o in cfg.walk():
            oh = o.get("output_handler")
            if isinstance(oh, str) and oh:
                if prog.is_subclass(o.cls, "SamplingEventHandler"):
                    samplers.setdefault(oh, o)
                elif prog.is_subclass(o.cls, "EndOfRunEventHandler"):
                    enders.setdefault(oh, o)
        for oh, o in enders.items():
            rep.ob("R17.7-sample-count", oh not in samplers, Loc(cfg.file, 0, f"[{o.section}]"), f"output_handler = {oh}",
                   f"the end-of-run event handler writes to `{oh}`, which also receives the fixed-interval samples of "
                   f"[{samplers[oh].section if oh in samplers else ''}]: the file gets one record more than there are sampling times")
        for oh, o in samplers.items():
            rep.ob("R17.7-sample-count", True, Loc(cfg.file, 0, f"[{o.section}]"), f"output_handler = {oh}: written by the sampler only", "")
    # sample files are started afresh by every run: an output handler that opens its file for appending keeps the records of an
    # earlier (interrupted) run in front of this run's samples
    for ci in prog.classes:
        if not ci.file.startswith("jellyfysh/input_output_handler/output_handler/"):
            continue
        for mname, m in ci.methods.items():
            for c_ in ast.walk(m):
                if isinstance(c_, ast.Call) and isinstance(c_.func, ast.Name) and c_.func.id == "open" and len(c_.args) >= 2 \
                        and isinstance(c_.args[1], ast.Constant) and isinstance(c_.args[1].value, str):
                    mode = c_.args[1].value
                    rep.ob("R17.7-files-start-empty", "a" not in mode or "r" in mode, Loc(ci.file, c_.lineno, f"{ci.name}.{mname}"), c_,
                           f"an output file is opened with mode `{mode}`: records left by an earlier run stay in front of this run's samples")
    rep.unit("config_files", len(cfgs))
    rep.expect_min("R17.1-sliced-out-state", 2)
    rep.expect_min("R17.2-active-state-argument", 2)
    rep.expect_min("R17.3-order", 12)
    rep.expect_min("R17.3-fresh-global-state", 2)
    rep.expect_min("R17.4-interval-step", 2)
    rep.expect_min("R17.4-end-time", 1)
    rep.expect_min("R17.5-get-arguments-unique", 15)
    rep.expect_min("R17.5-mediate-unique", 15)
    rep.expect_min("R17.6-self-clocked-create", 100)
    # the sampled state is what the commits wrote: a skipped write leaves a unit at an earlier time stamp (insertion rule of C13)
    from .c13 import check_insert_complete
    check_insert_complete(prog, rep)
    return [rep]


D = "jellyfysh/config_files/2018_JCP_149_064113/"
EH = "jellyfysh/event_handler/"
MED = "jellyfysh/mediator/mediator.py"
SPM = "jellyfysh/mediator/single_process_mediator.py"
MPM = "jellyfysh/mediator/multi_process_mediator/multi_process_mediator.py"
MUTANTS = [
    Edit("interaction tagger re-creates sampling", D + "coulomb_atoms/power_bounded.ini",
         r"(\[Coulomb\]\ncreate = )([^\n]*)(\ntrash = )([^\n]*)", r"\1\2, sampling\3\4, sampling", "R17.6", regex=True),
    Edit("single-process: mediating method before the commit", SPM,
         "            self._state_handler.insert_into_global_state(out_state)\n",
         "            self._mediating_methods.get(self._event_handler_with_shortest_event_time, lambda: None)()\n"
         "            self._state_handler.insert_into_global_state(out_state)\n", "R17.3"),
    Edit("multi-process: trash before commit", MPM,
         "            self._state_handler.insert_into_global_state(out_state)\n", "", "R17.3"),
    Edit("sampling writes the active state only", MED,
         "    def mediate_sampling_event_handler(self) -> None:", "    def mediate_sampling_event_handler_(self) -> None:", "R17.5"),
    Edit("sampling argument is the full state", MED,
         r"(def get_arguments_sampling_event_handler.*?return \()self\._state_handler\.extract_active_global_state\(\),",
         r"\1self._state_handler.extract_global_state(),", "R17.2", regex=True),
    Edit("sampling out-state not time-sliced", EH + "fixed_interval_sampling_event_handler.py",
         "        self._store_in_state(cnodes_with_active_units)\n        self._time_slice_all_units_in_state()\n",
         "        self._store_in_state(cnodes_with_active_units)\n", "R17.1"),
    Edit("end-of-run out-state not time-sliced", EH + "final_time_end_of_run_event_handler.py",
         "        self._store_in_state(cnodes_with_active_units)\n        self._time_slice_all_units_in_state()\n",
         "        self._store_in_state(cnodes_with_active_units)\n", "R17.1"),
    Edit("sampling clock advances twice the interval", EH + "fixed_interval_sampling_event_handler.py",
         "self._event_time += self._sampling_interval", "self._event_time += 2 * self._sampling_interval", "R17.4"),
    Edit("sampling interval stored scaled", EH + "fixed_interval_sampling_event_handler.py",
         "self._sampling_interval = sampling_interval\n", "self._sampling_interval = 0.5 * sampling_interval\n", "R17.4"),
    Edit("end time through float()", EH + "final_time_end_of_run_event_handler.py",
         "self._event_time = Time.from_float(end_of_run_time)", "self._event_time = Time.from_float(end_of_run_time + 1.0)",
         "R17.4"),
    Edit("end of run does not raise when no output handler", MED,
         "                self._state_handler.extract_global_state())\n        raise EndOfRun",
         "                self._state_handler.extract_global_state())\n            raise EndOfRun", "R17.3"),
    Edit("sampling writes a stale copy", MED,
         r"(def mediate_sampling_event_handler.*?)self\._state_handler\.extract_global_state\(\)\)",
         r"\1self._state_handler.extract_active_global_state())", "R17.3", regex=True),
]
TWINS = [
    Edit("single-process: commit step extracted into a helper", SPM,
         "            self._state_handler.insert_into_global_state(out_state)\n",
         "            self._commit(out_state)\n"),
    Edit("rename loop variable in trash loop", SPM, "self._scheduler.trash_event(event_handler)",
         "self._scheduler.trash_event( event_handler )"),
]
TWINS[0] = Edit("single-process: commit step extracted into a helper", SPM,
                 r"            self\._state_handler\.insert_into_global_state\(out_state\)\n(.*?)(    def update_logging)",
                 r"            self._commit(out_state)\n\1    def _commit(self, out_state):\n"
                 r"        self._state_handler.insert_into_global_state(out_state)\n\n\2", regex=True)
