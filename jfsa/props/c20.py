"""
C20 -- multi-process mediator commits the same events as the single-process mediator.

Decided: R20.1 sibling agreement of the two run loops on the component-API order (must-dataflow, helpers inlined);
R20.2 pipe-protocol typestate of the parent (every communication site sits in a block that performs exactly one legal
stage transition under the matching stage guard) and duality with the worker loop; R20.3 pre-computation only for
argument-free out-states, stored out-states discarded and running computations drained when trashed; R20.4 every started
process is registered, terminated and joined.  Not decided: schedule independence and deadlock freedom as wholes.
"""
import ast
import re
import copy
from typing import Dict, FrozenSet, List, Optional, Set, Tuple

from ..core import IdiomNotRecognised, AnalysisError, Loc, Report, Source, norm
from ..mediator_rules import check_run_loops
from ..pyfront import Program, body_without_docstring, param_names, self_attr
from ..guards import atoms, path_conditions
from ..normalize import canon, flat
from ..resolve import Resolver, split_atom
from ..selftest import Edit

ID = "C20"
MPM = "jellyfysh/mediator/multi_process_mediator/multi_process_mediator.py"

# stage machine of one event handler's worker, as seen by the parent (frozen oracle, DESIGN.md R20.2)
STAGES = ("idle", "event_time_started", "suspended", "out_state_started")
PATTERNS = {
    "start":   {"ops": {"start.set"}, "optional": {"send"}, "from": {"idle"}, "to": "event_time_started"},
    "time":    {"ops": {"recv"}, "optional": set(), "from": {"event_time_started"}, "to": "suspended"},
    "resume":  {"ops": {"continue.set"}, "optional": {"send"}, "from": {"suspended"}, "to": "out_state_started"},
    "out":     {"ops": {"recv"}, "optional": set(), "from": {"out_state_started"}, "to": "idle"},
    "discard": {"ops": set(), "optional": set(), "from": {"suspended"}, "to": "idle"},
}


class Block:
    def __init__(self, stmts: List[ast.stmt], guards: Dict[str, Tuple[str, bool]], line: int) -> None:
        self.stmts, self.guards, self.line = stmts, guards, line


def _stage_test(test: ast.AST, state_attr: str) -> Optional[Tuple[str, str]]:
    """self._event_handlers_state[X] == EventHandlerState.S -> (X, S)"""
    if isinstance(test, ast.Compare) and len(test.ops) == 1 and isinstance(test.ops[0], ast.Eq):
        l, r = test.left, test.comparators[0]
        if isinstance(l, ast.Subscript) and self_attr(l.value) == state_attr and isinstance(r, ast.Attribute):
            return norm(l.slice), r.attr
    return None


def _terminates(stmts: List[ast.stmt]) -> bool:
    return bool(stmts) and isinstance(stmts[-1], (ast.Raise, ast.Return, ast.Continue, ast.Break))


def _blocks(stmts: List[ast.stmt], guards: Dict[str, str], state_attr: str, out: List[Block]) -> None:
    """Split into blocks at stage tests; a block = statements (with nested non-stage control flow) under one guard set."""
    plain: List[ast.stmt] = []
    for i, s in enumerate(stmts):
        if isinstance(s, ast.If) and _stage_test(s.test, state_attr) and s.orelse and _terminates(s.orelse) \
                and not any(isinstance(n, ast.If) and _stage_test(n.test, state_attr) for st in s.body for n in ast.walk(st)):
            # `if stage == S: <ops> else: raise`  -- the rest of the statement list runs under the guard S
            x, st_name = _stage_test(s.test, state_attr)
            g = dict(guards)
            g[x] = st_name
            if plain:
                out.append(Block(plain, dict(guards), plain[0].lineno))
                plain = []
            _blocks(list(s.body) + list(stmts[i + 1:]), g, state_attr, out)
            return
        if isinstance(s, ast.If) and _stage_test(s.test, state_attr):
            chain = s
            negated: List[Tuple[str, str]] = []
            while True:
                x, st = _stage_test(chain.test, state_attr)
                g = dict(guards)
                g[x] = st
                _blocks(chain.body, g, state_attr, out)
                negated.append((x, st))
                if len(chain.orelse) == 1 and isinstance(chain.orelse[0], ast.If) and _stage_test(chain.orelse[0].test, state_attr):
                    chain = chain.orelse[0]
                    continue
                if chain.orelse:
                    _blocks(chain.orelse, dict(guards), state_attr, out)
                break
        elif isinstance(s, (ast.For, ast.While)):
            if plain:
                out.append(Block(plain, dict(guards), plain[0].lineno))
                plain = []
            if isinstance(s, ast.For):
                out.append(Block([ast.Expr(value=s.iter, lineno=s.lineno)], dict(guards), s.lineno))
            _blocks(s.body, dict(guards), state_attr, out)
            _blocks(s.orelse, dict(guards), state_attr, out)
        elif isinstance(s, ast.If):
            # non-stage test: keep in the block if its body has no stage tests, otherwise recurse
            has_stage = any(isinstance(n, ast.If) and _stage_test(n.test, state_attr) for n in ast.walk(s) if n is not s) \
                or any(isinstance(n, (ast.For, ast.While)) for n in ast.walk(s) if n is not s)
            if has_stage:
                if plain:
                    out.append(Block(plain, dict(guards), plain[0].lineno))
                    plain = []
                _blocks(s.body, dict(guards), state_attr, out)
                _blocks(s.orelse, dict(guards), state_attr, out)
            else:
                plain.append(s)
        elif isinstance(s, (ast.Try, ast.With)):
            if plain:
                out.append(Block(plain, dict(guards), plain[0].lineno))
                plain = []
            _blocks(getattr(s, "body", []), dict(guards), state_attr, out)
            for h in getattr(s, "handlers", []):
                _blocks(h.body, dict(guards), state_attr, out)
        else:
            plain.append(s)
    if plain:
        out.append(Block(plain, dict(guards), plain[0].lineno))



def _post_order_calls(node: ast.AST) -> List[ast.Call]:
    """calls in evaluation order (arguments before the call)"""
    out: List[ast.Call] = []

    def visit(n: ast.AST):
        for c in ast.iter_child_nodes(n):
            if isinstance(c, (ast.FunctionDef, ast.Lambda)):
                continue
            visit(c)
        if isinstance(n, ast.Call):
            out.append(n)
    if isinstance(node, ast.Lambda):
        visit(node.body)
    else:
        for st in node.body:
            visit(st)
    return out


def _pipe_ops(fn: ast.AST) -> List[str]:
    return [c.func.attr for c in _post_order_calls(fn) if isinstance(c.func, ast.Attribute) and c.func.attr in ("recv", "send")]


def _subst(e: ast.AST, env: Dict[str, ast.AST]) -> ast.AST:
    class S(ast.NodeTransformer):
        def visit_Name(self, n):
            return copy.deepcopy(env[n.id]) if isinstance(n.ctx, ast.Load) and n.id in env else n
    return S().visit(copy.deepcopy(e)) if env else e


def _wrap_truth(test: ast.AST, env: Dict[str, ast.AST], zero: bool, count: str) -> Optional[bool]:
    """truth of a test under `self.<count> == 0` (zero) or `self.<count> >= 1`, parameters replaced by the call's arguments"""
    e = _subst(test, env)

    def value(x):
        if isinstance(x, ast.Constant) and isinstance(x.value, (bool, int)):
            return ("c", x.value)
        if norm(x) == f"self.{count}":
            return ("n",)
        return None

    def truth(x) -> Optional[bool]:
        if isinstance(x, ast.UnaryOp) and isinstance(x.op, ast.Not):
            v = truth(x.operand)
            return None if v is None else not v
        if isinstance(x, ast.BoolOp):
            vs = [truth(v) for v in x.values]
            if isinstance(x.op, ast.And):
                return False if any(v is False for v in vs) else (None if any(v is None for v in vs) else True)
            return True if any(v is True for v in vs) else (None if any(v is None for v in vs) else False)
        if isinstance(x, ast.Compare) and len(x.ops) == 1:
            a, b = value(x.left), value(x.comparators[0])
            if a is None or b is None:
                return None
            op = type(x.ops[0]).__name__
            flip = {"Lt": "Gt", "Gt": "Lt", "LtE": "GtE", "GtE": "LtE", "Eq": "Eq", "NotEq": "NotEq"}
            if op not in flip:
                return None
            if a[0] == "c" and b[0] == "n":
                a, b, op = b, a, flip[op]
            table = {"Lt": lambda p, q: p < q, "Gt": lambda p, q: p > q, "LtE": lambda p, q: p <= q, "GtE": lambda p, q: p >= q,
                     "Eq": lambda p, q: p == q, "NotEq": lambda p, q: p != q}
            if a[0] == "c" and b[0] == "c":
                return table[op](a[1], b[1])
            if a[0] == "n" and b[0] == "c":
                if zero:
                    return table[op](0, b[1])
                # count >= 1: decided when the answer is the same for 1 and for every larger count
                k = b[1]
                answers = {table[op](v, k) for v in (1, 2, max(2, k) + 1, max(2, k) + 2)} | ({table[op](k, k)} if k >= 1 else set())
                return answers.pop() if len(answers) == 1 else None
            return None
        v = value(x)
        if v is None:
            return None
        return bool(v[1]) if v[0] == "c" else not zero
    return truth(e)


def _resolve_wrapper(mod, e: ast.AST, env: Dict[str, ast.AST], zero: bool, count: str, depth: int = 0):
    """(pipe operations in order, how the wrapped method is called: none / one / starred, wrapped method) of the callable that
    the expression evaluates to under the assumption on the argument count; None when not resolved"""
    if depth > 4:
        return None
    if isinstance(e, ast.IfExp):
        t = _wrap_truth(e.test, env, zero, count)
        return None if t is None else _resolve_wrapper(mod, e.body if t else e.orelse, env, zero, count, depth + 1)
    if isinstance(e, (ast.Lambda, ast.FunctionDef)):
        ops = _pipe_ops(e)
        target = None
        how = None
        for c in _post_order_calls(e):
            f = _subst(c.func, env)
            if isinstance(c.func, ast.Name) and c.func.id in env and norm(f).startswith("self.send_"):
                if target is not None:
                    return None
                target = norm(f)
                if not c.args and not c.keywords:
                    how = "none"
                elif len(c.args) == 1 and not c.keywords:
                    how = "starred" if isinstance(c.args[0], ast.Starred) else "one"
                else:
                    how = "other"
        if target is None:
            return None
        return (ops, how, target)
    if isinstance(e, ast.Call) and isinstance(e.func, ast.Name) and e.func.id in mod.functions and not e.keywords \
            and not any(isinstance(a, ast.Starred) for a in e.args):
        fn = mod.functions[e.func.id]
        ps = [a.arg for a in fn.args.args]
        if len(ps) != len(e.args) or fn.args.vararg or fn.args.kwarg or fn.args.kwonlyargs:
            return None
        inner_env = {p_: _subst(a, env) for p_, a in zip(ps, e.args)}
        fenv: Dict[str, ast.AST] = {}

        def run(stmts):
            for st in stmts:
                if isinstance(st, ast.FunctionDef):
                    fenv[st.name] = st
                elif isinstance(st, ast.If):
                    t = _wrap_truth(st.test, inner_env, zero, count)
                    if t is None:
                        return "unknown"
                    r = run(st.body if t else st.orelse)
                    if r is not None:
                        return r
                elif isinstance(st, ast.Return):
                    return ("ret", st.value)
                elif isinstance(st, ast.Assign) and len(st.targets) == 1 and isinstance(st.targets[0], ast.Name) \
                        and isinstance(st.value, ast.Lambda):
                    fenv[st.targets[0].id] = st.value
                elif isinstance(st, ast.Expr) and isinstance(st.value, ast.Constant):
                    continue
                elif isinstance(st, (ast.Assert, ast.Pass)):
                    continue
                else:
                    return "unknown"
            return None
        r = run(fn.body)
        if not isinstance(r, tuple) or r[1] is None:
            return None
        v = r[1]
        if isinstance(v, ast.Name) and v.id in fenv:
            return _resolve_wrapper(mod, fenv[v.id], inner_env, zero, count, depth + 1)
        return _resolve_wrapper(mod, v, inner_env, zero, count, depth + 1)
    return None


def check_parent_protocol(prog: Program, rep: Report) -> None:
    mp = prog.class_named("MultiProcessMediator")
    run = mp.methods.get("run")
    if run is None:
        raise AnalysisError("MultiProcessMediator.run not found")
    # role of the attributes: state table (assigned EventHandlerState.*), start events, continue events
    state_attr = None
    for n in ast.walk(mp.node):
        if isinstance(n, ast.Assign) and isinstance(n.targets[0], ast.Subscript) and self_attr(n.targets[0].value) \
                and isinstance(n.value, ast.Attribute) and norm(n.value.value) == "EventHandlerState":
            state_attr = self_attr(n.targets[0].value)
    if state_attr is None:
        raise IdiomNotRecognised("stage table of the multi-process mediator not found")
    sp = mp.methods.get("_start_processes")
    start_attr = cont_attr = None
    if sp is not None:
        for n in ast.walk(sp):
            if isinstance(n, ast.Call) and norm(n.func).endswith("multiprocessing.Process"):
                for k in n.keywords:
                    if k.arg == "args" and isinstance(k.value, ast.Tuple) and len(k.value.elts) >= 3:
                        def table_of(a: ast.AST) -> Optional[str]:
                            """the table attribute an event handed to the worker is filed in: self.T[..] directly, or a local that
                            is also stored as self.T[..] = local"""
                            if isinstance(a, ast.Subscript):
                                return self_attr(a.value)
                            if isinstance(a, ast.Name):
                                for st_ in ast.walk(sp):
                                    if isinstance(st_, ast.Assign) and isinstance(st_.value, ast.Name) and st_.value.id == a.id:
                                        for t_ in st_.targets:
                                            if isinstance(t_, ast.Subscript) and self_attr(t_.value):
                                                return self_attr(t_.value)
                            return None
                        a1, a2 = table_of(k.value.elts[1]), table_of(k.value.elts[2])
                        if a1 and a2:
                            start_attr, cont_attr = a1, a2
    if not (start_attr and cont_attr):
        raise IdiomNotRecognised("start / continue event tables not identified from the Process arguments")
    # ---- abstract interpretation of the parent's pipe protocol ------------------------------------------------------------
    # For every pipe expression (the loop variable of a loop over pipes, or a looked-up pipe such as self._pipes[handler]) the
    # run loop is executed abstractly, path by path: the abstract state is (set of stages the worker may be in, operations
    # performed since the last stage update).  Stage tests (==, !=, in, not in, also through a local) refine the set; every
    # stage update must be a legal step of the stage machine for the operations performed since the previous one, on every path.
    run_c = canon(prog, mp, run)      # private helpers inlined (a block moved into a helper is still part of the loop)
    R = Resolver(run_c)
    ALL = frozenset(STAGES)
    site_ok: Dict[int, Tuple[bool, ast.AST, str]] = {}
    seen_patterns: Set[str] = set()
    n_sites = 0

    def key_text(e: ast.AST) -> str:
        return norm(R.res(e))

    def binds_direct(loop: ast.AST) -> Set[str]:
        """names (re)bound per iteration of this loop: its target and the locals assigned in its body outside nested loops"""
        out: Set[str] = {x.id for x in ast.walk(loop.target) if isinstance(x, ast.Name)} if isinstance(loop, ast.For) else set()

        def scan(stmts: List[ast.stmt]) -> None:
            for st in stmts:
                if isinstance(st, (ast.For, ast.While)):
                    continue
                if isinstance(st, (ast.Assign, ast.AugAssign, ast.AnnAssign)):
                    for t in (st.targets if isinstance(st, ast.Assign) else [st.target]):
                        out.update(x.id for x in ast.walk(t) if isinstance(x, ast.Name) and isinstance(x.ctx, ast.Store))
                for fld in ("body", "orelse", "finalbody"):
                    b_ = getattr(st, fld, None)
                    if isinstance(b_, list) and b_ and isinstance(b_[0], ast.stmt):
                        scan(b_)
                if isinstance(st, ast.Try):
                    for h in st.handlers:
                        scan(h.body)
        scan(loop.body)
        return out

    def stage_test(test: ast.AST) -> Optional[Tuple[str, FrozenSet[str]]]:
        """(pipe key, stages for which the test is true)"""
        t = R.res(test)
        if isinstance(t, ast.UnaryOp) and isinstance(t.op, ast.Not):
            r = stage_test(t.operand)
            return None if r is None else (r[0], ALL - r[1])
        if isinstance(t, ast.Compare) and len(t.ops) == 1:
            l, r_, op = t.left, t.comparators[0], t.ops[0]
            if isinstance(r_, ast.Subscript) and self_attr(r_.value) == state_attr and isinstance(op, (ast.Eq, ast.NotEq)):
                l, r_ = r_, l
            if isinstance(l, ast.Subscript) and self_attr(l.value) == state_attr:
                vals = None
                if isinstance(r_, ast.Attribute) and norm(r_.value) == "EventHandlerState":
                    vals = {r_.attr}
                elif isinstance(r_, (ast.Tuple, ast.List, ast.Set)) and all(isinstance(x, ast.Attribute) for x in r_.elts):
                    vals = {x.attr for x in r_.elts}
                elif self_attr(r_) or isinstance(r_, ast.Name):
                    # a class-level / module-level constant holding a tuple of stages
                    cname = self_attr(r_) or r_.id
                    for st_ in list(mp.node.body) + list(mp.module.tree.body):
                        if isinstance(st_, ast.Assign) and any(isinstance(t_, ast.Name) and t_.id == cname for t_ in st_.targets) \
                                and isinstance(st_.value, (ast.Tuple, ast.List, ast.Set)) and all(isinstance(x, ast.Attribute) for x in st_.value.elts):
                            vals = {x.attr for x in st_.value.elts}
                if vals is not None:
                    if isinstance(op, (ast.Eq, ast.In, ast.Is)):
                        return norm(l.slice), frozenset(vals)
                    if isinstance(op, (ast.NotEq, ast.NotIn, ast.IsNot)):
                        return norm(l.slice), ALL - frozenset(vals)
        return None

    def ops_of(node: ast.AST, key: str) -> List[Tuple[str, ast.AST]]:
        out = []
        for n in ast.walk(node):
            if isinstance(n, ast.Call) and isinstance(n.func, ast.Attribute):
                f = n.func
                if f.attr in ("recv", "send") and key_text(f.value) == key:
                    out.append((f.attr, n))
                if f.attr == "set" and isinstance(f.value, ast.Subscript) and self_attr(f.value.value) in (start_attr, cont_attr) \
                        and key_text(f.value.slice) == key:
                    out.append(("start.set" if self_attr(f.value.value) == start_attr else "continue.set", n))
        return sorted(out, key=lambda kv: (kv[1].lineno, kv[1].col_offset))

    def legal(frm: str, ops: Tuple[str, ...], to: str) -> Optional[str]:
        for name, p_ in PATTERNS.items():
            if frm in p_["from"] and to == p_["to"] and p_["ops"] <= set(ops) <= (p_["ops"] | p_["optional"]):
                if "send" in ops and [k for k in ops if k.endswith(".set")] and ops.index("send") < min(i for i, k in enumerate(ops) if k.endswith(".set")):
                    return None
                if len([k for k in ops if k == "recv"]) > 1:
                    return None
                return name
        return None

    # abstract state on one path: (stages the stage table may hold now, stages it may have held at region entry, events so far);
    # events are pipe operations and stage updates in execution order.  A path is legal if its events can be cut into segments
    # with one stage update each such that every segment is a legal step (the operations of a step may stand before or after
    # its stage update, as in the code: `stage = suspended; x = pipe.recv()`).
    def note(node: ast.AST, ok: bool, desc: str) -> None:
        prev = site_ok.get(id(node))
        site_ok[id(node)] = (ok and (prev[0] if prev else True), node, desc if (not ok or prev is None) else prev[2])

    Ev = Tuple[str, str, int]
    State_ = Tuple[FrozenSet[str], FrozenSet[str], Tuple[Ev, ...]]
    nodes_by_id: Dict[int, ast.AST] = {}

    def parse(init: FrozenSet[str], events: Tuple[Ev, ...]) -> Optional[List[str]]:
        """names of the steps if the event sequence is a legal walk of the stage machine, else None"""
        upds = [i for i, e in enumerate(events) if e[0] == "upd"]
        if not upds:
            return [] if not events else None
        gaps = [[e[1] for e in events[(upds[k - 1] + 1 if k else 0):upds[k]]] for k in range(len(upds))]
        tail = [e[1] for e in events[upds[-1] + 1:]]

        def go(k: int, frm_set: FrozenSet[str], carried: List[str]) -> Optional[List[str]]:
            # carried: operations standing before update k that belong to it
            to = events[upds[k]][1]
            after = gaps[k + 1] if k + 1 < len(upds) else tail
            last = k + 1 == len(upds)
            for cut in (range(len(after), len(after) + 1) if last else range(len(after) + 1)):
                ops = tuple(carried + after[:cut])
                names = {legal(f_, ops, to) for f_ in frm_set}
                if frm_set == ALL:
                    names = {x for x in names if x in ("start", "resume")} or {None}
                if None in names:
                    continue
                if last:
                    return sorted(x for x in names if x)
                rest = go(k + 1, frozenset({to}), after[cut:])
                if rest is not None:
                    return sorted(x for x in names if x) + rest
            return None
        return go(0, init, gaps[0])

    def end_of_path(states: Set[State_], where: ast.AST, key: str) -> None:
        for cur, init, events in states:
            if not events:
                continue
            names = parse(init, events)
            first = next((nodes_by_id[e[2]] for e in events if e[0] == "upd"), None) or nodes_by_id[events[0][2]]
            seq = [e[1] if e[0] == "op" else f"stage={e[1]}" for e in events]
            note(first, names is not None, f"pipe `{key}` entering in stage {sorted(init) if init != ALL else 'not tested'}: {seq}")
            if names:
                seen_patterns.update(names)

    def region(stmts: List[ast.stmt], key: str, states: Set[State_], bound: Set[str]) -> Set[State_]:
        for st in stmts:
            if not states:
                return states
            if isinstance(st, ast.If):
                r = stage_test(st.test)
                if r is not None and key_text(ast.parse(r[0], mode="eval").body) == key:
                    def refine(state: State_, keep: FrozenSet[str]) -> Optional[State_]:
                        cur, init, ev = state
                        if not cur & keep:
                            return None
                        untouched = not any(e[0] == "upd" for e in ev)
                        return (cur & keep, init & keep if untouched else init, ev)
                    t_states = {x for x in (refine(s_, r[1]) for s_ in states) if x is not None}
                    f_states = {x for x in (refine(s_, ALL - r[1]) for s_ in states) if x is not None}
                else:
                    extra = tuple(("op", k, id(n)) for k, n in ops_of(st.test, key))
                    for k, n in ops_of(st.test, key):
                        nodes_by_id[id(n)] = n
                    t_states = f_states = {(c, i, ev + extra) for c, i, ev in states}
                states = region(st.body, key, set(t_states), bound) | region(st.orelse, key, set(f_states), bound)
                continue
            if isinstance(st, (ast.For, ast.While)):
                if binds_direct(st) & {x.id for x in ast.walk(ast.parse(key, mode="eval")) if isinstance(x, ast.Name)}:
                    continue   # this loop binds the key: analysed as a region of its own
                if not ops_of(st, key) and not any(isinstance(n, ast.Subscript) and self_attr(n.value) == state_attr and key_text(n.slice) == key
                                                   for n in ast.walk(st)):
                    continue   # the loop does not touch this pipe
                states = states | region(st.body, key, set(states), bound)
                continue
            if isinstance(st, ast.Try):
                out_ = region(st.body, key, set(states), bound)
                for h in st.handlers:
                    out_ |= region(h.body, key, set(states), bound)
                states = region(st.finalbody, key, out_, bound) if st.finalbody else out_
                continue
            if isinstance(st, ast.With):
                states = region(st.body, key, states, bound)
                continue
            if isinstance(st, ast.Raise):
                return set()
            if isinstance(st, (ast.Return, ast.Continue, ast.Break)):
                end_of_path(states, st, key)
                return set()
            if isinstance(st, ast.Assert):
                continue
            evs: List[Tuple[int, int, Ev]] = []
            for k, n in ops_of(st, key):
                nodes_by_id[id(n)] = n
                evs.append((n.lineno, n.col_offset, ("op", k, id(n))))
            for n in ast.walk(st):
                if isinstance(n, ast.Assign) and isinstance(n.targets[0], ast.Subscript) and self_attr(n.targets[0].value) == state_attr \
                        and key_text(n.targets[0].slice) == key and isinstance(n.value, ast.Attribute) and norm(n.value.value) == "EventHandlerState":
                    nodes_by_id[id(n)] = n
                    evs.append((n.lineno + 10 ** 6 if n is st else n.lineno, n.col_offset, ("upd", n.value.attr, id(n))))
            if evs:
                seq = tuple(e for _, _, e in sorted(evs))
                new_states: Set[State_] = set()
                for cur, init, ev in states:
                    c2 = cur
                    for e in seq:
                        if e[0] == "upd":
                            c2 = frozenset({e[1]})
                    new_states.add((c2, init, ev + seq))
                states = new_states
        return states
    # regions: every loop whose variable is used as a pipe key, and the whole body for the other keys
    keys: Set[str] = set()
    for n in ast.walk(run_c):
        if isinstance(n, ast.Subscript) and self_attr(n.value) in (state_attr, start_attr, cont_attr):
            keys.add(key_text(n.slice))
        if isinstance(n, ast.Call) and isinstance(n.func, ast.Attribute) and n.func.attr in ("recv", "send"):
            keys.add(key_text(n.func.value))
    loops_ = [n for n in ast.walk(run_c) if isinstance(n, (ast.For, ast.While))]
    for key in sorted(keys):
        key_names = {x.id for x in ast.walk(ast.parse(key, mode="eval")) if isinstance(x, ast.Name)}
        binders = [lp for lp in loops_ if binds_direct(lp) & key_names]
        n_sites += len(ops_of(run_c, key))
        if binders:
            for lp in binders:
                if any(lp is not o and any(x is lp for x in ast.walk(o)) and o in binders for o in binders):
                    pass
                end = region(lp.body, key, {(ALL, ALL, ())}, set())
                end_of_path(end, lp, key)
        else:
            end = region(body_without_docstring(run_c), key, {(ALL, ALL, ())}, set())
            end_of_path(end, run_c, key)
    for ok, node, desc in site_ok.values():
        rep.ob("R20.2-legal-transition", ok, Loc(MPM, getattr(node, "lineno", run.lineno), "MultiProcessMediator.run"), desc,
               "on some path this is not a legal step of the pipe protocol (idle -start[,send]-> event_time_started -recv-> suspended "
               "-continue[,send]-> out_state_started -recv-> idle; suspended -> idle without communication): a receive in the wrong "
               "stage reads the wrong object or blocks forever, a missing or conditional receive leaves a stale message in the pipe, "
               "arguments sent before the wake-up are not read")
    rep.ob("R20.2-all-transitions-present", seen_patterns == set(PATTERNS), Loc(MPM, run.lineno, "MultiProcessMediator.run"),
           f"transitions found: {sorted(seen_patterns)}",
           f"the run loop no longer performs the transitions {sorted(set(PATTERNS) - seen_patterns)}")
    rep.extra["pipe_protocol_sites"] = n_sites
    # sends are conditional on the argument counts (duality with the worker)
    for n in ast.walk(run):
        if isinstance(n, ast.If) and not _stage_test(n.test, state_attr):
            t = norm(n.test)
            # sends directly in this if-body (not inside a nested if)
            sends = [c for st in n.body if not isinstance(st, (ast.If, ast.For, ast.While)) for c in ast.walk(st)
                     if isinstance(c, ast.Call) and isinstance(c.func, ast.Attribute) and c.func.attr == "send"]
            for c in sends:
                arg = norm(c.args[0]) if c.args else ""
                want = "number_send_out_state_arguments" if "_out_state_arguments" in arg else "number_send_event_time_arguments"
                verdict = want in t and "not " not in t
                if not verdict and re.search(r" in self\._\w+$", t) and "arguments" not in t.split(" in ")[0]:
                    verdict = None       # the condition is membership in a table that the mediator derived earlier: not followed
                rep.ob("R20.2-send-iff-arguments", verdict, Loc(MPM, n.lineno, "MultiProcessMediator.run"),
                       f"if {t}: send({arg})",
                       f"the parent must send exactly when the worker's wrapped method receives (condition on `{want}`)")
    # worker
    mod = prog.modules.get("jellyfysh.mediator.multi_process_mediator.multi_process_mediator")
    worker = mod.functions.get("run_in_process") if mod else None
    if worker is None:
        raise AnalysisError("run_in_process not found")
    wloc = Loc(MPM, worker.lineno, "run_in_process")
    binds = [n for n in ast.walk(worker) if isinstance(n, ast.Assign) and self_attr(n.targets[0]) in ("send_event_time", "send_out_state")]
    wrapped: Set[str] = set()
    unrecognised: Set[str] = set()
    for which in ("send_event_time", "send_out_state"):
        count = "number_send_event_time_arguments" if which == "send_event_time" else "number_send_out_state_arguments"
        # (value used when the method takes no arguments, value used when it takes arguments): from a conditional expression or
        # from the two branches of an if statement on the argument count
        pairs = []
        for bnd in [b_ for b_ in binds if self_attr(b_.targets[0]) == which]:
            if isinstance(bnd.value, ast.IfExp):
                pairs.append((bnd.value.test, bnd.value.body, bnd.value.orelse, bnd))
        for st_ in ast.walk(worker):
            if isinstance(st_, ast.If) and st_.orelse:
                tb = [b_ for b_ in st_.body if isinstance(b_, ast.Assign) and self_attr(b_.targets[0]) == which]
                eb = [b_ for b_ in st_.orelse if isinstance(b_, ast.Assign) and self_attr(b_.targets[0]) == which]
                if len(tb) == 1 and len(eb) == 1:
                    pairs.append((st_.test, tb[0].value, eb[0].value, tb[0]))
        singles = [b_ for b_ in binds if self_attr(b_.targets[0]) == which] if not pairs else []
        cases = []          # (binding, expression when the method takes no arguments, expression when it takes arguments)
        for test, then_v, else_v, bnd in pairs:
            tz, tn = _wrap_truth(test, {}, True, count), _wrap_truth(test, {}, False, count)
            if tz is None or tn is None or tz == tn:
                rep.ob("R20.2-worker-wrapping", None, Loc(MPM, bnd.lineno, "run_in_process"), bnd,
                       "condition of the wrapping is not a test of the argument count")
                unrecognised.add(which)
                continue
            cases.append((bnd, then_v if tz else else_v, then_v if tn else else_v))
        if len(singles) == 1:
            cases.append((singles[0], singles[0].value, singles[0].value))
        for bnd, no_args, with_args in cases:
            wz = _resolve_wrapper(mod, no_args, {}, True, count)
            wn = _resolve_wrapper(mod, with_args, {}, False, count)
            if wz is None or wn is None:
                rep.ob("R20.2-worker-wrapping", None, Loc(MPM, bnd.lineno, "run_in_process"), bnd, "wrapper of the method not resolved")
                unrecognised.add(which)
                continue
            ok = wz == (["send"], "none", f"self.{which}") and \
                wn == (["recv", "send"], "starred" if which == "send_out_state" else "one", f"self.{which}")
            if ok:
                wrapped.add(which)
            rep.ob("R20.2-worker-wrapping", ok, Loc(MPM, bnd.lineno, "run_in_process"), bnd,
                   f"the worker must wrap {which} so that it receives from the pipe exactly when the method takes arguments "
                   f"(unpacked for send_out_state, as one in-state for send_event_time) and always sends its result "
                   f"[without arguments: {wz}; with arguments: {wn}]")
        if not cases and which not in unrecognised:
            rep.ob("R20.2-worker-wrapping", None, wloc, which, "wrapping of the method on the argument count not recognised")
            unrecognised.add(which)
    binds = list(wrapped)
    # a method whose wrapping idiom was not recognised is undecided above, it is not counted as `not wrapped` here
    rep.ob("R20.2-worker-wrapping-both", None if unrecognised else len(binds) == 2, wloc, f"{len(binds)} wrapped methods",
           "both methods must be wrapped")
    for wname, fn in sorted(mod.functions.items()):
        if fn is worker:
            continue
        inner = [n for n in ast.walk(fn) if isinstance(n, (ast.FunctionDef, ast.Lambda)) and n is not fn]
        for i in inner:
            calls = _pipe_ops(i)
            if not calls:
                continue
            rep.ob("R20.2-wrapper-shape", calls in (["send"], ["recv", "send"]), Loc(MPM, i.lineno, wname),
                   f"{wname}: {calls}", "a pipe wrapper of the worker performs [send] or [recv, send] on the pipe, in this order")
    # worker loop, by abstract execution of each stage (the statements between two waits) under every valuation of the two events:
    #   stage 1 (idle):      only start set    -> clear start, send_event_time, go on to stage 2;  otherwise raise
    #   stage 2 (suspended): only start set    -> restart the loop (start stays set for stage 1), nothing sent
    #                        only continue set -> clear continue, send_out_state;                  neither -> raise
    loops = [n for n in flat(worker.body) if isinstance(n, ast.While)]
    okw: Optional[bool] = None
    why = "worker loop not recognised"
    if len(loops) == 1:
        body = loops[0].body
        cuts = [i for i, st in enumerate(body) if isinstance(st, ast.Expr) and isinstance(st.value, ast.Call) and isinstance(st.value.func, ast.Attribute)
                and st.value.func.attr == "wait"]
        nested_wait = any(isinstance(c, ast.Call) and isinstance(c.func, ast.Attribute) and c.func.attr == "wait"
                          for i, st in enumerate(body) if i not in cuts for c in ast.walk(st))
        events = sorted({norm(c.func.value) for t in ast.walk(loops[0]) if isinstance(t, ast.If) for c in ast.walk(t.test)
                         if isinstance(c, ast.Call) and isinstance(c.func, ast.Attribute) and c.func.attr == "is_set"})
        if len(cuts) == 2 and cuts[0] == 0 and not nested_wait and len(events) == 2:
            stages = [body[cuts[0] + 1:cuts[1]], body[cuts[1] + 1:]]

            def execute(stmts, val) -> Tuple[List[str], str]:
                acts: List[str] = []

                def truth(e: ast.AST) -> Optional[bool]:
                    if isinstance(e, ast.Call) and isinstance(e.func, ast.Attribute) and e.func.attr == "is_set":
                        return val.get(norm(e.func.value))
                    if isinstance(e, ast.UnaryOp) and isinstance(e.op, ast.Not):
                        v = truth(e.operand)
                        return None if v is None else not v
                    if isinstance(e, ast.BoolOp):
                        vs = [truth(v) for v in e.values]
                        if any(v is None for v in vs):
                            return None
                        return all(vs) if isinstance(e.op, ast.And) else any(vs)
                    return None

                def run(block) -> str:
                    for st in block:
                        if isinstance(st, (ast.Assert, ast.Pass)):
                            continue
                        if isinstance(st, ast.If):
                            v = truth(st.test)
                            if v is None:
                                return "unknown"
                            r = run(st.body if v else st.orelse)
                            if r != "fall":
                                return r
                            continue
                        if isinstance(st, ast.Raise):
                            return "raise"
                        if isinstance(st, ast.Continue):
                            return "continue"
                        if isinstance(st, (ast.Break, ast.Return)):
                            return "leave"
                        for c in ast.walk(st):
                            if isinstance(c, ast.Call) and isinstance(c.func, ast.Attribute):
                                if c.func.attr == "clear":
                                    acts.append("clear " + norm(c.func.value))
                                elif c.func.attr in ("send_event_time", "send_out_state") and isinstance(c.func.value, ast.Name) and c.func.value.id == "self":
                                    acts.append(c.func.attr)
                                elif c.func.attr in ("acquire", "release"):
                                    acts.append(c.func.attr)
                    return "fall"
                return acts, run(stmts)
            found = None
            for S, C in (events, events[::-1]):
                only = lambda e: {S: e == S, C: e == C}   # noqa: E731
                a1, o1 = execute(stages[0], only(S))
                _, o1c = execute(stages[0], only(C))
                _, o1n = execute(stages[0], {S: False, C: False})
                a2s, o2s = execute(stages[1], only(S))
                a2c, o2c = execute(stages[1], only(C))
                _, o2n = execute(stages[1], {S: False, C: False})
                ok1 = o1 == "fall" and [x for x in a1 if x not in ("acquire", "release")] == [f"clear {S}", "send_event_time"] \
                    and a1.count("acquire") == a1.count("release") and o1c == "raise" and o1n == "raise"
                # stage 2 is the end of the loop body: falling off its end and `continue` are the same
                ok2 = o2s in ("continue", "fall") and not a2s and o2c in ("fall", "continue") and a2c == [f"clear {C}", "send_out_state"] \
                    and o2n == "raise"
                if ok1 and ok2:
                    found = (S, C)
                if "unknown" in (o1, o1c, o1n, o2s, o2c, o2n):
                    why = "a test of the worker loop is not a combination of is_set() queries"
            okw = found is not None
            if not okw and why == "worker loop not recognised":
                why = "the worker loop is not the dual of the parent's stage machine"
    rep.ob("R20.2-worker-loop-dual", okw, wloc, "worker loop: wait, start->time, wait, (start->restart | continue->out-state)", why)


def check_precompute_and_trash(prog: Program, rep: Report) -> None:
    mp = prog.class_named("MultiProcessMediator")
    run = canon(prog, mp, mp.methods["run"])
    RR = Resolver(run)
    # candidates for pre-computation: appended to a deque only when the handler takes no out-state arguments
    appends = [n for n in ast.walk(run) if isinstance(n, ast.Call) and isinstance(n.func, ast.Attribute) and n.func.attr == "append"
               and isinstance(n.func.value, ast.Name) and n.args and isinstance(n.args[0], ast.Name)]
    deques = {norm(n.func.value) for n in ast.walk(run) if isinstance(n, ast.Call) and isinstance(n.func, ast.Attribute)
              and n.func.attr == "popleft"}
    pre = [a for a in appends if norm(a.func.value) in deques]
    for a in pre:
        # the append is reached only when the handler takes no out-state arguments (whichever way the test is written)
        conds = path_conditions(body_without_docstring(run), a) or []
        ok = any(c.startswith("not ") and c.endswith(".number_send_out_state_arguments") for c in conds) \
            or any(split_atom(c) is not None and split_atom(c)[0].endswith(".number_send_out_state_arguments") and split_atom(c)[1] == "=="
                   and split_atom(c)[2] == "0" for c in conds)
        if not ok and any(re.search(r"^(not )?[\w.\[\]]+ (not )?in self\._\w+$", c) for c in conds):
            ok = None            # guarded by membership in a table that the mediator derived earlier: not followed
        rep.ob("R20.3-precompute-only-without-arguments", ok, Loc(MPM, a.lineno, "MultiProcessMediator.run"), a,
               "an out-state may be computed ahead of time only for handlers without out-state arguments (arguments depend on "
               "the global state at commit time)")
    rep.ob("R20.3-precompute-candidates", len(pre) >= 1, Loc(MPM, run.lineno, "MultiProcessMediator.run"), f"{len(pre)} candidate site(s)",
           "pre-computation candidate list not found")
    # trash loop
    loops = [n for n in ast.walk(run) if isinstance(n, ast.For) and "get_trashable_events" in norm(n.iter)]
    if len(loops) != 1:
        rep.ob("R20.3-trash-loop", None, Loc(MPM, run.lineno, "MultiProcessMediator.run"), "trash loop", "not found")
        return
    lp = loops[0]
    var = norm(lp.target)
    txt = " ; ".join(norm(s) for s in lp.body)
    loc = Loc(MPM, lp.lineno, "MultiProcessMediator.run")
    rep.ob("R20.3-trash-event", f"trash_event({var})" in txt, loc, "trash loop: scheduler.trash_event", "trashed handlers must be trashed in the scheduler")
    dels = [n for n in ast.walk(lp) if isinstance(n, ast.Delete) and any(isinstance(t, ast.Subscript) and self_attr(t.value) == "_out_states"
                                                                          and norm(t.slice) == var for t in n.targets)]
    dels += [n for n in ast.walk(lp) if isinstance(n, ast.Call) and isinstance(n.func, ast.Attribute) and n.func.attr == "pop"
             and self_attr(n.func.value) == "_out_states" and n.args and norm(n.args[0]) == var]
    rep.ob("R20.3-discard-precomputed", len(dels) == 1, loc, "trash loop: del self._out_states[handler]",
           "a pre-computed out-state of a trashed handler must be discarded, otherwise it is committed later for a stale in-state")
    drains = [n for n in ast.walk(lp) if isinstance(n, ast.Call) and isinstance(n.func, ast.Attribute) and n.func.attr == "recv"]
    rep.ob("R20.3-drain-running", len(drains) == 1, loc, "trash loop: pipe.recv() for a running computation",
           "a running out-state computation of a trashed handler must be drained from the pipe, otherwise its result is read as "
           "the next event time")
    # where the committed out-state comes from: keyed by the committing handler
    reads = [n for n in ast.walk(run) if isinstance(n, ast.Subscript) and self_attr(n.value) == "_out_states" and isinstance(n.ctx, ast.Load)]
    for r in reads:
        committing = RR.text(r.slice)
        from_scheduler = "_event_handler_with_shortest_event_time" in committing or committing.endswith("get_succeeding_event()")
        rep.ob("R20.3-out-state-of-committing-handler", from_scheduler,
               Loc(MPM, r.lineno, "MultiProcessMediator.run"), r, "the committed out-state must be the one of the handler returned by the scheduler")


def check_processes(prog: Program, rep: Report) -> None:
    mp = prog.class_named("MultiProcessMediator")
    starts = []
    for m in mp.methods.values():
        for n in ast.walk(m):
            if isinstance(n, ast.Call) and norm(n.func).endswith("multiprocessing.Process"):
                starts.append((m, n))
    for m, n in starts:
        RM = Resolver(m)
        appended = any(isinstance(c, ast.Call) and isinstance(c.func, ast.Attribute) and c.func.attr == "append"
                       and self_attr(c.func.value) and c.args and (any(x is n for x in ast.walk(c)) or RM.text(c.args[0]) == RM.text(n))
                       for c in ast.walk(m))
        rep.ob("R20.4-process-registered", appended, Loc(MPM, n.lineno, f"MultiProcessMediator.{m.name}"), n,
               "every worker process must be recorded so that post_run can end it")
    pr = mp.methods.get("post_run")
    loc = Loc(MPM, pr.lineno if pr else mp.node.lineno, "MultiProcessMediator.post_run")
    if pr is None:
        rep.ob("R20.4-post-run", False, loc, "post_run", "post_run not overridden: worker processes are left behind")
        return
    body = body_without_docstring(pr)
    sup = bool(body) and "super().post_run()" in norm(body[0])
    rep.ob("R20.4-base-post-run-first", sup, loc, "super().post_run()", "the output handlers' post_run must still run")
    loops = [n for n in body if isinstance(n, ast.For) and self_attr(n.iter)]
    ok = False
    if len(loops) == 1:
        v = norm(loops[0].target)
        alias = {v}
        for n in ast.walk(loops[0]):
            if isinstance(n, ast.Assign) and isinstance(n.targets[0], ast.Name) and norm(n.value) in alias:
                alias.add(n.targets[0].id)
        calls = [(n.lineno, n.col_offset, n.func.attr) for n in ast.walk(loops[0]) if isinstance(n, ast.Call)
                 and isinstance(n.func, ast.Attribute) and n.func.attr in ("terminate", "join", "kill") and norm(n.func.value) in alias]
        order = [c[2] for c in sorted(calls)]
        ok = order in (["terminate", "join"], ["kill", "join"])
        appended_attr = None
        for m, n in starts:
            for c in ast.walk(m):
                if isinstance(c, ast.Call) and isinstance(c.func, ast.Attribute) and c.func.attr == "append" and self_attr(c.func.value):
                    appended_attr = self_attr(c.func.value)
        ok = ok and self_attr(loops[0].iter) == appended_attr
    rep.ob("R20.4-terminate-and-join", ok, loc, "for process in self._os_processes: terminate(); join()",
           "every live worker process must be terminated and joined after the run")


def check_permits(prog: Program, rep: Report) -> None:
    """
    R20.5: every semaphore of the multi-process mediator has at least one permit for every admitted configuration.  The workers
    acquire it around their candidate-time computation while the parent waits for their answers: with zero permits the first
    iteration never completes.  Decided by interval evaluation of the constructor argument over the domain the constructor
    admits (its validating guard clauses), through the attributes the constructor stores.
    """
    INF = float("inf")
    mp = prog.class_named("MultiProcessMediator")
    init = mp.methods.get("__init__")
    if init is None:
        raise AnalysisError("MultiProcessMediator.__init__ not found")
    ci = canon(prog, mp, init, helpers=False)
    body = body_without_docstring(ci)
    env: Dict[str, Tuple[float, float]] = {}
    conds = path_conditions(flat(body), flat(body)[-1]) or []
    for p_ in param_names(ci):
        lo, hi = -INF, INF
        for c in conds:
            parts = c.split()
            if len(parts) == 3 and parts[1] in ("<", "<="):
                try:
                    if parts[2] == p_:
                        lo = max(lo, float(parts[0]) + (1 if parts[1] == "<" else 0))
                    elif parts[0] == p_:
                        hi = min(hi, float(parts[2]) - (1 if parts[1] == "<" else 0))
                except ValueError:
                    pass
        env[p_] = (lo, hi)

    def iv(e: ast.AST, attrs: Dict[str, Tuple[float, float]]) -> Tuple[float, float]:
        if isinstance(e, ast.Constant) and isinstance(e.value, (int, float)) and not isinstance(e.value, bool):
            return (e.value, e.value)
        if isinstance(e, ast.Name) and e.id in env:
            return env[e.id]
        if self_attr(e) in attrs:
            return attrs[self_attr(e)]
        if isinstance(e, ast.BinOp):
            a, b = iv(e.left, attrs), iv(e.right, attrs)
            if isinstance(e.op, ast.Add):
                return (a[0] + b[0], a[1] + b[1])
            if isinstance(e.op, ast.Sub):
                return (a[0] - b[1], a[1] - b[0])
            if isinstance(e.op, ast.Mult) and a[0] >= 0 and b[0] >= 0:
                return (a[0] * b[0], a[1] * b[1])
            if isinstance(e.op, ast.FloorDiv) and b[0] == b[1] and b[0] > 0 and a[0] >= 0:
                return (a[0] // b[0], a[1] // b[0] if a[1] != INF else INF)
        if isinstance(e, ast.Call) and isinstance(e.func, ast.Name) and e.func.id in ("max", "min") and e.args and not e.keywords:
            vs = [iv(a, attrs) for a in e.args]
            f = max if e.func.id == "max" else min
            return (f(v[0] for v in vs), f(v[1] for v in vs))
        if isinstance(e, ast.Call) and isinstance(e.func, ast.Name) and e.func.id == "int" and len(e.args) == 1:
            return iv(e.args[0], attrs)
        return (-INF, INF)
    attrs: Dict[str, Tuple[float, float]] = {}
    for st in ast.walk(ci):
        if isinstance(st, ast.Assign) and len(st.targets) == 1 and self_attr(st.targets[0]):
            attrs[self_attr(st.targets[0])] = iv(st.value, attrs)
    n = 0
    for name, fn in mp.methods.items():
        cf = canon(prog, mp, fn, helpers=False)
        for c in ast.walk(cf):
            if isinstance(c, ast.Call) and norm(c.func).endswith("Semaphore"):
                arg = c.args[0] if c.args else next((k.value for k in c.keywords if k.arg == "value"), None)
                lo, hi = iv(arg, attrs) if arg is not None else (1, 1)
                n += 1
                rep.ob("R20.5-permits-positive", lo >= 1, Loc(MPM, c.lineno, f"MultiProcessMediator.{name}"), c,
                       f"the semaphore that bounds the concurrent candidate-time computations gets between {lo} and {hi} permits over the "
                       f"configurations the constructor admits ({', '.join(conds) or 'no restriction'}): with 0 permits every worker blocks "
                       f"in acquire() while the mediator waits for their candidate times -- the run never commits its first event")
    if n == 0:
        rep.ob("R20.5-permits-positive", None, Loc(MPM, mp.node.lineno, "MultiProcessMediator"), "semaphore", "no semaphore found")


def analyse(src: Source) -> List[Report]:
    rep = Report(ID, src)
    rep.explain(
        "R20.1: in both mediators' run loops (helpers inlined) every component-API call is preceded on all paths of the "
        "iteration by the calls the commit protocol requires (extract active -> handlers to run -> push -> succeeding event -> "
        "out-state -> insert -> trashable -> trash -> mediate), both loops use every API, and the first-occurrence order "
        "agrees. R20.2: every pipe operation of the parent lies in a block that performs exactly one legal transition of the "
        "stage machine under a matching stage guard; sends follow the wake-up and are conditional on the argument counts; the "
        "worker wraps its methods dually and its loop is the dual automaton. R20.3: only handlers without out-state "
        "arguments are offered pre-computation; a trashed handler's stored out-state is deleted and a running computation "
        "is drained next to trash_event; the committed out-state is keyed by the committing handler. R20.4: processes are "
        "registered, terminated and joined. Not decided: schedule independence and deadlock freedom as wholes.")
    prog = Program(src)
    seqs = check_run_loops(prog, rep, "R20.1")
    names = sorted(seqs)
    ref = seqs[names[0]]
    for other in names[1:]:
        a = [x for x in ref if x in seqs[other]]
        b = [x for x in seqs[other] if x in ref]
        rep.ob("R20.1-sibling-order", a == b and set(ref) == set(seqs[other]), Loc(MPM, 0, other),
               f"{names[0]}: {ref} / {other}: {seqs[other]}",
               "the two mediators call the component APIs in a different order or not the same set")
    check_parent_protocol(prog, rep)
    check_precompute_and_trash(prog, rep)
    check_processes(prog, rep)
    check_permits(prog, rep)
    # what the workers receive through the pipes is what the parent sent (pickling is faithful; rule shared with C19)
    from .c19 import check_pickle_hooks_faithful
    check_pickle_hooks_faithful(prog, rep, "R20.6-pickle-hooks-faithful")
    rep.expect_min("R20.1-order", 20)
    rep.expect_min("R20.2-legal-transition", 6)
    rep.expect_min("R20.2-wrapper-shape", 3)
    rep.expect_min("R20.3-precompute-only-without-arguments", 1)
    rep.expect_min("R20.4-process-registered", 1)
    rep.expect_min("R20.5-permits-positive", 1)
    return [rep]


MUTANTS = [
    Edit("trash loop: running computation not drained", MPM,
         "                elif self._event_handlers_state[pipe] == EventHandlerState.out_state_started:\n"
         "                    pipe.recv()\n", "                elif self._event_handlers_state[pipe] == EventHandlerState.out_state_started:\n", "R20"),
    Edit("trash loop: stored out-state kept", MPM,
         "                if event_handler in self._out_states:\n                    del self._out_states[event_handler]\n", "", "R20.3"),
    Edit("trash before commit", MPM, "            self._state_handler.insert_into_global_state(out_state)\n", "", "R20.1"),
    Edit("pre-computation for handlers with arguments", MPM,
         "                        if not self._event_handlers[pipe].number_send_out_state_arguments:\n"
         "                            pipes_time_received.append(pipe)",
         "                        if True:\n                            pipes_time_received.append(pipe)", "R20.3"),
    Edit("post_run does not join", MPM, "                process.join()\n", "", "R20.4"),
    Edit("stage not advanced after waking for the out-state", MPM,
         "                self._event_handlers_state[pipe_with_shortest_event_time] = EventHandlerState.out_state_started\n", "", "R20.2"),
    Edit("received time leaves the stage at event_time_started", MPM,
         "                        self._event_handlers_state[pipe] = EventHandlerState.suspended\n", "", "R20.2"),
    Edit("worker: send_out_state wrapped without unpacking", MPM,
         "else _communicate_via_pipe_with_arguments(self.send_out_state, True))", "else _communicate_via_pipe_with_arguments(self.send_out_state, False))", "R20.2"),
    Edit("worker wrapper forgets to receive", MPM, "            arguments = pipe.recv()\n            pipe.send(func(*arguments))",
         "            arguments = ()\n            pipe.send(func(*arguments))", "R20.2"),
    Edit("parent sends in-state unconditionally", MPM,
         "                if event_handler.number_send_event_time_arguments:\n                    assert in_state is not None\n                    pipe.send(in_state)",
         "                if in_state is not None or True:\n                    pipe.send(in_state)", "R20.2"),
    Edit("process not registered", MPM, "            self._os_processes.append(multiprocessing.Process(", "            self._last_process = (multiprocessing.Process(", "R20.4"),
    Edit("single process: scheduler asked before pushing", "jellyfysh/mediator/single_process_mediator.py",
         "            active_global_state = self._state_handler.extract_active_global_state()\n",
         "            active_global_state = self._state_handler.extract_active_global_state()\n"
         "            if self._event_handler_with_shortest_event_time is not None:\n"
         "                self._scheduler.trash_event(self._event_handler_with_shortest_event_time)\n", "R20.1"),
]
MUTANTS.append(Edit("trash loop: drain only if already arrived", MPM,
                    "                    pipe.recv()\n                    self._event_handlers_state[pipe] = EventHandlerState.idle",
                    "                    if pipe.poll():\n                        pipe.recv()\n                    self._event_handlers_state[pipe] = EventHandlerState.idle",
                    "R20.2"))
TWINS = [
    Edit("rename deque", MPM, "pipes_time_received", "pipes_ready_for_out_state", every=True),
    Edit("post_run with local", MPM, "        for process in self._os_processes:\n            if process.is_alive():",
         "        for worker in self._os_processes:\n            process = worker\n            if process.is_alive():"),
]
