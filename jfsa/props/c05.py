"""
C05 -- lifting schemes route probability flow so that every unit's outflow is matched.

Decided: R5.1 per-guard effect table of Lifting.insert over the finite guard domain (rate>0, is_active, active recorded);
R5.2 lock-step of the two parallel lists and completeness of reset; R5.3 sibling agreement of the three selection walks
(same cumulative walk, position in {pos, sum(neg) - pos, uniform(0, sum(neg))}, base-class guard first); R5.4 typestate
reset -> insert* -> get at the use sites, is_active true only for the active unit; R5.5 antisymmetric bookkeeping of the
derivative tables; R5.6 purity of the selection.  Not decided: the flow-balance integral itself.
"""
import ast
import copy
from typing import Any, Dict, List, Optional, Sequence, Set, Tuple

from ..core import IdiomNotRecognised, AnalysisError, Loc, Report, Source, norm
from ..flow import Ctx, FlowWalker, State
from ..handlers import FnRef, concrete_handlers, implementations
from ..pyfront import ClassInfo, Program, body_without_docstring, param_names, self_attr
from ..guards import atoms
from ..normalize import canon, flat
from ..resolve import Resolver, split_atom
from ..selftest import Edit, Patch

ID = "C05"
LIFT = "jellyfysh/lifting/lifting.py"


def _self_assigns(fn: ast.AST):
    """(attribute, value) of every `self.x = v` / `self.x: T = v` in fn"""
    for n in ast.walk(fn):
        if isinstance(n, ast.Assign) and len(n.targets) == 1 and self_attr(n.targets[0]):
            yield self_attr(n.targets[0]), n.value
        elif isinstance(n, ast.AnnAssign) and n.value is not None and self_attr(n.target):
            yield self_attr(n.target), n.value


class LiftRoles:
    """
    Attribute roles from what the base class does with them (names are free): the two lists are the attributes initialised
    with [] in __init__; `neg` receives the negated rate and `ids` the identifier in insert; `pos` is the scalar advanced by a
    uniform draw, `rec` the scalar set to True, `sum` the remaining scalar.
    """

    def __init__(self, prog: Program) -> None:
        self.prog = prog
        self.base = prog.class_named("Lifting")
        self.schemes = [c for c in prog.subclasses("Lifting") if prog.is_concrete(c)]
        if len(self.schemes) < 3:
            raise AnalysisError(f"expected three lifting schemes, found {[c.name for c in self.schemes]}")
        init = self.method(self.base, "__init__")
        ins = self.method(self.base, "insert")
        if init is None or ins is None:
            raise AnalysisError("Lifting.__init__ / Lifting.insert not found")
        self.lists = [a for a, v in _self_assigns(init) if isinstance(v, ast.List)]
        self.scalars = [a for a, v in _self_assigns(init) if isinstance(v, ast.Constant)]
        reset = self.method(self.base, "reset")
        for a, v in list(_self_assigns(reset) if reset is not None else []) + list(_self_assigns(ins)):
            if isinstance(v, ast.Constant) and a not in self.scalars and a not in self.lists:
                self.scalars.append(a)
        ps = param_names(ins)
        self.neg = self.ids = self.pos = self.rec = None
        for n in ast.walk(ins):
            if isinstance(n, ast.Call) and isinstance(n.func, ast.Attribute) and n.func.attr == "append" and self_attr(n.func.value) \
                    and len(n.args) == 1:
                a = n.args[0]
                if isinstance(a, ast.UnaryOp) and isinstance(a.op, ast.USub):
                    self.neg = self_attr(n.func.value)
                elif len(ps) == 3 and isinstance(a, ast.Name) and a.id == ps[1]:
                    self.ids = self_attr(n.func.value)
            if isinstance(n, ast.AugAssign) and self_attr(n.target) in self.scalars and any(
                    isinstance(c, ast.Call) and norm(c.func).endswith("uniform") for c in ast.walk(n.value)):
                self.pos = self_attr(n.target)
        for a, v in _self_assigns(ins):
            if a in self.scalars and isinstance(v, ast.Constant) and v.value is True:
                self.rec = a
        # second source (so that a defect in insert is reported as such and does not blind the analysis): the schemes' use
        # of the attributes -- the list that is summed / iterated is `neg`, the list a return subscripts is `ids`, the scalar
        # the base-class guard tests is `rec`, the other scalar the schemes read is `pos`
        for c in self.schemes + [self.base]:
            g = self.method(c, "get_active_identifier")
            if g is None:
                continue
            for n in ast.walk(g):
                if self.rec is None and c is self.base and isinstance(n, ast.If):
                    for a in ast.walk(n.test):
                        if self_attr(a) in self.scalars:
                            self.rec = self_attr(a)
                if self.ids is None and isinstance(n, ast.Return) and isinstance(n.value, ast.Subscript) and self_attr(n.value.value) in self.lists:
                    self.ids = self_attr(n.value.value)
                if self.neg is None and isinstance(n, ast.Call) and norm(n.func) in ("sum", "accumulate", "itertools.accumulate") and n.args \
                        and self_attr(n.args[0]) in self.lists:
                    self.neg = self_attr(n.args[0])
        for c in self.schemes:
            g = self.method(c, "get_active_identifier")
            for n in ast.walk(g) if g is not None else []:
                if self.pos is None and isinstance(n, ast.Attribute) and self_attr(n) in self.scalars and self_attr(n) != self.rec \
                        and isinstance(n.ctx, ast.Load):
                    self.pos = self_attr(n)
        if len(self.lists) == 2:
            if self.neg is None and self.ids in self.lists:
                self.neg = [x for x in self.lists if x != self.ids][0]
            if self.ids is None and self.neg in self.lists:
                self.ids = [x for x in self.lists if x != self.neg][0]
        rest = [s for s in self.scalars if s not in (self.pos, self.rec)]
        self.sump = rest[0] if len(rest) == 1 else None
        if not all([self.neg, self.ids, self.pos, self.rec, self.sump]) or set(self.lists) != {self.neg, self.ids}:
            raise IdiomNotRecognised(f"lifting attributes not identified by role: neg={self.neg} ids={self.ids} pos={self.pos} "
                                f"rec={self.rec} sum={self.sump}")

    def method(self, cls: ClassInfo, name: str) -> Optional[ast.FunctionDef]:
        """canonical form (private helpers inlined, locals propagated, ifs normalised) of the method defined in cls"""
        fn = cls.methods.get(name)
        # helpers inlined -- also public sibling methods (a constructor that calls reset() initialises what reset() initialises)
        return None if fn is None else canon(self.prog, cls, fn, public=True)


def _eval_guard(test: ast.AST, env: Dict[str, bool], rate: str, active: str, rec: str) -> Optional[bool]:
    if isinstance(test, ast.UnaryOp) and isinstance(test.op, ast.Not):
        v = _eval_guard(test.operand, env, rate, active, rec)
        return None if v is None else not v
    if isinstance(test, ast.BoolOp):
        vs = [_eval_guard(v, env, rate, active, rec) for v in test.values]
        if any(v is None for v in vs):
            return None
        return all(vs) if isinstance(test.op, ast.And) else any(vs)
    if isinstance(test, ast.Name) and test.id == active:
        return env["active"]
    if self_attr(test) == rec:
        return env["recorded"]
    if isinstance(test, ast.Compare) and len(test.ops) == 1:
        # oriented, normalised atom: `rate > 0`, `0 < rate`, `not rate <= 0` all read "0 < rate"
        at = atoms(test)
        sp = split_atom(at[0]) if len(at) == 1 else None
        if sp is not None:
            l, op, r = sp

            def zero(x: str) -> bool:
                try:
                    return float(x) == 0
                except ValueError:
                    return False
            if zero(l) and r == rate and op == "<":
                return env["positive"]
            if l == rate and zero(r) and op == "<=":
                return not env["positive"]
    return None


def _effects(stmts: List[ast.stmt], env: Dict[str, bool], roles: LiftRoles, ps: List[str], out: List[Tuple], undecided: List[str],
             local: Optional[Dict[str, ast.AST]] = None) -> bool:
    """
    Execute the statements for one cell of the guard domain and collect the effects on the scheme's attributes.  Locals are
    tracked (a value computed in a branch and applied afterwards is the same effect); returns False when the path has returned.
    """
    rate, ident, active = ps
    local = local if local is not None else {}

    def resolve(e: ast.AST) -> ast.AST:
        if isinstance(e, ast.Name) and e.id in local:
            return local[e.id]
        return e

    def classify(e: ast.AST) -> str:
        e = resolve(e)
        if norm(e) == rate:
            return "rate"
        if isinstance(e, ast.UnaryOp) and isinstance(e.op, ast.USub) and norm(resolve(e.operand)) == rate:
            return "-rate"
        if norm(e) == ident:
            return "id"
        if isinstance(e, ast.Call) and norm(e.func).endswith("uniform") and len(e.args) == 2 \
                and isinstance(e.args[0], ast.Constant) and e.args[0].value == 0 and norm(resolve(e.args[1])) == rate:
            return "uniform(0,rate)"
        return norm(e)
    for s in stmts:
        if isinstance(s, ast.Expr) and isinstance(s.value, ast.Constant):
            continue
        if isinstance(s, ast.Assert):
            continue
        if isinstance(s, ast.Return):
            return False
        if isinstance(s, ast.If):
            v = _eval_guard(s.test, env, rate, active, roles.rec)
            if v is None:
                undecided.append(norm(s.test))
                return False
            if not _effects(s.body if v else s.orelse, env, roles, ps, out, undecided, local):
                return False
            continue
        if isinstance(s, ast.AugAssign) and self_attr(s.target) and isinstance(s.op, ast.Add):
            out.append(("add", self_attr(s.target), classify(s.value)))
            continue
        if isinstance(s, ast.Assign) and len(s.targets) == 1 and isinstance(s.targets[0], ast.Name):
            local[s.targets[0].id] = resolve(s.value) if isinstance(s.value, ast.Name) else s.value
            continue
        if isinstance(s, ast.Assign) and self_attr(s.targets[0]):
            v = s.value
            if isinstance(v, ast.BinOp) and isinstance(v.op, ast.Add) and self_attr(v.left) == self_attr(s.targets[0]):
                out.append(("add", self_attr(s.targets[0]), classify(v.right)))
            else:
                out.append(("set", self_attr(s.targets[0]), norm(v)))
            continue
        if isinstance(s, ast.Expr) and isinstance(s.value, ast.Call) and isinstance(s.value.func, ast.Attribute) \
                and s.value.func.attr == "append" and self_attr(s.value.func.value):
            out.append(("append", self_attr(s.value.func.value), classify(s.value.args[0])))
            continue
        if isinstance(s, (ast.Pass,)):
            continue
        undecided.append(norm(s))
        return False
    return True


def check_insert(prog: Program, rep: Report, roles: LiftRoles) -> None:
    ins = roles.method(roles.base, "insert")
    ps = param_names(ins)
    if len(ps) != 3:
        raise AnalysisError("Lifting.insert signature changed")
    R = roles
    expected = {
        (True, True): {("add", R.sump, "rate"), ("set", R.rec, "True"), ("add", R.pos, "uniform(0,rate)")},
        (True, False, False): {("add", R.sump, "rate"), ("add", R.pos, "rate")},
        (True, False, True): {("add", R.sump, "rate")},
        (False,): {("append", R.neg, "-rate"), ("append", R.ids, "id")},
    }
    for positive in (True, False):
        for active in (True, False):
            for recorded in (True, False):
                if not positive and active:
                    continue  # a non-positive rate is never the active unit's (asserted by the code; outside the property's premise)
                env = {"positive": positive, "active": active, "recorded": recorded}
                out: List[Tuple] = []
                und: List[str] = []
                _effects(body_without_docstring(ins), env, roles, ps, out, und)
                if positive and active:
                    want = expected[(True, True)]
                elif positive:
                    want = expected[(True, False, recorded)]
                else:
                    want = expected[(False,)]
                cell = f"rate{'>0' if positive else '<=0'}, {'active' if active else 'not active'}, active {'already' if recorded else 'not yet'} recorded"
                loc = Loc(LIFT, ins.lineno, "Lifting.insert")
                if und:
                    rep.ob("R5.1-insert-effects", None, loc, cell, f"construct not interpreted: {und[0]}")
                    continue
                got = set(out)
                rep.ob("R5.1-insert-effects", got == want and len(out) == len(got), loc, cell,
                       f"for {cell} insert must have the effects {sorted(want)} but has {sorted(out)}: positive rates stack on the "
                       f"interval (units before the active one fully, the active one up to a uniform point, later ones not), "
                       f"non-positive rates are recorded negated together with their identifier")
    rep.exhaustive = True


def check_lockstep(prog: Program, rep: Report, roles: LiftRoles) -> None:
    for c in [roles.base] + roles.schemes:
        for fn in [roles.method(c, m) for m in c.methods]:
            def count(stmts: List[ast.stmt]) -> List[Tuple[int, int]]:
                paths = [(0, 0)]
                for s in stmts:
                    if isinstance(s, ast.If):
                        a, b = count(s.body), count(s.orelse)
                        paths = [(p[0] + q[0], p[1] + q[1]) for p in paths for q in (a + b)]
                    elif isinstance(s, (ast.For, ast.While)):
                        inner = count(s.body)
                        if any(x != y for x, y in inner):
                            paths = [(p[0] + 1, p[1]) for p in paths]
                    else:
                        n = sum(1 for c2 in ast.walk(s) if isinstance(c2, ast.Call) and isinstance(c2.func, ast.Attribute)
                                and c2.func.attr in ("append", "insert", "extend") and self_attr(c2.func.value) == roles.neg)
                        i = sum(1 for c2 in ast.walk(s) if isinstance(c2, ast.Call) and isinstance(c2.func, ast.Attribute)
                                and c2.func.attr in ("append", "insert", "extend") and self_attr(c2.func.value) == roles.ids)
                        r = sum(1 for c2 in ast.walk(s) if isinstance(c2, ast.Call) and isinstance(c2.func, ast.Attribute)
                                and c2.func.attr in ("pop", "remove", "clear") and self_attr(c2.func.value) in (roles.neg, roles.ids))
                        paths = [(p[0] + n + 100 * r, p[1] + i) for p in paths]
                return paths
            paths = count(body_without_docstring(fn))
            touches = any(self_attr(n) in (roles.neg, roles.ids) and isinstance(getattr(n, "ctx", None), ast.Load) for n in ast.walk(fn)
                          if isinstance(n, ast.Attribute))
            if not touches:
                continue
            if fn.name == "reset":
                continue            # reset empties both lists (R5.2-reset-complete); shrinking is judged everywhere else
            rep.ob("R5.2-lock-step", all(a == b for a, b in paths), Loc(c.file, fn.lineno, f"{c.name}.{fn.name}"),
                   f"{c.name}.{fn.name}: appends to the two parallel lists per path {sorted(set(paths))}",
                   "the list of negated rates and the list of identifiers must grow together on every path (index i of one "
                   "belongs to index i of the other) and are never shrunk outside reset")
    for name in ("reset", "__init__"):
        fn = roles.method(roles.base, name)
        cleared = {a: norm(v) for a, v in _self_assigns(fn)}
        # emptying a list in place (`self.x.clear()`, `del self.x[:]`) clears it as well
        for n_ in ast.walk(fn):
            if isinstance(n_, ast.Expr) and isinstance(n_.value, ast.Call) and isinstance(n_.value.func, ast.Attribute) \
                    and n_.value.func.attr == "clear" and not n_.value.args and self_attr(n_.value.func.value):
                cleared.setdefault(self_attr(n_.value.func.value), "[]")
            if isinstance(n_, ast.Delete):
                for t_ in n_.targets:
                    if isinstance(t_, ast.Subscript) and isinstance(t_.slice, ast.Slice) and t_.slice.lower is None and t_.slice.upper is None \
                            and self_attr(t_.value):
                        cleared.setdefault(self_attr(t_.value), "[]")
        want = {roles.neg: "[]", roles.ids: "[]", roles.rec: "False"}
        ok = all(cleared.get(k) == v for k, v in want.items()) and cleared.get(roles.pos) in ("0.0", "0") \
            and cleared.get(roles.sump) in ("0.0", "0")
        rep.ob("R5.2-reset-complete", ok, Loc(LIFT, fn.lineno, f"Lifting.{name}"), f"{name}: {cleared}",
               "reset must clear both lists, the random position, the positive sum and the active-recorded flag")


IDX, NEG, IDS, PREFIX = "index", "neg[i]", "ids[i]", "prefix[i]"


def _stream(e: ast.AST, roles: LiftRoles):
    """what iterating over e yields per step i: IDX, NEG, IDS, PREFIX or a tuple of those; None if not understood"""
    if self_attr(e) == roles.neg:
        return NEG
    if self_attr(e) == roles.ids:
        return IDS
    if isinstance(e, ast.Call):
        f = norm(e.func)
        if f in ("accumulate", "itertools.accumulate") and len(e.args) == 1 and not e.keywords and _stream(e.args[0], roles) == NEG:
            return PREFIX
        if f == "enumerate" and len(e.args) == 1 and not e.keywords:
            inner = _stream(e.args[0], roles)
            return None if inner is None else (IDX, inner)
        if f == "zip" and e.args and not e.keywords:
            return tuple(_stream(a, roles) or "?" for a in e.args)
        if f == "range" and len(e.args) == 1 and isinstance(e.args[0], ast.Call) and norm(e.args[0].func) == "len" \
                and self_attr(e.args[0].args[0]) in (roles.neg, roles.ids):
            return IDX
        if f in ("list", "tuple", "iter") and len(e.args) == 1:
            return _stream(e.args[0], roles)
    return None


def _bind(target: ast.AST, desc, env: Dict[str, str]) -> bool:
    if isinstance(target, ast.Name) and isinstance(desc, str):
        env[target.id] = desc
        return True
    if isinstance(target, (ast.Tuple, ast.List)) and isinstance(desc, tuple) and len(target.elts) == len(desc):
        return all(_bind(t, d, env) for t, d in zip(target.elts, desc))
    return False


def _walk_value(e: ast.AST, env: Dict[str, str], roles: LiftRoles) -> Optional[str]:
    if isinstance(e, ast.Name):
        return env.get(e.id)
    if isinstance(e, ast.BinOp) and isinstance(e.op, (ast.Add, ast.Sub)):
        # the prefix sum shifted by something that is not part of the walk (a tolerance, a constant): not the prefix sum
        l, r = _walk_value(e.left, env, roles), _walk_value(e.right, env, roles)
        free = lambda x: not any(isinstance(n, ast.Name) and n.id in env for n in ast.walk(x))   # noqa: E731
        if l == PREFIX and r is None and free(e.right):
            return f"prefix sum {'+' if isinstance(e.op, ast.Add) else '-'} {norm(e.right)}"
        if r == PREFIX and l is None and free(e.left) and isinstance(e.op, ast.Add):
            return f"prefix sum + {norm(e.left)}"
    if isinstance(e, ast.Subscript) and self_attr(e.value) in (roles.neg, roles.ids) and _walk_value(e.slice, env, roles) == IDX:
        return NEG if self_attr(e.value) == roles.neg else IDS
    return None


def selection_walk(body: List[ast.stmt], roles: LiftRoles):
    """
    Abstract reading of a selection routine.  Returns (recognised, problems, position expression).  Recognised shapes: one loop
    over index / negated rates / identifiers / running prefix sums (enumerate, zip, range(len), itertools.accumulate, or an
    accumulator variable started at 0 and advanced by the current negated rate), a test `position <= prefix sum` that returns the
    identifier of the same index, and a fallback return of the last identifier after the loop.
    """
    problems: List[str] = []
    body = flat(body)
    loops = [s for s in body if isinstance(s, ast.For)]
    if len(loops) != 1:
        return False, ["not exactly one loop"], None
    loop = loops[0]
    env: Dict[str, str] = {}
    it_ = loop.iter
    if isinstance(it_, ast.Call) and norm(it_.func) == "range" and len(it_.args) == 3 and isinstance(it_.args[2], ast.UnaryOp) \
            and isinstance(it_.args[2].op, ast.USub) and norm(it_.args[2].operand) == "1" and isinstance(it_.args[1], ast.Constant) \
            and isinstance(it_.args[1].value, int) and it_.args[1].value >= 0 \
            and any(norm(it_.args[0]) == f"len(self.{a_}) - 1" for a_ in (roles.neg, roles.ids)):
        # a walk from the last index downwards that stops before reaching index 0: the first unit can never be selected
        return True, [f"the walk `{norm(it_)}` never tests index {it_.args[1].value}: the unit at the head of the table is never selected by its "
                      f"own interval"], None
    desc = _stream(loop.iter, roles)
    if desc is None or not _bind(loop.target, desc, env):
        return False, [f"iteration source not understood: {norm(loop.iter)}"], None
    # accumulators: names set to 0 before the loop
    zero = {s.targets[0].id for s in body[:body.index(loop)] if isinstance(s, ast.Assign) and isinstance(s.targets[0], ast.Name)
            and isinstance(s.value, ast.Constant) and s.value.value == 0 and not isinstance(s.value.value, bool)}
    state = {z: "prefix[i-1]" for z in zero}
    position = None
    tested = False
    found_by_break = False
    for st in flat(loop.body):
        if isinstance(st, ast.AugAssign) and isinstance(st.op, ast.Add) and isinstance(st.target, ast.Name) and st.target.id in state:
            if _walk_value(st.value, env, roles) == NEG and state[st.target.id] == "prefix[i-1]":
                state[st.target.id] = PREFIX
                env[st.target.id] = PREFIX
            else:
                problems.append(f"accumulator advanced by {norm(st.value)}")
                state[st.target.id] = "?"
                env.pop(st.target.id, None)
            continue
        if isinstance(st, ast.If) and not st.orelse and len(st.body) == 1 and isinstance(st.body[0], (ast.Return, ast.Break)) \
                and isinstance(st.test, ast.Compare) and len(st.test.ops) == 1:
            l, op, r = st.test.left, st.test.ops[0], st.test.comparators[0]
            lv = _walk_value(l, env, roles) if not (isinstance(l, ast.Name) and l.id in state and state[l.id] != PREFIX) else state[l.id]
            rv = _walk_value(r, env, roles) if not (isinstance(r, ast.Name) and r.id in state and state[r.id] != PREFIX) else state[r.id]
            if rv is not None and lv is None:
                pexpr, cum, le = l, rv, isinstance(op, ast.LtE)
            elif lv is not None and rv is None:
                pexpr, cum, le = r, lv, isinstance(op, ast.GtE)
            else:
                return False, [f"test not understood: {norm(st.test)}"], None
            if any(isinstance(x, ast.Name) and (x.id in env or x.id in state) for x in ast.walk(pexpr)):
                return False, [f"test not understood: {norm(st.test)}"], None
            if cum != PREFIX:
                problems.append(f"position compared with {cum}, not with the prefix sum up to and including the current rate")
            if not le:
                problems.append(f"comparison {norm(st.test)} is not `position <= prefix sum`")
            if isinstance(st.body[0], ast.Break):
                found_by_break = True
            elif st.body[0].value is None or _walk_value(st.body[0].value, env, roles) != IDS:
                problems.append(f"returns {norm(st.body[0].value) if st.body[0].value else None}, not the identifier of the same index")
            position = pexpr
            tested = True
            continue
        return False, [f"loop statement not understood: {norm(st)}"], None
    if not tested:
        return False, ["no test in the loop"], None
    if loop.orelse and not found_by_break:
        return False, ["loop with an else clause"], None
    if any(v not in (PREFIX, "prefix[i-1]") for v in state.values()):
        pass
    if any(v == "prefix[i-1]" and k in {x.id for x in ast.walk(loop) if isinstance(x, ast.Name)} for k, v in state.items()):
        problems.append("accumulator is not advanced in every iteration")
    after = body[body.index(loop) + 1:]
    fallback = after[0] if len(after) == 1 and isinstance(after[0], ast.Return) else None
    ok_fb = False
    if found_by_break:
        # `break` at the hit, `else: index = -1` when the walk runs out, one `return ids[index]` after the loop
        idx_names = [k for k, v in env.items() if v == IDX]
        last = [a for a in loop.orelse if isinstance(a, ast.Assign) and len(a.targets) == 1 and isinstance(a.targets[0], ast.Name)
                and a.targets[0].id in idx_names]
        ok_fb = len(loop.orelse) == 1 and len(last) == 1 and norm(last[0].value) in ("-1", f"len(self.{roles.ids}) - 1", f"len(self.{roles.neg}) - 1") \
            and fallback is not None and isinstance(fallback.value, ast.Subscript) and self_attr(fallback.value.value) == roles.ids \
            and norm(fallback.value.slice) == last[0].targets[0].id
    elif fallback is not None and isinstance(fallback.value, ast.Subscript) and self_attr(fallback.value.value) == roles.ids:
        sl = norm(fallback.value.slice)
        ok_fb = sl in ("-1", f"len(self.{roles.ids}) - 1", f"len(self.{roles.neg}) - 1")
    if not ok_fb:
        problems.append("the fallback after the walk is not the last identifier")
    return True, problems, position


def check_selection(prog: Program, rep: Report, roles: LiftRoles) -> None:
    forms = {}
    for c in roles.schemes:
        fn = roles.method(c, "get_active_identifier")
        loc = Loc(c.file, fn.lineno if fn else c.node.lineno, f"{c.name}.get_active_identifier")
        if fn is None:
            rep.ob("R5.3-selection-walk", None, loc, c.name, "not defined in the scheme class")
            continue
        body = body_without_docstring(fn)
        first = body[0] if body else None
        guard = isinstance(first, ast.Expr) and "super().get_active_identifier()" in norm(first)
        rep.ob("R5.3-guard-first", guard, loc, first if first is not None else c.name,
               "the scheme must first run the base-class guard (active unit recorded)")
        recognised, problems, pv = selection_walk(body, roles)
        if not recognised:
            rep.ob("R5.3-selection-walk", None, loc, f"{c.name}: cumulative walk over the negated rates",
                   f"selection idiom not recognised ({problems[0]})")
            continue
        rep.ob("R5.3-selection-walk", not problems, loc, f"{c.name}: cumulative walk over the negated rates",
               "the selection must walk the cumulative sums of the negated rates, return the first identifier whose prefix sum "
               f"reaches the position (<=) and fall back to the last one: {'; '.join(problems)}")
        if problems:
            continue

        def inline_locals(e: ast.AST) -> str:
            class T(ast.NodeTransformer):
                def visit_Name(self, node):
                    d = [s for s in body if isinstance(s, ast.Assign) and isinstance(s.targets[0], ast.Name)
                         and s.targets[0].id == node.id]
                    if len(d) == 1 and isinstance(node.ctx, ast.Load):
                        return T().visit(ast.parse(ast.unparse(d[0].value), mode="eval").body)
                    return node
            return norm(T().visit(copy.deepcopy(e)))
        posform = None
        if self_attr(pv) == roles.pos:
            re_ = [v for s_ in body for a, v in _self_assigns(s_) if a == roles.pos]
            posform = "pos" if not re_ else inline_locals(re_[-1])
        else:
            posform = inline_locals(pv)
        s_neg = f"sum(self.{roles.neg})"
        allowed = {"pos": "pos", f"self.{roles.pos}": "pos", f"{s_neg} - self.{roles.pos}": "sum(neg) - pos",
                   f"random.uniform(0.0, {s_neg})": "uniform(0, sum(neg))", f"random.uniform(0, {s_neg})": "uniform(0, sum(neg))"}
        forms[c.name] = allowed.get(posform)
        rep.ob("R5.3-position-form", posform in allowed, loc, f"{c.name}: position = {posform}",
               "the position on the stacked negative rates must be the recorded random position, its reflection "
               "sum(neg) - position, or a fresh uniform(0, sum(neg)): any other map does not transport the flow")
    rep.extra["selection_positions"] = forms


class UseClient:
    """reset -> insert* -> get typestate on `self._lifting` at the use sites."""

    def __init__(self, prog: Program, cls: ClassInfo, rep: Report, attr: str) -> None:
        self.prog, self.cls, self.rep, self.attr = prog, cls, rep, attr
        self.seen: Set[Tuple[str, str]] = set()
        self.counts = {"reset": 0, "insert": 0, "get": 0}

    def events(self, node: ast.AST, ctx: Ctx) -> List[Any]:
        if isinstance(node, ast.Call) and isinstance(node.func, ast.Attribute) and self_attr(node.func.value) == self.attr:
            m = node.func.attr
            if m in ("reset", "insert", "get_active_identifier"):
                return [(m, node)]
        return []

    def inline(self, call: ast.Call, ctx: Ctx) -> Sequence[FnRef]:
        f = call.func
        if isinstance(f, ast.Attribute) and isinstance(f.value, ast.Name) and f.value.id == "self":
            return implementations(self.prog, self.cls, f.attr)
        return []

    def transfer(self, state: State, ev: Any, ctx: Ctx) -> State:
        m, node = ev
        s = set(state)
        file, line, qual = ctx.where()
        loc = Loc(file, line, f"{self.cls.name}: {ctx.path()}")
        key = (m, f"{qual}:{norm(node)}")
        if m == "reset":
            self.counts["reset"] += 1
            s = {"RESET"}
        elif m == "insert":
            self.counts["insert"] += 1
            if key not in self.seen:
                self.rep.ob("R5.4-reset-before-insert", "RESET" in s and "GOT" not in s, loc, node,
                            "a unit is inserted into the lifting scheme without a reset since the last selection: rates of a "
                            "previous event leak into this one")
            s.add("INSERTED")
        elif m == "get_active_identifier":
            self.counts["get"] += 1
            if key not in self.seen:
                self.rep.ob("R5.4-insert-before-get", "RESET" in s and "INSERTED" in s, loc, node,
                            "the next active unit is selected before the derivative table has been filled on every path")
            s.add("GOT")
        self.seen.add(key)
        return frozenset(s)


def check_use_sites(prog: Program, rep: Report) -> None:
    n = 0
    for h in concrete_handlers(prog):
        attrs = set()
        for c in prog.mro(h):
            for fn in c.methods.values():
                for call in ast.walk(fn):
                    if isinstance(call, ast.Call) and isinstance(call.func, ast.Attribute) and call.func.attr == "insert" \
                            and self_attr(call.func.value) and len(call.args) == 3:
                        attrs.add(self_attr(call.func.value))
        for attr in attrs:
            client = UseClient(prog, h, rep, attr)
            w = FlowWalker(client.events, client.transfer, client.inline, loop_keep=lambda f: f == "INSERTED")
            for ref in implementations(prog, h, "send_out_state"):
                w.run(ref, frozenset())
            if client.counts["insert"]:
                n += 1
                rep.ob("R5.4-protocol-complete", client.counts["reset"] >= 1 and client.counts["get"] >= 1,
                       Loc(h.file, h.node.lineno, h.name), f"{h.name}: {client.counts}",
                       "a handler that fills the lifting scheme must reset it and ask it for the next active unit")
    rep.unit("handlers_using_a_lifting_scheme", n)
    # is_active argument and identifier argument at every insert site
    for mi, ci, fn in prog.functions():
        if ci is None or not prog.is_subclass(ci, "EventHandler"):
            continue
        RU = None
        for call in ast.walk(fn):
            if isinstance(call, ast.Call) and isinstance(call.func, ast.Attribute) and call.func.attr == "insert" \
                    and self_attr(call.func.value) and len(call.args) == 3:
                RU = RU or Resolver(fn)
                # the arguments as defined at this call (locals bound just before the call are read through)
                loopvars_ = tuple(x.id for l in ast.walk(fn) if isinstance(l, ast.For) for x in ast.walk(l.target) if isinstance(x, ast.Name))
                rate, ident, active = (RU.res(a_, keep=loopvars_) for a_ in call.args)
                loc = Loc(mi.file, call.lineno, f"{ci.name}.{fn.name}")
                a = norm(active)
                ok_active = a == "False" or "_active_leaf_unit" in a
                rep.ob("R5.4-is-active-argument", ok_active, loc, call,
                       "is_active must be False or a test against the handler's active leaf unit (true for exactly that unit)")
                ok_id = norm(ident).endswith(".identifier")
                rep.ob("R5.4-identifier-argument", ok_id, loc, call, "the inserted identifier must be a unit's identifier")
                # rate and identifier belong to the same unit: rate = table[i], identifier = units[i] / loop unit of index i
                loops = [l for l in ast.walk(fn) if isinstance(l, ast.For) and any(x is call for x in ast.walk(l))]
                if loops and isinstance(loops[-1].target, ast.Tuple) and isinstance(loops[-1].iter, ast.Call) and norm(loops[-1].iter.func) == "enumerate":
                    idx, unit = (norm(e) for e in loops[-1].target.elts)
                    same = isinstance(rate, ast.Subscript) and norm(rate.slice) == idx and norm(ident) == f"{unit}.identifier"
                    # enumerate(zip(rates, units)): the pair (rate, unit) is bound position by position, which is the same pairing
                    inner_t, inner_it = loops[-1].target.elts[1], loops[-1].iter.args[0] if loops[-1].iter.args else None
                    if not same and isinstance(inner_t, ast.Tuple) and len(inner_t.elts) == 2 and isinstance(inner_it, ast.Call) \
                            and norm(inner_it.func) == "zip" and len(inner_it.args) == 2:
                        r_name, u_name = (norm(e) for e in inner_t.elts)
                        same = norm(call.args[0]) == r_name and norm(call.args[1]) == f"{u_name}.identifier"
                    rep.ob("R5.4-rate-of-same-unit", same, loc, call,
                           "the rate inserted for a unit must be the table entry with that unit's index")
                # every unit of the factor is inserted, whatever the sign of its derivative: the lifting schemes need the positive
                # derivatives as well (they shift the random position in inside-first / outside-first order, and give the ratio flow)
                if loops:
                    lp = loops[-1]
                    it = RU.res(lp.iter)
                    rate_names = {x.id for x in ast.walk(call.args[0]) if isinstance(x, ast.Name)} | {x.id for x in ast.walk(rate) if isinstance(x, ast.Name)}
                    filt: List[str] = []
                    for c_ in ast.walk(it):
                        if isinstance(c_, ast.comprehension):
                            filt.extend(norm(i_) for i_ in c_.ifs)
                        if isinstance(c_, ast.Call) and norm(c_.func) == "filter":
                            filt.append(norm(c_))
                    from ..guards import path_conditions as _pc
                    filt.extend(_pc(lp.body, call) or [])
                    sign = [f_ for f_ in filt if any(tok in f_ for tok in ("< 0", "> 0", "<= 0", ">= 0", "0.0 <", "0.0 >", "0 <", "0 >"))]
                    rep.ob("R5.4-every-unit-inserted", (False if sign else None) if filt else True, loc,
                           f"insert loop over `{norm(it)[:140]}`" + (f" filtered by {filt}" if filt else ""),
                           "every leaf unit of the factor must be inserted into the lifting scheme with its factor derivative; units with a "
                           "derivative of the other sign are part of the scheme (they shift the random position and carry the flow), so a "
                           "filter on the sign of the derivative changes which unit is lifted")


def pairwise_balance(fn: ast.FunctionDef) -> Optional[Dict[str, int]]:
    """
    Linear bookkeeping of the pairwise derivatives p = self._potential.derivative(..) computed in a function: for every
    accumulator (a scalar sum or a table filled index by index, or a list built by a comprehension) the net coefficient with which
    each p enters it, however the accumulation is written (`+=` in the loop that computes p, a list of the p's consumed by a
    second loop or a comprehension, `0.0 - p`, ...).  None if the function computes no pairwise derivative in a loop.
    """
    env: Dict[str, int] = {}       # names that hold (a multiple of) one p
    acc: Dict[str, int] = {}       # accumulators / tables: net coefficient
    lists: Dict[str, int] = {}     # lists of p's (sources): name -> coefficient
    consumed: Set[str] = set()
    tables: Set[str] = set()
    found = [False]

    def is_p(e: ast.AST) -> bool:
        return isinstance(e, ast.Call) and norm(e.func) == "self._potential.derivative"

    def lin(e: ast.AST, local: Dict[str, int]) -> Optional[int]:
        if is_p(e):
            found[0] = True
            return 1
        if isinstance(e, ast.Name):
            return local.get(e.id, env.get(e.id))
        if isinstance(e, ast.Constant) and isinstance(e.value, (int, float)) and e.value == 0:
            return 0
        if isinstance(e, ast.UnaryOp) and isinstance(e.op, ast.USub):
            v = lin(e.operand, local)
            return None if v is None else -v
        if isinstance(e, ast.BinOp) and isinstance(e.op, (ast.Add, ast.Sub)):
            x, y = lin(e.left, local), lin(e.right, local)
            if x is None or y is None:
                return None
            return x + y if isinstance(e.op, ast.Add) else x - y
        return None

    def base_name(t: ast.AST) -> Optional[str]:
        if isinstance(t, ast.Name):
            return t.id
        if isinstance(t, ast.Subscript) and isinstance(t.value, ast.Name):
            return t.value.id
        return None

    def bind_loop(target: ast.AST, it: ast.AST, local: Dict[str, int]) -> None:
        """loop variable over a list of p's holds one p (with the list's coefficient)"""
        src_ = it
        pos = None
        if isinstance(it, ast.Call) and norm(it.func) == "enumerate" and it.args:
            src_, pos = it.args[0], 1
        if isinstance(it, ast.Call) and norm(it.func) == "zip":
            for k, a_ in enumerate(it.args):
                if isinstance(a_, ast.Name) and a_.id in lists and isinstance(target, ast.Tuple) and k < len(target.elts) \
                        and isinstance(target.elts[k], ast.Name):
                    local[target.elts[k].id] = lists[a_.id]
                    consumed.add(a_.id)
            return
        if isinstance(src_, ast.Name) and src_.id in lists:
            consumed.add(src_.id)
            t = target.elts[pos] if pos is not None and isinstance(target, ast.Tuple) else target
            if isinstance(t, ast.Name):
                local[t.id] = lists[src_.id]

    def run(stmts: List[ast.stmt]) -> None:
        for st in stmts:
            if isinstance(st, ast.Assign) and len(st.targets) == 1:
                t, v = st.targets[0], st.value
                if isinstance(v, (ast.ListComp, ast.GeneratorExp)) or (isinstance(v, ast.Call) and norm(v.func) in ("list", "tuple") and v.args
                                                                         and isinstance(v.args[0], (ast.ListComp, ast.GeneratorExp))):
                    comp = v if isinstance(v, (ast.ListComp, ast.GeneratorExp)) else v.args[0]
                    local: Dict[str, int] = {}
                    for g in comp.generators:
                        bind_loop(g.target, g.iter, local)
                    c = lin(comp.elt, local)
                    if c is not None and isinstance(t, ast.Name) and (c != 0 or any(is_p(x) for x in ast.walk(comp.elt))):
                        lists[t.id] = c
                    continue
                if isinstance(v, ast.Call) and norm(v.func) == "sum" and v.args and isinstance(v.args[0], (ast.ListComp, ast.GeneratorExp)) \
                        and isinstance(t, ast.Name):
                    # total = sum(e(p) for p in <list of p's>): every p enters the scalar with the coefficient of e
                    comp = v.args[0]
                    local = {}
                    for g in comp.generators:
                        bind_loop(g.target, g.iter, local)
                    c = lin(comp.elt, local)
                    if c:
                        acc[t.id] = acc.get(t.id, 0) + c
                    continue
                c = lin(v, {})
                if isinstance(t, ast.Name) and c is not None and not (isinstance(v, ast.Constant)):
                    env[t.id] = c
                elif isinstance(t, ast.Subscript) and base_name(t) and c is not None and c != 0:
                    acc[base_name(t)] = acc.get(base_name(t), 0) + c   # table[i] = p  (each slot written once)
                    tables.add(base_name(t))
                continue
            if isinstance(st, ast.Expr) and isinstance(st.value, ast.Call) and isinstance(st.value.func, ast.Attribute) \
                    and st.value.func.attr == "append" and isinstance(st.value.func.value, ast.Name) and len(st.value.args) == 1:
                # a list of p's built by appending one p per iteration
                c = lin(st.value.args[0], {})
                if c is not None and (c != 0 or is_p(st.value.args[0])):
                    lists[st.value.func.value.id] = c
                continue
            if isinstance(st, ast.AugAssign) and isinstance(st.op, (ast.Add, ast.Sub)):
                c = lin(st.value, {})
                n_ = base_name(st.target)
                if c and n_:
                    acc[n_] = acc.get(n_, 0) + (c if isinstance(st.op, ast.Add) else -c)
                    if isinstance(st.target, ast.Subscript):
                        tables.add(n_)
                continue
            if isinstance(st, ast.For):
                local = {}
                bind_loop(st.target, st.iter, local)
                saved = dict(env)
                env.update(local)
                run(st.body)
                for k in local:
                    env.pop(k, None)
                    if k in saved:
                        env[k] = saved[k]
                continue
            for fld in ("body", "orelse", "finalbody"):
                b_ = getattr(st, fld, None)
                if isinstance(b_, list) and b_ and isinstance(b_[0], ast.stmt):
                    run(b_)
    run(body_without_docstring(fn))
    if not found[0]:
        return None
    out = dict(acc)
    for k, c in lists.items():
        if k not in consumed:
            out[k] = out.get(k, 0) + c
            tables.add(k)
    if not tables:
        return None   # only a scalar sum: no per-unit table is filled here (nothing for a lifting scheme to see)
    return {k: c for k, c in out.items() if c != 0}


def check_antisymmetry(prog: Program, rep: Report) -> None:
    for mi, ci, fn in prog.functions():
        if ci is None or not prog.is_subclass(ci, "EventHandler"):
            continue
        in_loop = any(isinstance(c, ast.Call) and norm(c.func) == "self._potential.derivative"
                      for lp in ast.walk(fn) if isinstance(lp, (ast.For, ast.ListComp, ast.GeneratorExp)) for c in ast.walk(lp))
        if not in_loop:
            continue
        bal = pairwise_balance(canon(prog, ci, fn, helpers=False))
        if bal is None:
            continue
        coefs = sorted(bal.values())
        rep.ob("R5.5-antisymmetric-table", coefs == [-1, 1], Loc(mi.file, fn.lineno, f"{ci.name}.{fn.name}"),
               f"{ci.name}.{fn.name}: pairwise derivatives enter {bal}",
               f"every pairwise derivative must be added once to the active side and subtracted once from the partner's table entry "
               f"(net coefficients +1 and -1): the table the lifting scheme sees sums to zero only by this construction; found {bal}")


def check_insertion_order(prog: Program, rep: Report) -> None:
    """
    R5.7: when the units of two composite objects are inserted into the lifting scheme, the order of the two groups in the
    derivative table must not depend on which of them contains the active unit (inside-first and outside-first lifting read the
    table by position: the same physical pair must produce the same layout whichever of its units is active).  Necessary
    structure: both orders of the two groups occur, selected by a comparison between identifiers of the two groups.
    """
    n = 0
    for mi, ci, fn0 in prog.functions():
        if ci is None or not prog.is_subclass(ci, "EventHandler"):
            continue
        fn = canon(prog, ci, fn0, helpers=False)

        def groups_of(it: ast.AST) -> List[str]:
            """the unit sequences a loop runs over, in order"""
            if isinstance(it, ast.Call) and norm(it.func) in ("chain", "itertools.chain"):
                out: List[str] = []
                for a in it.args:
                    out += groups_of(a)
                return out
            if isinstance(it, ast.Call) and norm(it.func) in ("enumerate", "zip", "list", "tuple", "reversed", "iter"):
                return [norm(it)]
            return [norm(it)]
        inserts = []
        for lp in ast.walk(fn):
            if isinstance(lp, ast.For):
                for c in ast.walk(lp):
                    if isinstance(c, ast.Call) and isinstance(c.func, ast.Attribute) and c.func.attr == "insert" and self_attr(c.func.value) \
                            and len(c.args) == 3 and not any(isinstance(l2, ast.For) and l2 is not lp and any(x is c for x in ast.walk(l2))
                                                              for l2 in ast.walk(lp)):
                        inserts.append((lp, c))
        if not inserts:
            continue
        loop_groups = {id(lp): groups_of(lp.iter) for lp, _ in inserts}
        all_groups = {g for gs in loop_groups.values() for g in gs}
        if len(all_groups) < 2:
            continue
        n += 1

        RO = Resolver(fn)

        def walk_paths(stmts: List[ast.stmt], assumed: Dict[str, bool], acc: Tuple[str, ...]):
            """yield (order of groups, assumptions) for every feasible path; equal tests get equal outcomes along a path"""
            if not stmts:
                yield acc, assumed
                return
            st, rest = stmts[0], stmts[1:]
            if isinstance(st, ast.If):
                pos, neg = atoms(RO.res(st.test)), atoms(RO.res(st.test), False)
                key, nkey = " and ".join(pos), " and ".join(neg)
                if not any(id(lp) in loop_groups for lp in ast.walk(st) if isinstance(lp, ast.For)):
                    yield from walk_paths(rest, assumed, acc)
                    return
                if key in assumed or nkey in assumed:
                    truth = assumed[key] if key in assumed else not assumed[nkey]
                    yield from walk_paths((st.body if truth else st.orelse) + rest, assumed, acc)
                else:
                    for truth in (True, False):
                        yield from walk_paths((st.body if truth else st.orelse) + rest, {**assumed, key: truth}, acc)
                return
            if isinstance(st, ast.For) and id(st) in loop_groups:
                yield from walk_paths(rest, assumed, acc + tuple(loop_groups[id(st)]))
                return
            inner: List[ast.stmt] = []
            for fld in ("body", "orelse", "finalbody"):
                b_ = getattr(st, fld, None)
                if isinstance(b_, list) and b_ and isinstance(b_[0], ast.stmt):
                    inner += b_
            yield from walk_paths(inner + rest, assumed, acc)
        found = [(o, tuple(a)) for o, a in walk_paths(body_without_docstring(fn), {}, ()) if o]
        distinct = {p[0] for p in found}
        tests = {t for p in found for t in p[1]}
        symmetric = len(distinct) >= 2 and any(tuple(reversed(o)) in distinct for o in distinct) \
            and any(t.count(".identifier") >= 2 for t in tests)
        rep.ob("R5.7-table-order-independent-of-active-unit", symmetric, Loc(mi.file, fn.lineno, f"{ci.name}.{fn.name}"),
               f"{ci.name}.{fn.name}: insertion orders {sorted(distinct)}",
               "the units of two composite objects are inserted into the lifting scheme in an order that does not follow from a "
               "comparison of their identifiers (both orders, chosen by identifier): the layout of the derivative table then depends on "
               "which unit is active and the inside-first / outside-first flows no longer balance")
    rep.unit("two_group_insertion_routines", n)


def check_purity(prog: Program, rep: Report, roles: LiftRoles) -> None:
    for c in roles.schemes + [roles.base]:
        fn = roles.method(c, "get_active_identifier")
        if fn is None:
            continue
        body = ast.Module(body=body_without_docstring(fn), type_ignores=[])
        names = {n.id for n in ast.walk(body) if isinstance(n, ast.Name) and isinstance(n.ctx, ast.Load)}
        local = {n.id for n in ast.walk(body) if isinstance(n, ast.Name) and isinstance(n.ctx, ast.Store)}
        import builtins as _bi
        foreign = names - local - {"self", "random", "super", "LiftingSchemeError", "accumulate", "itertools", "bisect", "bisect_left", "bisect_right",
                                   "islice", "takewhile", "chain", "operator", "math"} - set(dir(_bi))

        def pure_function(name_: str, depth_: int = 0) -> bool:
            """a function of the package that reads nothing but its arguments (and pure functions): no state, no random numbers"""
            r_ = None
            for k_ in prog.mro(c):          # (a helper of a base class may have been read in place: the name lives in that module)
                r_ = prog.resolve_name(k_.module, name_)
                if r_ is not None:
                    break
            if not (isinstance(r_, tuple) and len(r_) == 3 and r_[0] == "func" and isinstance(r_[2], ast.FunctionDef)) or depth_ > 2:
                return False
            f_ = r_[2]
            ps_ = {a.arg for a in f_.args.args + f_.args.kwonlyargs}
            loads_ = {n.id for b_ in f_.body for n in ast.walk(b_) if isinstance(n, ast.Name) and isinstance(n.ctx, ast.Load)}
            for b_ in f_.body:          # (annotations are not reads)
                for n in ast.walk(b_):
                    if isinstance(n, ast.AnnAssign):
                        loads_ -= {x.id for x in ast.walk(n.annotation) if isinstance(x, ast.Name)}
            stores_ = {n.id for n in ast.walk(f_) if isinstance(n, ast.Name) and isinstance(n.ctx, ast.Store)}
            if any(isinstance(n, (ast.Global, ast.Nonlocal)) for n in ast.walk(f_)):
                return False
            rest_ = loads_ - ps_ - stores_ - set(dir(_bi)) - {"accumulate", "itertools", "islice", "takewhile", "chain", "bisect_left", "bisect_right"}
            return all(pure_function(x_, depth_ + 1) for x_ in rest_)
        foreign = {x_ for x_ in foreign if not pure_function(x_)}
        writes = [n for n in ast.walk(fn) if isinstance(n, ast.Call) and isinstance(n.func, ast.Attribute)
                  and n.func.attr in ("append", "pop", "remove", "insert", "clear") and self_attr(n.func.value)]
        rep.ob("R5.6-selection-pure", not foreign and not writes, Loc(c.file, fn.lineno, f"{c.name}.get_active_identifier"),
               f"{c.name}: reads {sorted(foreign) or 'only self and random'}",
               "the choice must depend on nothing but the recorded table and the uniform draw")


def analyse(src: Source) -> List[Report]:
    rep = Report(ID, src)
    rep.explain(
        "R5.1: Lifting.insert is evaluated on all combinations of its three guards (rate>0, is_active, active already "
        "recorded); per cell the set of effects on the five role-identified attributes must equal the stacking table (exhaustive "
        "over the finite guard domain; statement order and if-nesting are free). R5.2: both parallel lists receive the same "
        "number of appends on every path of every method and are cleared (with the three scalars) by reset. R5.3: every scheme "
        "runs the base guard first and performs the same cumulative walk (first prefix sum >= position, last index as "
        "fallback) with position in {pos, sum(neg) - pos, uniform(0, sum(neg))}. R5.4: at the use sites reset precedes all "
        "inserts and a filled table precedes the selection on every path; is_active is False or a test against the active "
        "leaf unit; rate and identifier of an insert belong to the same unit. R5.5: every pairwise derivative is added once to "
        "the active side and subtracted once from the partner's entry in the same loop body. R5.6: selection reads only the "
        "scheme's own fields and random. Not decided: the balance identity (an integral over the uniform variable).")
    rep.assume("loops over leaf units run at least once (for the 'table filled before selection' fact only)")
    prog = Program(src)
    roles = None
    try:
        roles = LiftRoles(prog)
    except IdiomNotRecognised as e:
        # the lifting table is kept in a way the role discovery does not follow (e.g. one list of records): the rules on the table
        # itself are undecided; the rules on its use sites still run
        for r_ in ("R5.1-insert-effects", "R5.2-lock-step", "R5.3-selection-walk", "R5.6-selection-pure"):
            rep.ob(r_, None, Loc(LIFT, 0, "Lifting"), "lifting table", f"idiom not recognised: {e}")
    if roles is not None:
        rep.unit("lifting_schemes", len(roles.schemes))
        check_insert(prog, rep, roles)
        check_lockstep(prog, rep, roles)
        check_selection(prog, rep, roles)
        check_purity(prog, rep, roles)
    check_use_sites(prog, rep)
    check_antisymmetry(prog, rep)
    check_insertion_order(prog, rep)
    rep.expect_min("R5.1-insert-effects", 6)
    rep.expect_min("R5.2-lock-step", 4)
    rep.expect_min("R5.3-selection-walk", 3)
    rep.expect_min("R5.4-reset-before-insert", 3)
    rep.expect_min("R5.4-insert-before-get", 3)
    rep.expect_min("R5.5-antisymmetric-table", 2)   # 4 on the pinned tree; duplicated summing loops may be merged into one shared helper
    rep.expect_min("R5.7-table-order-independent-of-active-unit", 1)
    return [rep]


EB = "jellyfysh/event_handler/abstracts/event_handler_with_bounding_potential.py"
MUTANTS = [
    Edit("insert: later positive rates always stacked", LIFT, "            elif not self._active_recorded:\n", "            else:\n", "R5.1"),
    Edit("insert: units before the active one not stacked", LIFT,
         "            elif not self._active_recorded:\n                self._random_position += lifting_rate\n", "", "R5.1"),
    Edit("insert: negative rate stored with its sign", LIFT, "self._negative_lifting_rates.append(-lifting_rate)",
         "self._negative_lifting_rates.append(lifting_rate)", "R5.1"),
    Edit("insert: identifier not recorded", LIFT, "            self._associated_identifiers.append(associated_identifier)\n", "", "R5"),
    Edit("insert: active unit stacked fully", LIFT, "self._random_position += random.uniform(0.0, lifting_rate)",
         "self._random_position += lifting_rate", "R5.1"),
    Edit("reset keeps the flag", LIFT,
         r"(    def reset\(self\) -> None:(?:.*?\n)*?        self\._sum_positive_lifting_rates = 0\.0\n)        self\._active_recorded = False\n",
         r"\1", "R5.2", regex=True),
    Edit("inside first: strict comparison skipped... position halved", "jellyfysh/lifting/inside_first_lifting.py",
         "            if self._random_position <= summed_lifting_rate:", "            if 0.5 * self._random_position <= summed_lifting_rate:", "R5.3"),
    Edit("ratio: uniform over the positive sum", "jellyfysh/lifting/ratio_lifting.py",
         "random.uniform(0.0, sum(self._negative_lifting_rates))", "random.uniform(0.0, self._sum_positive_lifting_rates)", "R5.3"),
    Edit("outside first: returns the first identifier as fallback", "jellyfysh/lifting/outside_first_lifting.py",
         "        return self._associated_identifiers[-1]", "        return self._associated_identifiers[0]", "R5.3"),
    Edit("fill lifting: target table with the wrong sign", EB,
         "                target_composite_object_factor_derivatives[index_2] -= pairwise_derivative",
         "                target_composite_object_factor_derivatives[index_2] += pairwise_derivative", "R5.5"),
    Edit("fill lifting: no reset", EB, "        self._lifting.reset()\n", "", "R5.4"),
    Edit("fill lifting: every local unit inserted as active", EB,
         "local_unit.identifier, local_unit is self._active_leaf_unit)", "local_unit.identifier, True)", "R5.4", nth=0),
    Edit("fixed separations: rate of the active unit for everyone", "jellyfysh/event_handler/fixed_separations_event_handler_with_piecewise_constant_bounding_potential.py",
         "self._lifting.insert(potential_derivatives[index], leaf_unit.identifier,", "self._lifting.insert(active_unit_derivative, leaf_unit.identifier,", "R5.4"),
]
MUTANTS += [
    Patch("refactored (accumulate idiom) + strict comparison", "refactorings/C05_R3.diff",
          [Edit("", "jellyfysh/lifting/inside_first_lifting.py", "if self._random_position <= upper_end:", "if self._random_position < upper_end:")], "R5.3"),
    Patch("refactored (accumulate idiom) + identifiers shifted", "refactorings/C05_R3.diff",
          [Edit("", "jellyfysh/lifting/ratio_lifting.py", "zip(self._associated_identifiers, upper_ends)", "zip(self._associated_identifiers[1:], upper_ends)")], "R5.3"),
    Patch("refactored (walk in base helper) + test before accumulation", "refactorings/C05_R1.diff",
          [Edit("", LIFT, "            summed_lifting_rate += lifting_rate\n            if position <= summed_lifting_rate:\n                return self._associated_identifiers[index]\n",
                "            if position <= summed_lifting_rate:\n                return self._associated_identifiers[index]\n            summed_lifting_rate += lifting_rate\n")], "R5.3"),
    Patch("refactored (shared clear helper) + flag not cleared", "refactorings/C05_R2.diff",
          [Edit("", LIFT, "        self._active_recorded: bool = False\n", "")], "R5"),
]
TWINS = [
    Edit("insert: positive sum updated after the branch", LIFT,
         "            self._sum_positive_lifting_rates += lifting_rate\n            if is_active:\n                self._active_recorded = True\n"
         "                self._random_position += random.uniform(0.0, lifting_rate)\n            elif not self._active_recorded:\n"
         "                self._random_position += lifting_rate\n",
         "            if is_active:\n                self._active_recorded = True\n"
         "                self._random_position += random.uniform(0.0, lifting_rate)\n            elif not self._active_recorded:\n"
         "                self._random_position += lifting_rate\n            self._sum_positive_lifting_rates += lifting_rate\n"),
    Edit("outside first: total into a local", "jellyfysh/lifting/outside_first_lifting.py",
         "        self._random_position = sum(self._negative_lifting_rates) - self._random_position\n",
         "        total = sum(self._negative_lifting_rates)\n        self._random_position = total - self._random_position\n"),
    Edit("ratio: total into a local", "jellyfysh/lifting/ratio_lifting.py",
         "        random_number = random.uniform(0.0, sum(self._negative_lifting_rates))\n",
         "        total = sum(self._negative_lifting_rates)\n        random_number = random.uniform(0.0, total)\n"),
    Edit("insert: flipped rate test", LIFT, "        if lifting_rate > 0.0:\n", "        if not lifting_rate <= 0.0:\n"),
]
MUTANTS += [
    Edit("inside-first: absolute tolerance in the selection test", "jellyfysh/lifting/inside_first_lifting.py",
         "            if self._random_position <= summed_lifting_rate:", "            if self._random_position <= summed_lifting_rate + 1.0e-13:", "R5.3"),
]

# seventh round (C05_H): target units filtered by the sign of their derivative before the insertion
MUTANTS.append(Edit("only target units with a negative derivative are inserted", "jellyfysh/event_handler/abstracts/event_handler_with_bounding_potential.py",
                    "                self._lifting.insert(target_composite_object_factor_derivatives[index_2],\n"
                    "                                     target_unit.identifier, False)",
                    "                if target_composite_object_factor_derivatives[index_2] < 0.0:\n"
                    "                    self._lifting.insert(target_composite_object_factor_derivatives[index_2],\n"
                    "                                         target_unit.identifier, False)", "R5.4", nth=0))
