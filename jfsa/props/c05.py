"""
C05 -- lifting schemes route probability flow so that every unit's outflow is matched.

Decided: R5.1 per-guard effect table of Lifting.insert over the finite guard domain (rate>0, is_active, active recorded);
R5.2 lock-step of the two parallel lists and completeness of reset; R5.3 sibling agreement of the three selection walks
(same cumulative walk, position in {pos, sum(neg) - pos, uniform(0, sum(neg))}, base-class guard first); R5.4 typestate
reset -> insert* -> get at the use sites, is_active true only for the active unit; R5.5 antisymmetric bookkeeping of the
derivative tables; R5.6 purity of the selection.  Not decided: the flow-balance integral itself.
"""
import ast
from typing import Any, Dict, List, Optional, Sequence, Set, Tuple

from ..core import AnalysisError, Loc, Report, Source, norm
from ..flow import Ctx, FlowWalker, State
from ..handlers import FnRef, concrete_handlers, implementations
from ..pyfront import ClassInfo, Program, body_without_docstring, param_names, self_attr
from ..selftest import Edit

ID = "C05"
LIFT = "jellyfysh/lifting/lifting.py"


class LiftRoles:
    def __init__(self, prog: Program) -> None:
        self.base = prog.class_named("Lifting")
        self.schemes = [c for c in prog.subclasses("Lifting") if prog.is_concrete(c)]
        if len(self.schemes) < 3:
            raise AnalysisError(f"expected three lifting schemes, found {[c.name for c in self.schemes]}")
        init = self.base.methods.get("__init__")
        self.lists = [self_attr(n.targets[0]) for n in ast.walk(init) if isinstance(n, ast.Assign) and self_attr(n.targets[0])
                      and isinstance(n.value, ast.List)]
        self.scalars = [self_attr(n.targets[0]) for n in ast.walk(init) if isinstance(n, ast.Assign) and self_attr(n.targets[0])
                        and isinstance(n.value, ast.Constant)]
        g = self.schemes[0].methods.get("get_active_identifier")
        self.neg = self.ids = self.pos = self.rec = None
        for n in ast.walk(g):
            if isinstance(n, ast.For) and isinstance(n.iter, ast.Call) and norm(n.iter.func) == "enumerate" and self_attr(n.iter.args[0]):
                self.neg = self_attr(n.iter.args[0])
            if isinstance(n, ast.Return) and isinstance(n.value, ast.Subscript) and self_attr(n.value.value):
                self.ids = self_attr(n.value.value)
        bg = self.base.methods.get("get_active_identifier")
        for n in ast.walk(bg):
            if isinstance(n, ast.If):
                for a in ast.walk(n.test):
                    if self_attr(a) in self.scalars:
                        self.rec = self_attr(a)
        for c in self.schemes:
            gg = c.methods.get("get_active_identifier")
            if gg is None:
                continue
            for n in ast.walk(gg):
                if isinstance(n, ast.Attribute) and self_attr(n) in self.scalars and self_attr(n) != self.rec \
                        and isinstance(n.ctx, ast.Load):
                    self.pos = self_attr(n)
        rest = [s for s in self.scalars if s not in (self.pos, self.rec)]
        self.sump = rest[0] if len(rest) == 1 else None
        if not all([self.neg, self.ids, self.pos, self.rec, self.sump]) or set(self.lists) != {self.neg, self.ids}:
            raise AnalysisError(f"lifting attributes not identified by role: neg={self.neg} ids={self.ids} pos={self.pos} "
                                f"rec={self.rec} sum={self.sump}")


def _eval_guard(test: ast.AST, env: Dict[str, bool], rate: str, active: str, rec: str) -> Optional[bool]:
    if isinstance(test, ast.UnaryOp) and isinstance(test.op, ast.Not):
        v = _eval_guard(test.operand, env, rate, active, rec)
        return None if v is None else not v
    if isinstance(test, ast.BoolOp):
        vs = [_eval_guard(v, env, rate, active, rec) for v in test.values]
        if any(v is None for v in vs):
            return None
        return all(vs) if isinstance(test.op, ast.And) else any(vs)
    if isinstance(test, ast.Name) and test.id == active:
        return env["active"]
    if self_attr(test) == rec:
        return env["recorded"]
    if isinstance(test, ast.Compare) and len(test.ops) == 1 and isinstance(test.left, ast.Name) and test.left.id == rate \
            and isinstance(test.comparators[0], ast.Constant) and test.comparators[0].value == 0:
        op = test.ops[0]
        if isinstance(op, ast.Gt):
            return env["positive"]
        if isinstance(op, ast.LtE):
            return not env["positive"]
    return None


def _effects(stmts: List[ast.stmt], env: Dict[str, bool], roles: LiftRoles, ps: List[str], out: List[Tuple], undecided: List[str]) -> None:
    rate, ident, active = ps
    for s in stmts:
        if isinstance(s, ast.Expr) and isinstance(s.value, ast.Constant):
            continue
        if isinstance(s, ast.Assert):
            continue
        if isinstance(s, ast.If):
            v = _eval_guard(s.test, env, rate, active, roles.rec)
            if v is None:
                undecided.append(norm(s.test))
                return
            _effects(s.body if v else s.orelse, env, roles, ps, out, undecided)
            continue
        if isinstance(s, ast.AugAssign) and self_attr(s.target) and isinstance(s.op, ast.Add):
            val = norm(s.value)
            if val == rate:
                val = "rate"
            elif isinstance(s.value, ast.Call) and norm(s.value.func).endswith("uniform") and len(s.value.args) == 2 \
                    and isinstance(s.value.args[0], ast.Constant) and s.value.args[0].value == 0 and norm(s.value.args[1]) == rate:
                val = "uniform(0,rate)"
            out.append(("add", self_attr(s.target), val))
            continue
        if isinstance(s, ast.Assign) and self_attr(s.targets[0]):
            v = s.value
            if isinstance(v, ast.BinOp) and isinstance(v.op, ast.Add) and self_attr(v.left) == self_attr(s.targets[0]):
                val = "rate" if norm(v.right) == rate else norm(v.right)
                out.append(("add", self_attr(s.targets[0]), val))
            else:
                out.append(("set", self_attr(s.targets[0]), norm(v)))
            continue
        if isinstance(s, ast.Expr) and isinstance(s.value, ast.Call) and isinstance(s.value.func, ast.Attribute) \
                and s.value.func.attr == "append" and self_attr(s.value.func.value):
            a = s.value.args[0]
            val = norm(a)
            if isinstance(a, ast.UnaryOp) and isinstance(a.op, ast.USub) and norm(a.operand) == rate:
                val = "-rate"
            elif val == ident:
                val = "id"
            out.append(("append", self_attr(s.value.func.value), val))
            continue
        if isinstance(s, (ast.Pass,)):
            continue
        undecided.append(norm(s))
        return


def check_insert(prog: Program, rep: Report, roles: LiftRoles) -> None:
    ins = roles.base.methods.get("insert")
    ps = param_names(ins)
    if len(ps) != 3:
        raise AnalysisError("Lifting.insert signature changed")
    R = roles
    expected = {
        (True, True): {("add", R.sump, "rate"), ("set", R.rec, "True"), ("add", R.pos, "uniform(0,rate)")},
        (True, False, False): {("add", R.sump, "rate"), ("add", R.pos, "rate")},
        (True, False, True): {("add", R.sump, "rate")},
        (False,): {("append", R.neg, "-rate"), ("append", R.ids, "id")},
    }
    for positive in (True, False):
        for active in (True, False):
            for recorded in (True, False):
                if not positive and active:
                    continue  # a non-positive rate is never the active unit's (asserted by the code; outside the property's premise)
                env = {"positive": positive, "active": active, "recorded": recorded}
                out: List[Tuple] = []
                und: List[str] = []
                _effects(body_without_docstring(ins), env, roles, ps, out, und)
                if positive and active:
                    want = expected[(True, True)]
                elif positive:
                    want = expected[(True, False, recorded)]
                else:
                    want = expected[(False,)]
                cell = f"rate{'>0' if positive else '<=0'}, {'active' if active else 'not active'}, active {'already' if recorded else 'not yet'} recorded"
                loc = Loc(LIFT, ins.lineno, "Lifting.insert")
                if und:
                    rep.ob("R5.1-insert-effects", None, loc, cell, f"construct not interpreted: {und[0]}")
                    continue
                got = set(out)
                rep.ob("R5.1-insert-effects", got == want and len(out) == len(got), loc, cell,
                       f"for {cell} insert must have the effects {sorted(want)} but has {sorted(out)}: positive rates stack on the "
                       f"interval (units before the active one fully, the active one up to a uniform point, later ones not), "
                       f"non-positive rates are recorded negated together with their identifier")
    rep.exhaustive = True


def check_lockstep(prog: Program, rep: Report, roles: LiftRoles) -> None:
    for c in [roles.base] + roles.schemes:
        for fn in c.methods.values():
            def count(stmts: List[ast.stmt]) -> List[Tuple[int, int]]:
                paths = [(0, 0)]
                for s in stmts:
                    if isinstance(s, ast.If):
                        a, b = count(s.body), count(s.orelse)
                        paths = [(p[0] + q[0], p[1] + q[1]) for p in paths for q in (a + b)]
                    elif isinstance(s, (ast.For, ast.While)):
                        inner = count(s.body)
                        if any(x != y for x, y in inner):
                            paths = [(p[0] + 1, p[1]) for p in paths]
                    else:
                        n = sum(1 for c2 in ast.walk(s) if isinstance(c2, ast.Call) and isinstance(c2.func, ast.Attribute)
                                and c2.func.attr in ("append", "insert", "extend") and self_attr(c2.func.value) == roles.neg)
                        i = sum(1 for c2 in ast.walk(s) if isinstance(c2, ast.Call) and isinstance(c2.func, ast.Attribute)
                                and c2.func.attr in ("append", "insert", "extend") and self_attr(c2.func.value) == roles.ids)
                        r = sum(1 for c2 in ast.walk(s) if isinstance(c2, ast.Call) and isinstance(c2.func, ast.Attribute)
                                and c2.func.attr in ("pop", "remove", "clear") and self_attr(c2.func.value) in (roles.neg, roles.ids))
                        paths = [(p[0] + n + 100 * r, p[1] + i) for p in paths]
                return paths
            paths = count(body_without_docstring(fn))
            touches = any(self_attr(n) in (roles.neg, roles.ids) and isinstance(getattr(n, "ctx", None), ast.Load) for n in ast.walk(fn)
                          if isinstance(n, ast.Attribute))
            if not touches:
                continue
            rep.ob("R5.2-lock-step", all(a == b for a, b in paths), Loc(c.file, fn.lineno, f"{c.name}.{fn.name}"),
                   f"{c.name}.{fn.name}: appends to the two parallel lists per path {sorted(set(paths))}",
                   "the list of negated rates and the list of identifiers must grow together on every path (index i of one "
                   "belongs to index i of the other) and are never shrunk outside reset")
    for name in ("reset", "__init__"):
        fn = roles.base.methods.get(name)
        cleared = {}
        for n in ast.walk(fn):
            if isinstance(n, ast.Assign) and self_attr(n.targets[0]):
                cleared[self_attr(n.targets[0])] = norm(n.value)
        want = {roles.neg: "[]", roles.ids: "[]", roles.rec: "False"}
        ok = all(cleared.get(k) == v for k, v in want.items()) and cleared.get(roles.pos) in ("0.0", "0") \
            and cleared.get(roles.sump) in ("0.0", "0")
        rep.ob("R5.2-reset-complete", ok, Loc(LIFT, fn.lineno, f"Lifting.{name}"), f"{name}: {cleared}",
               "reset must clear both lists, the random position, the positive sum and the active-recorded flag")


def check_selection(prog: Program, rep: Report, roles: LiftRoles) -> None:
    forms = {}
    for c in roles.schemes:
        fn = c.methods.get("get_active_identifier")
        loc = Loc(c.file, fn.lineno if fn else c.node.lineno, f"{c.name}.get_active_identifier")
        if fn is None:
            rep.ob("R5.3-selection-walk", None, loc, c.name, "not defined in the scheme class")
            continue
        body = body_without_docstring(fn)
        first = body[0] if body else None
        guard = isinstance(first, ast.Expr) and "super().get_active_identifier()" in norm(first)
        rep.ob("R5.3-guard-first", guard, loc, first if first is not None else c.name,
               "the scheme must first run the base-class guard (active unit recorded)")
        loops = [n for n in body if isinstance(n, ast.For)]
        ok = False
        posform = None
        if len(loops) == 1 and isinstance(loops[0].iter, ast.Call) and norm(loops[0].iter.func) == "enumerate" \
                and self_attr(loops[0].iter.args[0]) == roles.neg and isinstance(loops[0].target, ast.Tuple):
            idx, rate = (norm(e) for e in loops[0].target.elts)
            lb = loops[0].body
            acc = [s for s in lb if isinstance(s, ast.AugAssign) and isinstance(s.op, ast.Add) and norm(s.value) == rate]
            tests = [s for s in lb if isinstance(s, ast.If)]
            if len(acc) == 1 and len(tests) == 1 and len(lb) == 2 and lb.index(acc[0]) < lb.index(tests[0]):
                accv = norm(acc[0].target)
                t = tests[0].test
                ret = tests[0].body[0] if tests[0].body else None
                inits = [s for s in body if isinstance(s, ast.Assign) and norm(s.targets[0]) == accv and isinstance(s.value, ast.Constant)
                         and s.value.value == 0]
                if isinstance(t, ast.Compare) and isinstance(t.ops[0], ast.LtE) and norm(t.comparators[0]) == accv and inits \
                        and isinstance(ret, ast.Return) and norm(ret.value) == f"self.{roles.ids}[{idx}]" and not tests[0].orelse:
                    last = body[-1]
                    ok = isinstance(last, ast.Return) and norm(last.value) == f"self.{roles.ids}[-1]" and body.index(loops[0]) == len(body) - 2
                    pv = t.left
                    # resolve the position expression
                    def inline_locals(e: ast.AST) -> str:
                        class T(ast.NodeTransformer):
                            def visit_Name(self, node):
                                d = [s for s in body if isinstance(s, ast.Assign) and isinstance(s.targets[0], ast.Name)
                                     and s.targets[0].id == node.id]
                                if len(d) == 1 and node.id != accv and isinstance(node.ctx, ast.Load):
                                    return T().visit(ast.parse(ast.unparse(d[0].value), mode="eval").body)
                                return node
                        return norm(T().visit(ast.parse(ast.unparse(e), mode="eval").body))
                    if self_attr(pv) == roles.pos:
                        re = [s for s in body if isinstance(s, ast.Assign) and self_attr(s.targets[0]) == roles.pos]
                        posform = "pos" if not re else inline_locals(re[-1].value)
                    elif isinstance(pv, ast.Name):
                        posform = inline_locals(pv)
        rep.ob("R5.3-selection-walk", ok, loc, f"{c.name}: cumulative walk over the negated rates",
               "the selection must walk the cumulative sums of the negated rates, return the first identifier whose prefix sum "
               "reaches the position (<=) and fall back to the last one")
        if ok:
            s_neg = f"sum(self.{roles.neg})"
            allowed = {"pos": "pos", f"{s_neg} - self.{roles.pos}": "sum(neg) - pos",
                       f"random.uniform(0.0, {s_neg})": "uniform(0, sum(neg))", f"random.uniform(0, {s_neg})": "uniform(0, sum(neg))"}
            forms[c.name] = allowed.get(posform)
            rep.ob("R5.3-position-form", posform in allowed, loc, f"{c.name}: position = {posform}",
                   "the position on the stacked negative rates must be the recorded random position, its reflection "
                   "sum(neg) - position, or a fresh uniform(0, sum(neg)): any other map does not transport the flow")
    rep.extra["selection_positions"] = forms


class UseClient:
    """reset -> insert* -> get typestate on `self._lifting` at the use sites."""

    def __init__(self, prog: Program, cls: ClassInfo, rep: Report, attr: str) -> None:
        self.prog, self.cls, self.rep, self.attr = prog, cls, rep, attr
        self.seen: Set[Tuple[str, str]] = set()
        self.counts = {"reset": 0, "insert": 0, "get": 0}

    def events(self, node: ast.AST, ctx: Ctx) -> List[Any]:
        if isinstance(node, ast.Call) and isinstance(node.func, ast.Attribute) and self_attr(node.func.value) == self.attr:
            m = node.func.attr
            if m in ("reset", "insert", "get_active_identifier"):
                return [(m, node)]
        return []

    def inline(self, call: ast.Call, ctx: Ctx) -> Sequence[FnRef]:
        f = call.func
        if isinstance(f, ast.Attribute) and isinstance(f.value, ast.Name) and f.value.id == "self":
            return implementations(self.prog, self.cls, f.attr)
        return []

    def transfer(self, state: State, ev: Any, ctx: Ctx) -> State:
        m, node = ev
        s = set(state)
        file, line, qual = ctx.where()
        loc = Loc(file, line, f"{self.cls.name}: {ctx.path()}")
        key = (m, f"{qual}:{norm(node)}")
        if m == "reset":
            self.counts["reset"] += 1
            s = {"RESET"}
        elif m == "insert":
            self.counts["insert"] += 1
            if key not in self.seen:
                self.rep.ob("R5.4-reset-before-insert", "RESET" in s and "GOT" not in s, loc, node,
                            "a unit is inserted into the lifting scheme without a reset since the last selection: rates of a "
                            "previous event leak into this one")
            s.add("INSERTED")
        elif m == "get_active_identifier":
            self.counts["get"] += 1
            if key not in self.seen:
                self.rep.ob("R5.4-insert-before-get", "RESET" in s and "INSERTED" in s, loc, node,
                            "the next active unit is selected before the derivative table has been filled on every path")
            s.add("GOT")
        self.seen.add(key)
        return frozenset(s)


def check_use_sites(prog: Program, rep: Report) -> None:
    n = 0
    for h in concrete_handlers(prog):
        attrs = set()
        for c in prog.mro(h):
            for fn in c.methods.values():
                for call in ast.walk(fn):
                    if isinstance(call, ast.Call) and isinstance(call.func, ast.Attribute) and call.func.attr == "insert" \
                            and self_attr(call.func.value) and len(call.args) == 3:
                        attrs.add(self_attr(call.func.value))
        for attr in attrs:
            client = UseClient(prog, h, rep, attr)
            w = FlowWalker(client.events, client.transfer, client.inline, loop_keep=lambda f: f == "INSERTED")
            for ref in implementations(prog, h, "send_out_state"):
                w.run(ref, frozenset())
            if client.counts["insert"]:
                n += 1
                rep.ob("R5.4-protocol-complete", client.counts["reset"] >= 1 and client.counts["get"] >= 1,
                       Loc(h.file, h.node.lineno, h.name), f"{h.name}: {client.counts}",
                       "a handler that fills the lifting scheme must reset it and ask it for the next active unit")
    rep.unit("handlers_using_a_lifting_scheme", n)
    # is_active argument and identifier argument at every insert site
    for mi, ci, fn in prog.functions():
        if ci is None or not prog.is_subclass(ci, "EventHandler"):
            continue
        for call in ast.walk(fn):
            if isinstance(call, ast.Call) and isinstance(call.func, ast.Attribute) and call.func.attr == "insert" \
                    and self_attr(call.func.value) and len(call.args) == 3:
                rate, ident, active = call.args
                loc = Loc(mi.file, call.lineno, f"{ci.name}.{fn.name}")
                a = norm(active)
                ok_active = a == "False" or "_active_leaf_unit" in a
                rep.ob("R5.4-is-active-argument", ok_active, loc, call,
                       "is_active must be False or a test against the handler's active leaf unit (true for exactly that unit)")
                ok_id = norm(ident).endswith(".identifier")
                rep.ob("R5.4-identifier-argument", ok_id, loc, call, "the inserted identifier must be a unit's identifier")
                # rate and identifier belong to the same unit: rate = table[i], identifier = units[i] / loop unit of index i
                loops = [l for l in ast.walk(fn) if isinstance(l, ast.For) and any(x is call for x in ast.walk(l))]
                if loops and isinstance(loops[-1].target, ast.Tuple) and isinstance(loops[-1].iter, ast.Call) and norm(loops[-1].iter.func) == "enumerate":
                    idx, unit = (norm(e) for e in loops[-1].target.elts)
                    same = isinstance(rate, ast.Subscript) and norm(rate.slice) == idx and norm(ident) == f"{unit}.identifier"
                    rep.ob("R5.4-rate-of-same-unit", same, loc, call,
                           "the rate inserted for a unit must be the table entry with that unit's index")


def check_antisymmetry(prog: Program, rep: Report) -> None:
    for mi, ci, fn in prog.functions():
        if ci is None or not prog.is_subclass(ci, "EventHandler"):
            continue
        for loop in [n for n in ast.walk(fn) if isinstance(n, ast.For)]:
            pair = [s for s in loop.body if isinstance(s, ast.Assign) and isinstance(s.targets[0], ast.Name)
                    and isinstance(s.value, ast.Call) and norm(s.value.func) == "self._potential.derivative"]
            for p in pair:
                v = p.targets[0].id
                plus = [s for s in loop.body if isinstance(s, ast.AugAssign) and isinstance(s.op, ast.Add) and norm(s.value) == v]
                minus = [s for s in loop.body if isinstance(s, ast.AugAssign) and isinstance(s.op, ast.Sub) and norm(s.value) == v]
                other = [s for s in loop.body if isinstance(s, ast.AugAssign) and v in norm(s.value) and s not in plus and s not in minus]
                ok = len(plus) == 1 and len(minus) == 1 and not other and isinstance(minus[0].target, ast.Subscript)
                rep.ob("R5.5-antisymmetric-table", ok, Loc(mi.file, p.lineno, f"{ci.name}.{fn.name}"), p,
                       f"a pairwise derivative must be added once to the active side ({[norm(s) for s in plus]}) and subtracted once "
                       f"from the partner's table entry ({[norm(s) for s in minus]}) in the same loop body: the table the lifting "
                       f"scheme sees sums to zero only by this construction")


def check_purity(prog: Program, rep: Report, roles: LiftRoles) -> None:
    for c in roles.schemes + [roles.base]:
        fn = c.methods.get("get_active_identifier")
        if fn is None:
            continue
        body = ast.Module(body=body_without_docstring(fn), type_ignores=[])
        names = {n.id for n in ast.walk(body) if isinstance(n, ast.Name) and isinstance(n.ctx, ast.Load)}
        local = {n.id for n in ast.walk(body) if isinstance(n, ast.Name) and isinstance(n.ctx, ast.Store)}
        foreign = names - local - {"self", "random", "super", "enumerate", "sum", "len", "range", "LiftingSchemeError", "zip", "min", "max"}
        writes = [n for n in ast.walk(fn) if isinstance(n, ast.Call) and isinstance(n.func, ast.Attribute)
                  and n.func.attr in ("append", "pop", "remove", "insert", "clear") and self_attr(n.func.value)]
        rep.ob("R5.6-selection-pure", not foreign and not writes, Loc(c.file, fn.lineno, f"{c.name}.get_active_identifier"),
               f"{c.name}: reads {sorted(foreign) or 'only self and random'}",
               "the choice must depend on nothing but the recorded table and the uniform draw")


def analyse(src: Source) -> List[Report]:
    rep = Report(ID, src)
    rep.explain(
        "R5.1: Lifting.insert is evaluated on all combinations of its three guards (rate>0, is_active, active already "
        "recorded); per cell the set of effects on the five role-identified attributes must equal the stacking table (exhaustive "
        "over the finite guard domain; statement order and if-nesting are free). R5.2: both parallel lists receive the same "
        "number of appends on every path of every method and are cleared (with the three scalars) by reset. R5.3: every scheme "
        "runs the base guard first and performs the same cumulative walk (first prefix sum >= position, last index as "
        "fallback) with position in {pos, sum(neg) - pos, uniform(0, sum(neg))}. R5.4: at the use sites reset precedes all "
        "inserts and a filled table precedes the selection on every path; is_active is False or a test against the active "
        "leaf unit; rate and identifier of an insert belong to the same unit. R5.5: every pairwise derivative is added once to "
        "the active side and subtracted once from the partner's entry in the same loop body. R5.6: selection reads only the "
        "scheme's own fields and random. Not decided: the balance identity (an integral over the uniform variable).")
    rep.assume("loops over leaf units run at least once (for the 'table filled before selection' fact only)")
    prog = Program(src)
    roles = LiftRoles(prog)
    rep.unit("lifting_schemes", len(roles.schemes))
    check_insert(prog, rep, roles)
    check_lockstep(prog, rep, roles)
    check_selection(prog, rep, roles)
    check_use_sites(prog, rep)
    check_antisymmetry(prog, rep)
    check_purity(prog, rep, roles)
    rep.expect_min("R5.1-insert-effects", 6)
    rep.expect_min("R5.2-lock-step", 4)
    rep.expect_min("R5.3-selection-walk", 3)
    rep.expect_min("R5.4-reset-before-insert", 3)
    rep.expect_min("R5.4-insert-before-get", 3)
    rep.expect_min("R5.5-antisymmetric-table", 4)
    return [rep]


EB = "jellyfysh/event_handler/abstracts/event_handler_with_bounding_potential.py"
MUTANTS = [
    Edit("insert: later positive rates always stacked", LIFT, "            elif not self._active_recorded:\n", "            else:\n", "R5.1"),
    Edit("insert: units before the active one not stacked", LIFT,
         "            elif not self._active_recorded:\n                self._random_position += lifting_rate\n", "", "R5.1"),
    Edit("insert: negative rate stored with its sign", LIFT, "self._negative_lifting_rates.append(-lifting_rate)",
         "self._negative_lifting_rates.append(lifting_rate)", "R5.1"),
    Edit("insert: identifier not recorded", LIFT, "            self._associated_identifiers.append(associated_identifier)\n", "", "R5"),
    Edit("insert: active unit stacked fully", LIFT, "self._random_position += random.uniform(0.0, lifting_rate)",
         "self._random_position += lifting_rate", "R5.1"),
    Edit("reset keeps the flag", LIFT,
         r"(    def reset\(self\) -> None:(?:.*?\n)*?        self\._sum_positive_lifting_rates = 0\.0\n)        self\._active_recorded = False\n",
         r"\1", "R5.2", regex=True),
    Edit("inside first: strict comparison skipped... position halved", "jellyfysh/lifting/inside_first_lifting.py",
         "            if self._random_position <= summed_lifting_rate:", "            if 0.5 * self._random_position <= summed_lifting_rate:", "R5.3"),
    Edit("ratio: uniform over the positive sum", "jellyfysh/lifting/ratio_lifting.py",
         "random.uniform(0.0, sum(self._negative_lifting_rates))", "random.uniform(0.0, self._sum_positive_lifting_rates)", "R5.3"),
    Edit("outside first: returns the first identifier as fallback", "jellyfysh/lifting/outside_first_lifting.py",
         "        return self._associated_identifiers[-1]", "        return self._associated_identifiers[0]", "R5.3"),
    Edit("fill lifting: target table with the wrong sign", EB,
         "                target_composite_object_factor_derivatives[index_2] -= pairwise_derivative",
         "                target_composite_object_factor_derivatives[index_2] += pairwise_derivative", "R5.5"),
    Edit("fill lifting: no reset", EB, "        self._lifting.reset()\n", "", "R5.4"),
    Edit("fill lifting: every local unit inserted as active", EB,
         "local_unit.identifier, local_unit is self._active_leaf_unit)", "local_unit.identifier, True)", "R5.4", nth=0),
    Edit("fixed separations: rate of the active unit for everyone", "jellyfysh/event_handler/fixed_separations_event_handler_with_piecewise_constant_bounding_potential.py",
         "self._lifting.insert(potential_derivatives[index], leaf_unit.identifier,", "self._lifting.insert(active_unit_derivative, leaf_unit.identifier,", "R5.4"),
]
TWINS = [
    Edit("insert: positive sum updated after the branch", LIFT,
         "            self._sum_positive_lifting_rates += lifting_rate\n            if is_active:\n                self._active_recorded = True\n"
         "                self._random_position += random.uniform(0.0, lifting_rate)\n            elif not self._active_recorded:\n"
         "                self._random_position += lifting_rate\n",
         "            if is_active:\n                self._active_recorded = True\n"
         "                self._random_position += random.uniform(0.0, lifting_rate)\n            elif not self._active_recorded:\n"
         "                self._random_position += lifting_rate\n            self._sum_positive_lifting_rates += lifting_rate\n"),
    Edit("outside first: total into a local", "jellyfysh/lifting/outside_first_lifting.py",
         "        self._random_position = sum(self._negative_lifting_rates) - self._random_position\n",
         "        total = sum(self._negative_lifting_rates)\n        self._random_position = total - self._random_position\n"),
    Edit("ratio: total into a local", "jellyfysh/lifting/ratio_lifting.py",
         "        random_number = random.uniform(0.0, sum(self._negative_lifting_rates))\n",
         "        total = sum(self._negative_lifting_rates)\n        random_number = random.uniform(0.0, total)\n"),
    Edit("insert: flipped rate test", LIFT, "        if lifting_rate > 0.0:\n", "        if not lifting_rate <= 0.0:\n"),
]
