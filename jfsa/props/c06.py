"""
C06 -- scheduler always yields a live event with the smallest candidate time.

Decided: R6.1 comparison truth tables of the C heap (insert loop, two child tests of bubble_down) and of Time.__lt__ over
the nine orderings; R6.2 memory safety of heap.c for every history (zone-domain abstract interpretation under the heap's
data-structure invariant); R6.3 lazy-deletion protocol between heap_scheduler.py and heap.c; R6.4 counter-overflow branch;
R6.5 empty scheduler raises; R6.6 pickling tables; R6.7 cdef / header / definition agreement; R6.8 list scheduler shape.
Not decided: that the sift loops maintain heap order (min correctness), agreement of the schedulers on concrete histories.
"""
import ast
import re
from typing import Dict, List, Optional, Tuple

from ..cfront import CNode, CUnit, expand_calls, inline_statement_calls, strip, text
from ..core import AnalysisError, Loc, Report, Source, norm
from ..heapzone import analyse_heap
from ..orderings import CELLS, cmp_holds, lex_expected
from ..guards import atoms, path_conditions
from ..normalize import canon, flat
from ..resolve import Resolver
from ..pyfront import Program, body_without_docstring, const_value, param_names, self_attr
from ..selftest import Edit, Patch
from .c14 import time_comparison_table
from ..orderings import NotInFragment

ID = "C06"
HEAP_C = "jellyfysh/scheduler/heap_scheduler/heap.c"
HEAP_H = "jellyfysh/scheduler/heap_scheduler/heap.h"
HEAP_BUILD = "jellyfysh/scheduler/heap_scheduler/heap_build.py"
HEAP_PY = "jellyfysh/scheduler/heap_scheduler/heap_scheduler.py"
LIST_PY = "jellyfysh/scheduler/list_scheduler.py"
TIME_FILE = "jellyfysh/base/time.py"


# ---------------------------------------------------------------------------------------------------------------------
# R6.1
# ---------------------------------------------------------------------------------------------------------------------
def _leaf(n: CNode, qname: str, rname: str, insert_params: Tuple[str, str]) -> Optional[Tuple[str, str]]:
    """(kind q|r, base) of a comparison operand."""
    n = strip(n)
    if n.kind == "MemberExpr" and n.props.get("name") in (qname, rname):
        return ("q" if n.props["name"] == qname else "r"), text(n.children[0])
    if n.kind == "DeclRefExpr" and n.props.get("ref") in insert_params:
        return ("q" if n.props["ref"] == insert_params[0] else "r"), "<new entry>"
    return None


def c_compare_table(cond: CNode, qname: str, rname: str, insert_params: Tuple[str, str]):
    """Evaluate a C boolean expression over (q, r) comparisons on the nine cells. Returns (table, side1, side2)."""
    sides: List[str] = []

    def ev(n: CNode, cell) -> bool:
        n = strip(n)
        if n.kind == "BinaryOperator":
            op = n.props.get("opcode")
            if op == "&&":
                return ev(n.children[0], cell) and ev(n.children[1], cell)
            if op == "||":
                return ev(n.children[0], cell) or ev(n.children[1], cell)
            if op in ("<", "<=", ">", ">=", "==", "!="):
                a = _leaf(n.children[0], qname, rname, insert_params)
                b = _leaf(n.children[1], qname, rname, insert_params)
                if a is None or b is None or a[0] != b[0]:
                    raise NotInFragment(f"comparison {text(n)}")
                for s in (a[1], b[1]):
                    if s not in sides:
                        sides.append(s)
                if len(sides) > 2 or a[1] == b[1]:
                    raise NotInFragment(f"more than two entries compared in {text(n)}")
                order = cell[0] if a[0] == "q" else cell[1]
                if a[1] == sides[1]:
                    order = {"<": ">", "=": "=", ">": "<"}[order]
                return cmp_holds(order, op)
        if n.kind == "UnaryOperator" and n.props.get("opcode") == "!":
            return not ev(n.children[0], cell)
        if n.kind == "IntegerLiteral":
            return int(n.props.get("value", "0")) != 0
        raise NotInFragment(f"expression {text(n)}")

    table = {cell: ev(cond, cell) for cell in CELLS}
    return table, sides


def _split_guard(cond: CNode) -> Tuple[Optional[CNode], CNode]:
    """`guard && (time comparison)` -> (guard, comparison)"""
    c = strip(cond)
    if c.kind == "BinaryOperator" and c.props.get("opcode") == "&&":
        left = strip(c.children[0])
        mentions_time = any(x.kind == "MemberExpr" and "time" in (x.props.get("name") or "") for x in left.walk())
        if not mentions_time:
            return left, c.children[1]
    return None, c


def _for_condition(n: CNode) -> Optional[CNode]:
    """condition of a C for statement in clang's JSON: children are [init, condvar, cond, inc, body] with empty slots dropped or {}"""
    kids = n.children
    if len(kids) >= 3:
        cands = [c for c in kids[:-1] if strip(c).kind in ("BinaryOperator", "CallExpr", "UnaryOperator", "ParenExpr", "ImplicitCastExpr")
                 and not (strip(c).kind == "BinaryOperator" and strip(c).props.get("opcode") in ("=", ",", "+=", "-="))
                 and not (strip(c).kind == "UnaryOperator" and strip(c).props.get("opcode") in ("++", "--"))]
        return cands[0] if cands else None
    return None


def check_c_comparisons(unit: CUnit, rep: Report) -> None:
    fields = unit.fields("HeapEntry")
    doubles = [f.split()[-1] for f in fields if f.startswith("double")]
    if len(doubles) != 2:
        raise AnalysisError(f"struct HeapEntry: expected two double fields (quotient, remainder), found {fields}")
    qname, rname = doubles
    ip = unit.params("insert")
    insert_params = (ip[1], ip[2])
    sites: List[Tuple[str, CNode, str]] = []
    ins_loops = [n for n in unit.body("insert").walk() if n.kind in ("WhileStmt", "ForStmt")]
    for lp in ins_loops:
        cond_node = lp.children[0] if lp.kind == "WhileStmt" else _for_condition(lp)
        if cond_node is None:
            continue
        sites.append(("insert", expand_calls(unit, cond_node), "bubble-up loop: continue while the new entry is smaller than its parent"))
    for n in unit.body("bubble_down").walk():
        if n.kind == "IfStmt":
            g, c = _split_guard(expand_calls(unit, n.children[0]))
            then_ = n.children[1] if len(n.children) > 1 else None
            stops = then_ is not None and any(x.kind in ("BreakStmt", "ReturnStmt") for x in then_.walk()) \
                and not any(x.kind == "BinaryOperator" and x.props.get("opcode") == "=" for x in then_.walk())
            sites.append(("bubble_down", c, "stop test: stop sifting unless a child is strictly smaller than the moving entry" if stops else
                          "child test: prefer the child if it is smaller than the current candidate"))
    for fname, cond, what in sites:
        loc = Loc(HEAP_C, cond.line, fname)
        try:
            table, sides = c_compare_table(cond, qname, rname, insert_params)
        except NotInFragment as e:
            for cell in CELLS:
                rep.ob("R6.1-c-order", None, loc, f"{fname}:{cond.line} @ q{cell[0]} r{cell[1]}", f"not in fragment: {e}")
            continue
        if what.startswith("stop test"):
            # `if (!(child < moving)) break;` / `if (moving <= child) break;`: the exact complement of the strict order (ties stop)
            flip = {"<": ">", "=": "=", ">": "<"}
            comp_a = all(table[cell] == (not lex_expected(cell, "<")) for cell in CELLS)
            comp_b = all(table[cell] == (not lex_expected((flip[cell[0]], flip[cell[1]]), "<")) for cell in CELLS)
            for cell in CELLS:
                rep.ob("R6.1-c-order", True if (comp_a or comp_b) else None, loc,
                       f"{fname}: stop unless ({sides[0]}) < ({sides[1]}) @ quotient{cell[0]} remainder{cell[1]}",
                       f"{what}: role of the comparison not recognised")
            continue
        for cell in CELLS:
            want = lex_expected(cell, "<")
            rep.ob("R6.1-c-order", table[cell] == want, loc,
                   f"{fname}: ({sides[0]}) < ({sides[1]}) @ quotient{cell[0]} remainder{cell[1]}",
                   f"{what}: the C condition yields {table[cell]} where strict lexicographic (quotient, remainder) order "
                   f"gives {want}")
    rep.expect_min("R6.1-c-order", 18)


# ---------------------------------------------------------------------------------------------------------------------
# R6.7 cdef / header / definition
# ---------------------------------------------------------------------------------------------------------------------
def check_cdef(src: Source, unit: CUnit, rep: Report) -> None:
    tree = src.parse(HEAP_BUILD)
    cdefs = [n.args[0].value for n in ast.walk(tree) if isinstance(n, ast.Call) and isinstance(n.func, ast.Attribute)
             and n.func.attr == "cdef" and n.args and isinstance(n.args[0], ast.Constant)]
    if len(cdefs) != 1:
        raise AnalysisError("heap_build.py: cdef string not found")
    cdef = cdefs[0]
    externs = re.findall(r'extern\s+"Python"\s+([^;]+);', cdef)
    plain = re.sub(r'extern\s+"Python"[^;]+;', "", cdef)
    overlay = dict(src.overlay)
    rel = "jellyfysh/scheduler/heap_scheduler/_cdef_view.c"
    overlay[rel] = "#include <stddef.h>\n" + plain
    s2 = Source(src.root, overlay)
    try:
        cu = CUnit(s2, rel)
    finally:
        s2.close()
    hu_overlay = dict(src.overlay)
    hrel = "jellyfysh/scheduler/heap_scheduler/_header_view.c"
    hu_overlay[hrel] = src.read(HEAP_H)
    s3 = Source(src.root, hu_overlay)
    try:
        hu = CUnit(s3, hrel)
    finally:
        s3.close()
    loc = Loc(HEAP_BUILD, 1, "cdef")
    for name in sorted(set(cu.prototypes) | set(hu.prototypes)):
        a, b, c = cu.signature(name), hu.signature(name), unit.signature(name)
        rep.ob("R6.7-signature-agreement", a == b == c and bool(a), loc, f"{name}: cdef `{a}` / header `{b}` / definition `{c}`",
               f"the signature of `{name}` differs between the cffi cdef, heap.h and heap.c: cffi would marshal the "
               f"arguments differently from what the C code reads")
    for rec in ("HeapEntry",):
        a, b, c = cu.fields(rec), hu.fields(rec), unit.fields(rec)
        rep.ob("R6.7-struct-agreement", a == b == c and bool(a), loc, f"struct {rec}: {a}",
               f"the field list of struct {rec} differs between cdef {a}, heap.h {b} and heap.c {c}")
    # callback signature vs the function pointer parameter of root
    root_sig = unit.signature("root")
    m = re.search(r"(\w[\w\s\*]*?)\s*\(\*\)\s*\(([^)]*)\)", root_sig)
    ok = False
    detail = ""
    if m and externs:
        want_ret, want_args = m.group(1).strip(), [a.strip() for a in m.group(2).split(",")]
        em = re.match(r"\s*([\w\s\*]+?)\s*(\w+)\s*\(([^)]*)\)", externs[0])
        if em:
            got_ret = em.group(1).strip()
            got_args = [re.sub(r"\s*\w+$", "", a.strip()).strip() if not a.strip().endswith("*") else a.strip()
                        for a in em.group(3).split(",")]
            got_args = [re.sub(r"\s+\*", " *", a) for a in got_args]
            ok = got_ret == want_ret and [a.replace(" ", "") for a in got_args] == [a.replace(" ", "") for a in want_args]
            detail = f"extern \"Python\" {got_ret} ({got_args}) vs root's parameter {want_ret} ({want_args})"
    rep.ob("R6.7-callback-signature", ok, loc, detail or "extern Python callback",
           "the Python callback's C signature must equal the function pointer type expected by root")


# ---------------------------------------------------------------------------------------------------------------------
# R6.3 - R6.6, R6.8 python side
# ---------------------------------------------------------------------------------------------------------------------
def _aliases(tree: ast.Module) -> Dict[str, str]:
    """module-level  _lib_insert = lib.insert  ->  {'_lib_insert': 'insert'}"""
    out = {}
    for n in tree.body:
        if isinstance(n, ast.Assign) and isinstance(n.targets[0], ast.Name) and isinstance(n.value, ast.Attribute) \
                and isinstance(n.value.value, ast.Name) and n.value.value.id in ("lib", "ffi"):
            out[n.targets[0].id] = n.value.attr
    return out


def _lib_calls(fn: ast.AST, aliases: Dict[str, str], name: str) -> List[ast.Call]:
    out = []
    for n in ast.walk(fn):
        if isinstance(n, ast.Call):
            f = n.func
            if isinstance(f, ast.Name) and aliases.get(f.id) == name:
                out.append(n)
            elif isinstance(f, ast.Attribute) and isinstance(f.value, ast.Name) and f.value.id in ("lib", "ffi") and f.attr == name:
                out.append(n)
    return out


def _prog(src: Source) -> Program:
    pr = src.__dict__.get("_jfsa_program")
    if pr is None:
        pr = Program(src)
        src.__dict__["_jfsa_program"] = pr
    return pr


def _tri(test: ast.AST, atom) -> Optional[bool]:
    """three-valued evaluation of a boolean expression; atom(e) -> True / False / None for comparisons and names"""
    if isinstance(test, ast.UnaryOp) and isinstance(test.op, ast.Not):
        v = _tri(test.operand, atom)
        return None if v is None else not v
    if isinstance(test, ast.BoolOp):
        vs = [_tri(v, atom) for v in test.values]
        if isinstance(test.op, ast.And):
            return False if any(v is False for v in vs) else (None if any(v is None for v in vs) else True)
        return True if any(v is True for v in vs) else (None if any(v is None for v in vs) else False)
    if isinstance(test, ast.Constant):
        return bool(test.value)
    return atom(test)


def _reaches(stmts: List[ast.stmt], atom, want) -> Optional[bool]:
    """
    Follow the statements under the three-valued valuation `atom`.  Returns True if the first leaving statement reached on every
    path satisfies `want`, False if some path leaves otherwise (or falls through), None if nothing is reached (falls through).
    """
    for st in stmts:
        if isinstance(st, (ast.Raise, ast.Return)):
            return bool(want(st))
        if isinstance(st, ast.If):
            v = _tri(st.test, atom)
            branches = [st.body] if v is True else ([st.orelse] if v is False else [st.body, st.orelse])
            res = [_reaches(b, atom, want) for b in branches]
            if any(r is False for r in res):
                return False
            if all(r is True for r in res):
                return True
            if any(r is True for r in res):
                # one branch leaves as wanted, the other falls through: continue with the rest for that one
                continue
    return None


def _removed_keys(fn: ast.AST, var: Optional[str] = None, consts=None) -> set:
    """constant keys removed from a dict copy: `del d[k]`, `d.pop(k)`, comprehension filters `key not in (..)` / `key != k`"""
    out = set()
    for n in ast.walk(fn):
        if isinstance(n, ast.Subscript) and isinstance(n.ctx, ast.Del) and isinstance(n.slice, ast.Constant):
            out.add(n.slice.value)
        if isinstance(n, ast.Call) and isinstance(n.func, ast.Attribute) and n.func.attr == "pop" and n.args and isinstance(n.args[0], ast.Constant) \
                and isinstance(n.args[0].value, str):
            out.add(n.args[0].value)
        if isinstance(n, (ast.DictComp,)):
            for g in n.generators:
                for c in g.ifs:
                    for cmp_ in ast.walk(c):
                        if isinstance(cmp_, ast.Compare) and len(cmp_.ops) == 1:
                            r = cmp_.comparators[0]
                            if isinstance(cmp_.ops[0], ast.NotIn) and not isinstance(r, (ast.Tuple, ast.List, ast.Set)) and consts is not None:
                                v_ = consts(r)   # a class-level / module-level constant tuple of keys
                                if isinstance(v_, (tuple, list, set, frozenset)):
                                    out |= {x for x in v_ if isinstance(x, str)}
                            if isinstance(cmp_.ops[0], ast.NotIn) and isinstance(r, (ast.Tuple, ast.List, ast.Set)):
                                out |= {e.value for e in r.elts if isinstance(e, ast.Constant)}
                            if isinstance(cmp_.ops[0], ast.NotEq) and isinstance(r, ast.Constant):
                                out.add(r.value)
    return out


def _simulate_dump(gs: ast.FunctionDef, aliases: Dict[str, str], append: ast.Call, n_entries: int) -> Optional[bool]:
    """
    Abstract run of __getstate__ on a model heap whose entry(j) has a handler for j < n_entries and the NULL handler otherwise:
    True iff the appended entries are entry(0), .., entry(n_entries - 1) in this order, each once, and the routine gets past its
    loop; None if a statement that touches the tracked values is outside the interpreted fragment.  Tracked values: small integers,
    entries, the length of the list that is appended to.
    """
    lst = norm(append.func.value)
    env: Dict[str, object] = {}
    out: List[int] = []

    class Stop(Exception):
        pass

    class Unknown(Exception):
        pass

    def is_entry_call(e: ast.AST) -> bool:
        return isinstance(e, ast.Call) and aliases.get(norm(e.func), norm(e.func)) in ("entry", "lib.entry") and len(e.args) == 2

    def ev(e: ast.AST):
        if isinstance(e, ast.Constant) and isinstance(e.value, (int, bool)):
            return e.value
        if isinstance(e, ast.Name):
            if e.id in env:
                return env[e.id]
            raise Unknown(e.id)
        if is_entry_call(e):
            j = ev(e.args[1])
            if not isinstance(j, int):
                raise Unknown(norm(e))
            return ("entry", j)
        if isinstance(e, ast.Call) and norm(e.func) == "len" and len(e.args) == 1 and norm(e.args[0]) == lst:
            return len(out)
        if isinstance(e, ast.Attribute) and e.attr == "event_handler":
            v = ev(e.value)
            if isinstance(v, tuple) and v[0] == "entry":
                return "NULL" if v[1] >= n_entries or v[1] < 0 else ("handler", v[1])
            raise Unknown(norm(e))
        if norm(e) == "ffi.NULL":
            return "NULL"
        if isinstance(e, ast.BinOp) and isinstance(e.op, (ast.Add, ast.Sub)):
            l, r = ev(e.left), ev(e.right)
            if isinstance(l, int) and isinstance(r, int):
                return l + r if isinstance(e.op, ast.Add) else l - r
            raise Unknown(norm(e))
        if isinstance(e, ast.Compare) and len(e.ops) == 1:
            l, r = ev(e.left), ev(e.comparators[0])
            op = e.ops[0]
            if isinstance(op, (ast.Eq, ast.Is)):
                return l == r
            if isinstance(op, (ast.NotEq, ast.IsNot)):
                return l != r
            if isinstance(l, int) and isinstance(r, int):
                return {ast.Lt: l < r, ast.LtE: l <= r, ast.Gt: l > r, ast.GtE: l >= r}.get(type(op))
            raise Unknown(norm(e))
        if isinstance(e, ast.UnaryOp) and isinstance(e.op, ast.Not):
            return not ev(e.operand)
        if isinstance(e, ast.BoolOp):
            vals = [ev(v) for v in e.values]
            return all(vals) if isinstance(e.op, ast.And) else any(vals)
        raise Unknown(norm(e))

    def touches(st: ast.AST) -> bool:
        return any((isinstance(x, ast.Name) and x.id in env) or is_entry_call(x) or x is append for x in ast.walk(st))
    fuel = [200]

    def run(stmts: List[ast.stmt]) -> str:
        for st in stmts:
            fuel[0] -= 1
            if fuel[0] < 0:
                raise Stop()
            if isinstance(st, ast.Assign) and len(st.targets) == 1 and isinstance(st.targets[0], ast.Name):
                try:
                    env[st.targets[0].id] = ev(st.value)
                except Unknown:
                    env.pop(st.targets[0].id, None)
                    if is_entry_call(st.value) or any(is_entry_call(x) for x in ast.walk(st.value)):
                        raise
            elif isinstance(st, ast.AugAssign) and isinstance(st.target, ast.Name) and st.target.id in env:
                v = ev(st.value)
                cur = env[st.target.id]
                if isinstance(cur, int) and isinstance(v, int) and isinstance(st.op, (ast.Add, ast.Sub)):
                    env[st.target.id] = cur + v if isinstance(st.op, ast.Add) else cur - v
                else:
                    raise Unknown(norm(st))
            elif isinstance(st, ast.Expr) and any(x is append for x in ast.walk(st)):
                ents = set()
                for x in ast.walk(append):
                    if isinstance(x, ast.Name) and isinstance(env.get(x.id), tuple) and env[x.id][0] == "entry":
                        ents.add(env[x.id][1])
                    elif is_entry_call(x):
                        ents.add(ev(x)[1])
                if len(ents) != 1:
                    raise Unknown("appended value")
                out.append(ents.pop())
            elif isinstance(st, ast.If):
                if touches(st.test) or touches(st):
                    r = run(st.body if ev(st.test) else st.orelse)
                    if r != "next":
                        return r
            elif isinstance(st, ast.While):
                while ev(st.test) if not (isinstance(st.test, ast.Constant) and st.test.value is True) else True:
                    fuel[0] -= 1
                    if fuel[0] < 0:
                        raise Stop()
                    r = run(st.body)
                    if r == "break":
                        break
                    if r == "return":
                        return r
            elif isinstance(st, ast.For) and isinstance(st.target, ast.Name) and isinstance(st.iter, ast.Call) \
                    and norm(st.iter.func) in ("count", "itertools.count", "range"):
                a = [ev(x) for x in st.iter.args]
                if norm(st.iter.func) == "range":
                    seq = iter(range(*a)) if all(isinstance(x, int) for x in a) else None
                else:
                    import itertools
                    seq = itertools.count(*a) if all(isinstance(x, int) for x in a) else None
                if seq is None:
                    raise Unknown(norm(st.iter))
                for v in seq:
                    fuel[0] -= 1
                    if fuel[0] < 0:
                        raise Stop()
                    env[st.target.id] = v
                    r = run(st.body)
                    if r == "break":
                        break
                    if r == "return":
                        return r
            elif isinstance(st, ast.Break):
                return "break"
            elif isinstance(st, ast.Continue):
                return "continue"
            elif isinstance(st, ast.Return):
                return "return"
            elif touches(st) and not isinstance(st, (ast.Expr, ast.Delete)) and not (isinstance(st, ast.Assign)):
                raise Unknown(norm(st))
        return "next"
    try:
        run(gs.body)
    except Unknown:
        return None
    except Stop:
        return False
    return out == list(range(n_entries))


def check_heap_scheduler(src: Source, rep: Report, unit: CUnit) -> None:
    tree = src.parse(HEAP_PY)
    aliases = _aliases(tree)
    prog = _prog(src)
    hs = [c for c in prog.classes_in(HEAP_PY) if "push_event" in c.methods]
    if len(hs) != 1:
        raise AnalysisError("HeapScheduler class not found")
    ci = hs[0]
    cls = ci.node
    # rules read the canonical form of each method: private helpers inlined, single-assignment locals propagated, guard clauses
    # and negated tests normalised -- the protocol is a property of what the method does, not of how it is laid out
    M = {name: canon(prog, ci, m) for name, m in ci.methods.items()}
    push, trash, get = M.get("push_event"), M.get("trash_event"), M.get("get_succeeding_event")
    if not (push and trash and get):
        raise AnalysisError("HeapScheduler: push_event / trash_event / get_succeeding_event not found")
    # counter table: the self attribute incremented in trash_event
    ctr = None
    hparam = param_names(trash)[0]
    # every write of counter[handler] in trash_event is an increment by one of the old value (a missing entry counts as 0):
    # `c[h] += 1`, `c[h] = c.get(h, 0) + 1`, `c[h] = c[h] + 1`, and `c[h] = 1` only where the entry is known to be missing
    # (except KeyError / `h not in c`)
    writes = []
    for n in ast.walk(trash):
        t = n.targets[0] if isinstance(n, ast.Assign) and len(n.targets) == 1 else n.target if isinstance(n, ast.AugAssign) else None
        if isinstance(t, ast.Subscript) and self_attr(t.value):
            writes.append((n, t))
            ctr = self_attr(t.value)
    handlers_ke = [h for tr in ast.walk(trash) if isinstance(tr, ast.Try) for h in tr.handlers if "KeyError" in norm(h.type or ast.Constant(value=""))]
    kinds = []
    for n, t in writes:
        if norm(t.slice) != hparam or self_attr(t.value) != ctr:
            kinds.append("other")
        elif isinstance(n, ast.AugAssign):
            kinds.append("inc" if isinstance(n.op, ast.Add) and isinstance(n.value, ast.Constant) and n.value.value == 1 else "other")
        else:
            v = n.value
            one = lambda x: isinstance(x, ast.Constant) and x.value == 1 and not isinstance(x.value, bool)   # noqa: E731
            if isinstance(v, ast.BinOp) and isinstance(v.op, ast.Add) and ((one(v.right) and ctr in norm(v.left) and hparam in norm(v.left))
                                                                           or (one(v.left) and ctr in norm(v.right) and hparam in norm(v.right))):
                kinds.append("inc")
            elif one(v):
                in_ke = any(any(x is n for x in ast.walk(st)) for h in handlers_ke for st in h.body)
                conds = path_conditions(body_without_docstring(trash), n) or []
                kinds.append("first" if in_ke or f"{hparam} not in self.{ctr}" in conds else "other")
            else:
                kinds.append("other")
    inc_ok = "inc" in kinds and "other" not in kinds
    loc = Loc(HEAP_PY, trash.lineno, f"{cls.name}.trash_event")
    rep.ob("R6.3-trash-increments-counter", bool(ctr) and inc_ok, loc, "trash_event: counter[handler] += 1",
           "trashing must increase the minimal valid counter of exactly the trashed handler by one")
    if not ctr:
        return
    # push: insert(heap, time.quotient, time.remainder, handle[handler], counter[handler])
    tparam, hparam = param_names(push)[0], param_names(push)[1]
    inserts = _lib_calls(push, aliases, "insert")
    rep.ob("R6.3-push-inserts", len(inserts) >= 1, Loc(HEAP_PY, push.lineno, f"{cls.name}.push_event"), "push_event calls insert",
           "push_event does not insert into the C heap")
    handlers_try = [n for n in ast.walk(push) if isinstance(n, ast.Try)]
    RPH = Resolver(push)

    def is_handle_of(e: ast.AST, h: str, R: Optional[Resolver] = None) -> bool:
        """the cffi handle kept for handler h: <table>[h], or a local whose every definition is <table>[h] or new_handle(h)"""
        if isinstance(e, ast.Subscript) and self_attr(e.value) and norm(e.slice) == h:
            return True
        if isinstance(e, ast.Name):
            defs = [v for _, v in (R or RPH).all_defs.get(e.id, [])]
            return bool(defs) and all((isinstance(v, ast.Subscript) and self_attr(v.value) and norm(v.slice) == h) or
                                      (isinstance(v, ast.Call) and aliases.get(norm(v.func), norm(v.func)).endswith("new_handle")
                                       and len(v.args) == 1 and norm(v.args[0]) == h) for v in defs)
        return False
    for call in inserts:
        in_except = any(any(x is call for h in t.handlers for x in ast.walk(h)) for t in handlers_try)
        loc = Loc(HEAP_PY, call.lineno, f"{cls.name}.push_event")
        a = call.args
        ok_time = len(a) >= 5 and norm(a[1]) == f"{tparam}.quotient" and norm(a[2]) == f"{tparam}.remainder"
        rep.ob("R6.3-insert-time", ok_time, loc, call, "the pushed time must be passed as (quotient, remainder) of the event time")
        ok_handle = len(a) >= 5 and is_handle_of(a[3], hparam)
        rep.ob("R6.3-insert-handle", ok_handle, loc, call, "the heap entry must carry the handle of the pushed event handler")
        if len(a) >= 5:
            c5 = a[4]
            if in_except:
                ok = isinstance(c5, ast.Constant) and c5.value == 0
                rep.ob("R6.4-reinsert-with-zero", ok, loc, call, "after the counter reset the event must be inserted with counter 0")
            else:
                ok = ctr in norm(c5) and hparam in norm(c5) and ("setdefault" in norm(c5) or isinstance(c5, ast.Subscript)
                                                                 or ".get(" in norm(c5))
                if "setdefault" in norm(c5) or ".get(" in norm(c5):
                    d = c5.args[1] if isinstance(c5, ast.Call) and len(c5.args) > 1 else None
                    ok = ok and isinstance(d, ast.Constant) and d.value == 0
                rep.ob("R6.3-insert-current-counter", ok, loc, call,
                       "an event must be stored with the current minimal valid counter of its handler (so that exactly the "
                       "later trash_event calls invalidate it)")
    # finite-time filter: an insert is executed exactly when the time is smaller than infinity -- evaluated for both values of
    # the atom `time < inf`: with it true the first insert must be reached unconditionally, with it false no insert is reached
    def finite_atom(value: bool):
        def atom(e: ast.AST) -> Optional[bool]:
            if isinstance(e, ast.Compare) and len(e.ops) == 1:
                l, r, op = norm(e.left), norm(e.comparators[0]), e.ops[0]
                if (l, r) == (tparam, "inf") and isinstance(op, ast.Lt) or (l, r) == ("inf", tparam) and isinstance(op, ast.Gt):
                    return value
                if (l, r) == (tparam, "inf") and isinstance(op, ast.GtE) or (l, r) == ("inf", tparam) and isinstance(op, ast.LtE):
                    return not value
                if (l, r) in ((tparam, "inf"), ("inf", tparam)) and isinstance(op, (ast.Eq, ast.Is)):
                    return not value
                if (l, r) in ((tparam, "inf"), ("inf", tparam)) and isinstance(op, (ast.NotEq, ast.IsNot)):
                    return value
            return None
        return atom

    def insert_reached(stmts: List[ast.stmt], atom) -> Optional[bool]:
        """True: an insert is certainly executed; False: certainly none; None: depends on something else"""
        for st in stmts:
            if isinstance(st, ast.If):
                v = _tri(st.test, atom)
                if v is None:
                    if _lib_calls(st, aliases, "insert"):
                        return None
                    continue
                r = insert_reached(st.body if v else st.orelse, atom)
                if r is not None:
                    return r
                if any(isinstance(x, (ast.Return, ast.Raise)) for x in (st.body if v else st.orelse)[-1:]):
                    return False
                continue
            if isinstance(st, (ast.Return, ast.Raise)):
                return False
            if _lib_calls(st, aliases, "insert"):
                return True
        return False
    pb = body_without_docstring(push)
    fin, inf_ = insert_reached(pb, finite_atom(True)), insert_reached(pb, finite_atom(False))
    guards = [n for n in ast.walk(push) if isinstance(n, ast.If) and tparam in norm(n.test) and "inf" in norm(n.test)]
    rep.ob("R6.3-infinite-not-stored", fin is True and inf_ is False, Loc(HEAP_PY, push.lineno, f"{cls.name}.push_event"),
           guards[0].test if guards else "push_event",
           f"infinite candidate times must not enter the heap (and only those): with a finite time an insert is "
           f"{'reached' if fin else 'not certainly reached'}, with an infinite time an insert is {'excluded' if inf_ is False else 'possible'}")
    # R6.9 the byte count that push_event compares the C return value with belongs to the C heap object: whenever a method builds a
    # new heap it must restart that count from what the new heap reports (0 before the first insert, else the last insert's return)
    bytes_attr = None
    RP = Resolver(push)

    def _insert_results(fn_: ast.AST) -> set:
        """locals that hold the value returned by lib.insert (also through copies, e.g. the parameter of an inlined helper)"""
        out_ = {t.id for a in ast.walk(fn_) if isinstance(a, ast.Assign) and _lib_calls(a.value, aliases, "insert")
                for t in a.targets if isinstance(t, ast.Name)}
        grew = True
        while grew:
            grew = False
            for a in ast.walk(fn_):
                if isinstance(a, ast.Assign) and isinstance(a.value, ast.Name) and a.value.id in out_:
                    for t in a.targets:
                        if isinstance(t, ast.Name) and t.id not in out_:
                            out_.add(t.id)
                            grew = True
        return out_
    for n in ast.walk(push):
        if isinstance(n, ast.Compare) and len(n.ops) == 1:
            sides = [n.left, n.comparators[0]]
            names = {x.id for sd in sides for x in ast.walk(sd) if isinstance(x, ast.Name)}
            ins_vars = _insert_results(push)
            attrs_ = [self_attr(RP.res(sd)) for sd in sides if self_attr(RP.res(sd))]
            if names & ins_vars and attrs_:
                bytes_attr = attrs_[0]
    if bytes_attr is None:
        # however the sizes are compared: the count is the attribute that push_event updates with the value the insert returned
        ins_vars = _insert_results(push)
        upd = {self_attr(a.targets[0]) for a in ast.walk(push) if isinstance(a, ast.Assign) and self_attr(a.targets[0])
               and isinstance(a.value, ast.Name) and a.value.id in ins_vars}
        if len(upd) == 1:
            bytes_attr = upd.pop()
    heap_attr = self_attr(inserts[0].args[0]) if inserts and inserts[0].args else None
    if bytes_attr and heap_attr:
        for mname, m in M.items():
            builds = [a for a in ast.walk(m) if isinstance(a, ast.Assign) and self_attr(a.targets[0]) == heap_attr]
            if not builds:
                continue
            later_inserts = [c for c in _lib_calls(m, aliases, "insert") if c.lineno >= builds[0].lineno]
            sets = [a for a in ast.walk(m) if isinstance(a, ast.Assign) and self_attr(a.targets[0]) == bytes_attr and a.lineno >= builds[0].lineno]
            ok = False
            why = f"`{bytes_attr}` is not restarted after the new C heap is built"
            if sets:
                v = sets[-1].value
                if isinstance(v, ast.Constant) and v.value == 0:
                    ok = not later_inserts
                    why = "restarted at 0 although entries are inserted into the new heap afterwards"
                elif isinstance(v, ast.Name):
                    defs = [a.value for a in ast.walk(m) if isinstance(a, ast.Assign) and any(isinstance(t, ast.Name) and t.id == v.id for t in a.targets)]
                    ok = bool(defs) and all((isinstance(d, ast.Constant) and d.value == 0) or _lib_calls(d, aliases, "insert") for d in defs) \
                        and (not later_inserts or any(_lib_calls(d, aliases, "insert") for d in defs))
                    why = f"restarted from `{v.id}`, which is not (only) the size reported by the inserts into the new heap"
                elif isinstance(v, ast.Call) and (_lib_calls(v, aliases, "estimated_size") or _lib_calls(v, aliases, "insert")):
                    ok = True
            rep.ob("R6.9-allocated-bytes-follow-the-heap", ok, Loc(HEAP_PY, builds[0].lineno, f"{cls.name}.{mname}"),
                   f"{mname}: new C heap, {bytes_attr} restarted",
                   f"push_event treats a C return value smaller than `{bytes_attr}` as a failed reallocation; a method that builds a "
                   f"fresh C heap must restart that count from the new heap, otherwise a heap rebuilt smaller than the old one (after "
                   f"growth, lazy deletion and a dump) makes the next push raise MemoryError: {why}")
    # R6.4 overflow branch
    for t in handlers_try:
        for h in t.handlers:
            if "OverflowError" not in norm(h.type or ast.Constant(value="")):
                continue
            seq = []
            for st in h.body:
                if _lib_calls(st, aliases, "delete_events"):
                    d = _lib_calls(st, aliases, "delete_events")[0]
                    good = len(d.args) == 2 and is_handle_of(d.args[1], hparam)
                    seq.append("delete" if good else "delete-wrong-handler")
                elif isinstance(st, ast.Assign) and isinstance(st.targets[0], ast.Subscript) \
                        and self_attr(st.targets[0].value) == ctr and isinstance(st.value, ast.Constant) and st.value.value == 0 \
                        and norm(st.targets[0].slice) == hparam:
                    seq.append("reset")
                elif _lib_calls(st, aliases, "insert"):
                    seq.append("insert")
                elif isinstance(st, (ast.Pass,)) or (isinstance(st, ast.Expr) and isinstance(st.value, ast.Constant)):
                    continue
                else:
                    seq.append("other")
            seq = [x for x in seq if x != "other"] if all(x != "other" or True for x in seq) else seq
            rep.ob("R6.4-overflow-sequence", seq == ["delete", "reset", "insert"], Loc(HEAP_PY, h.lineno, f"{cls.name}.push_event"),
                   f"except OverflowError: {seq}",
                   "on counter overflow all stored events of the handler must be deleted from the heap before the counter "
                   "restarts at 0 and the event is re-inserted (otherwise entries trashed before the wrap revive)")
    # callback
    cb = M.get("event_valid_callback")
    if cb is None:
        rep.ob("R6.3-callback", None, Loc(HEAP_PY, cls.lineno, cls.name), "event_valid_callback", "method not found")
    else:
        rets = [n for n in ast.walk(cb) if isinstance(n, ast.Return)]
        cparam = param_names(cb)[1]
        ok = False
        if len(rets) == 1 and isinstance(rets[0].value, ast.Compare) and len(rets[0].value.ops) == 1:
            c = rets[0].value
            l, r, op = c.left, c.comparators[0], c.ops[0]
            cur_left = ctr in norm(l) and norm(r) == cparam
            cur_right = ctr in norm(r) and norm(l) == cparam
            ok = (cur_left and isinstance(op, ast.Gt)) or (cur_right and isinstance(op, ast.Lt))
        elif len(rets) == 1 and isinstance(rets[0].value, ast.UnaryOp) and isinstance(rets[0].value.op, ast.Not) \
                and isinstance(rets[0].value.operand, ast.Compare) and len(rets[0].value.operand.ops) == 1:
            c = rets[0].value.operand
            l, r, op = c.left, c.comparators[0], c.ops[0]
            cur_left = ctr in norm(l) and norm(r) == cparam
            cur_right = ctr in norm(r) and norm(l) == cparam
            ok = (cur_left and isinstance(op, ast.LtE)) or (cur_right and isinstance(op, ast.GtE))
        rep.ob("R6.3-callback", ok, Loc(HEAP_PY, cb.lineno, f"{cls.name}.event_valid_callback"), rets[0] if rets else cb.name,
               "the root entry must be discarded exactly when the handler's current counter is greater than the stored one "
               "(equal = still live)")
    ext = [n for n in tree.body if isinstance(n, ast.FunctionDef) and n.name == "event_valid_callback"]
    if ext:
        e0 = canon(None, None, ext[0])
        r = [n for n in ast.walk(e0) if isinstance(n, ast.Return)]
        ok = len(r) == 1 and "event_valid_callback(" in norm(r[0].value) and "not" not in norm(r[0].value).split("(")[0]
        ps = param_names(e0, skip_self=False)
        ok = ok and norm(r[0].value).endswith(f"({ps[1]}, {ps[2]})")
        rep.ob("R6.3-extern-callback", ok, Loc(HEAP_PY, ext[0].lineno, "event_valid_callback"), r[0] if r else "extern",
               "the extern callback must forward handler handle and counter to the scheduler's method and return its answer")
    # C side: root deletes exactly while the callback is true.  Recognised shapes of the lazy-deletion loop:
    #   while (.. && cb(top)) { discard }          while (..) { if (!cb(top)) return/break; discard }
    #   while (..) { if (cb(top)) { discard } else return/break; }
    # anything else that still calls the callback is undecided; the callback asked with the wrong polarity or about another slot is a violation
    rb = inline_statement_calls(unit, unit.body("root"))
    loops = [n for n in rb.walk() if n.kind in ("WhileStmt", "ForStmt")]
    cbname = unit.params("root")[2]
    ptr_inits: Dict[str, str] = {}
    for d in rb.walk():
        if d.kind == "VarDecl" and d.children:
            ptr_inits[d.props.get("name")] = text(d.children[-1])

    def top_field(a: str, field: str) -> bool:
        a = a.strip("()")
        if a.endswith(f"[1].{field}"):
            return True
        if a.endswith(f"->{field}"):
            base = a[:-len(field) - 2].strip("()")
            init = ptr_inits.get(base, "").strip("()")
            return init.endswith("+ 1") or init.endswith("[1]") and init.startswith("&")
        return False

    def exits(n: CNode) -> bool:
        return any(x.kind in ("ReturnStmt", "BreakStmt") for x in n.walk())

    def discards(n: CNode) -> bool:
        return any(x.kind in ("UnaryOperator",) and x.props.get("opcode") == "--" or
                   (x.kind == "CompoundAssignOperator" and x.props.get("opcode") == "-=") for x in n.walk())
    okc: Optional[bool] = None
    calls = [n for n in rb.walk() if n.kind == "CallExpr" and text(n.children[0]) == cbname]
    if len(loops) == 1 and len(calls) == 1:
        call = calls[0]
        args = [text(a_) for a_ in call.children[1:]]
        about_top = len(args) == 3 and top_field(args[1], "event_handler") and top_field(args[2], "counter")
        cond = strip(loops[0].children[0]) if loops[0].kind == "WhileStmt" else None
        body_ = loops[0].children[-1]
        shape: Optional[bool] = None
        if cond is not None and any(x is call for x in cond.walk()):
            if cond.kind == "BinaryOperator" and cond.props.get("opcode") == "&&":
                right = strip(cond.children[1])
                if right is call:
                    shape = True
                elif right.kind == "UnaryOperator" and right.props.get("opcode") == "!" and strip(right.children[0]) is call:
                    shape = False
        else:
            for st in (body_.children if body_.kind == "CompoundStmt" else [body_]):
                if st.kind == "IfStmt" and any(x is call for x in st.children[0].walk()):
                    c = strip(st.children[0])
                    then_, else_ = st.children[1], (st.children[2] if len(st.children) > 2 else None)
                    if c is call:
                        if discards(then_) and not exits(then_) and else_ is not None and exits(else_):
                            shape = True
                        elif exits(then_) and not discards(then_):
                            shape = False
                    elif c.kind == "UnaryOperator" and c.props.get("opcode") == "!" and strip(c.children[0]) is call:
                        if exits(then_) and not discards(then_):
                            shape = True
                        elif discards(then_) and not exits(then_):
                            shape = False
        okc = None if shape is None else (shape and about_top)
    rep.ob("R6.3-c-root-deletes-iff-callback", okc, Loc(HEAP_C, loops[0].line if loops else 0, "root"),
           text(loops[0].children[0]) if loops else "root",
           "root must discard the top entry exactly while the callback says it was trashed, asking about the top entry's "
           "handler and counter")
    # R6.5 empty: with the root call failing and the returned entry being the artificial one (handler NULL, times -inf) the
    # method must leave by raising SchedulerError
    def empty_atom(e: ast.AST) -> Optional[bool]:
        if isinstance(e, ast.Compare) and len(e.ops) == 1:
            l, r, op = norm(e.left), norm(e.comparators[0]), e.ops[0]
            pair = {l, r}
            hit = (any(x.endswith(".event_handler") for x in pair) and "ffi.NULL" in pair) or \
                  (any("time_quotient" in x or "time_remainder" in x for x in pair) and any("inf" in x for x in pair))
            if hit and isinstance(op, (ast.Eq, ast.Is)):
                return True
            if hit and isinstance(op, (ast.NotEq, ast.IsNot)):
                return False
        return None
    ok = False
    for t in [n for n in ast.walk(get) if isinstance(n, ast.Try)]:
        for h in t.handlers:
            if _reaches(h.body, empty_atom, lambda st: isinstance(st, ast.Raise) and st.exc is not None and "SchedulerError" in norm(st.exc)):
                ok = True
    rep.ob("R6.5-empty-raises", ok, Loc(HEAP_PY, get.lineno, f"{cls.name}.get_succeeding_event"), "empty heap -> SchedulerError",
           "asking an empty heap scheduler must raise SchedulerError, recognised by the NULL handler returned by root")
    roots = _lib_calls(get, aliases, "root")
    okr = len(roots) == 1 and len(roots[0].args) == 3 and aliases.get(norm(roots[0].args[2]), norm(roots[0].args[2])) in ("event_valid_callback", "lib.event_valid_callback")
    rep.ob("R6.3-root-with-callback", okr, Loc(HEAP_PY, get.lineno, f"{cls.name}.get_succeeding_event"),
           roots[0] if roots else "root call", "root must be called with the liveness callback")
    # R6.6 pickling
    gs, ss = M.get("__getstate__"), M.get("__setstate__")
    if gs and ss:
        fields = [f.split()[-1] for f in unit.fields("HeapEntry")]
        appends = [n for n in ast.walk(gs) if isinstance(n, ast.Call) and isinstance(n.func, ast.Attribute) and n.func.attr == "append"
                   and n.args and isinstance(n.args[0], ast.Tuple)]
        ok = False
        if len(appends) == 1:
            elts = appends[0].args[0].elts
            names = []
            for e in elts:
                m = [x.attr for x in ast.walk(e) if isinstance(x, ast.Attribute) and x.attr in fields]
                names.append(m[0] if m else None)
            ok = names == fields
        rep.ob("R6.6-dump-all-fields", ok, Loc(HEAP_PY, gs.lineno, f"{cls.name}.__getstate__"),
               appends[0] if appends else "__getstate__",
               f"every heap entry must be pickled with all fields in struct order {fields} (the counter decides which "
               f"trashed entries stay dead after resume)")
        loops = [n for n in ast.walk(ss) if isinstance(n, ast.For) and isinstance(n.target, ast.Tuple)]
        ok2 = False
        if len(loops) == 1:
            tv = [norm(e) for e in loops[0].target.elts]
            ins = _lib_calls(loops[0], aliases, "insert")
            if len(ins) == 1 and len(tv) == 4 and len(ins[0].args) == 5:
                a = ins[0].args
                ok2 = norm(a[1]) == tv[0] and norm(a[2]) == tv[1] and is_handle_of(a[3], tv[2], Resolver(ss)) and norm(a[4]) == tv[3]
        rep.ob("R6.6-restore-stored-counters", ok2, Loc(HEAP_PY, ss.lineno, f"{cls.name}.__setstate__"),
               "re-insert (quotient, remainder, handler, counter)",
               "entries must be re-inserted with their stored times, handlers and *stored* counters")
        deleted = _removed_keys(gs, consts=lambda e: const_value(prog, ci, e))
        keep = {ctr, "_last_returned_event"}
        rep.ob("R6.6-keeps-counters", not (deleted & keep), Loc(HEAP_PY, gs.lineno, f"{cls.name}.__getstate__"),
               f"pickled state keeps {sorted(keep)}", f"the pickled state drops {sorted(deleted & keep)}")
        # entry iteration: index from 0 in steps of one; every entry fetched is appended; the loop ends only at the NULL handler
        ent = _lib_calls(gs, aliases, "entry")
        def counts_from_zero(it: ast.AST) -> bool:
            return isinstance(it, ast.Call) and norm(it.func) in ("count", "itertools.count") and not it.keywords and (
                not it.args or (isinstance(it.args[0], ast.Constant) and it.args[0].value == 0 and (
                    len(it.args) == 1 or (isinstance(it.args[1], ast.Constant) and it.args[1].value == 1))))
        wl = [n for n in ast.walk(gs) if isinstance(n, ast.While) or (isinstance(n, ast.For) and counts_from_zero(n.iter))]
        unconditional = False
        iterates = False
        if len(wl) == 1 and appends and ent:
            w = wl[0]
            wbody = flat(w.body)
            top_append = any(isinstance(st, ast.Expr) and any(x is appends[0] for x in ast.walk(st)) for st in wbody)
            skips = [n for n in ast.walk(w) if isinstance(n, ast.Continue)]

            def null_break(st: ast.stmt) -> bool:
                return isinstance(st, ast.If) and not st.orelse and any(isinstance(x, ast.Break) for x in st.body) \
                    and empty_atom(st.test) is True and "event_handler" in norm(st.test)
            other_ifs = [st for st in wbody if isinstance(st, ast.If) and not null_break(st)]
            unconditional = top_append and not skips and not other_ifs
            idx = {norm(c.args[1]) for c in ent if len(c.args) == 2}
            if len(idx) == 1:
                iv = next(iter(idx))
                incs = [st for st in wbody if isinstance(st, ast.AugAssign) and norm(st.target) == iv and isinstance(st.op, ast.Add)
                        and isinstance(st.value, ast.Constant) and st.value.value == 1]
                other_writes = [n for n in ast.walk(gs) if isinstance(n, (ast.Assign, ast.AugAssign)) and any(
                    norm(t) == iv for t in (n.targets if isinstance(n, ast.Assign) else [n.target])) and n not in incs]
                starts = [n for n in other_writes if isinstance(n, ast.Assign) and isinstance(n.value, ast.Constant) and n.value.value == 0
                          and not any(n is x for x in ast.walk(w))]
                in_loop = [c for c in ent if any(c is x for x in ast.walk(w))]
                before = [c for c in ent if c not in in_loop]

                def kinds_of(body_) -> List[str]:
                    ks = ["fetch" if any(c is x for c in in_loop for x in ast.walk(st)) else "stop" if null_break(st)
                          else "append" if any(x is appends[0] for x in ast.walk(st)) else "advance" if st in incs else "other" for st in body_]
                    return [k for k in ks if k != "other"]
                core_ = kinds_of(wbody)
                if isinstance(w, ast.For):
                    # for index in count(): fetch, stop at NULL, append  (the index advances by itself, from 0 in steps of one)
                    shape = norm(w.target) == iv and len(in_loop) == 1 and not before and core_ == ["fetch", "stop", "append"]
                    iterates = shape and not incs and not other_writes
                elif isinstance(w.test, ast.Constant) and w.test.value is True:
                    # fetch, stop at NULL, append, advance
                    shape = len(in_loop) == 1 and not before and core_[:2] == ["fetch", "stop"] and sorted(core_[2:]) == ["advance", "append"]
                    iterates = shape and len(incs) == 1 and len(starts) == 1 and len(other_writes) == 1
                else:
                    # fetch before the loop, loop while not NULL: append, advance, fetch
                    shape = len(in_loop) == 1 and len(before) == 1 and empty_atom(w.test) is False and "event_handler" in norm(w.test) \
                        and core_ in (["append", "advance", "fetch"],)
                    iterates = shape and len(incs) == 1 and len(starts) == 1 and len(other_writes) == 1
        if not iterates and appends and ent:
            # any other way of writing the read-out loop: run it on model heaps with 0, 1 and 3 entries
            sims = [_simulate_dump(gs, aliases, appends[0], n_) for n_ in (0, 1, 3)]
            if all(x is True for x in sims):
                iterates = True
        if not unconditional and appends and ent:
            # a run that follows every condition on the way to the append (an untracked condition makes it undecidable) and files
            # entry(0 .. n-1) for every model heap has no filter between fetching and filing
            if all(_simulate_dump(gs, aliases, appends[0], n_) is True for n_ in (0, 1, 3)):
                unconditional = True
        rep.ob("R6.6-dump-every-entry", unconditional, Loc(HEAP_PY, gs.lineno, f"{cls.name}.__getstate__"),
               "heap_entries.append(...) unconditionally for every entry returned by the heap",
               "every entry still stored in the C heap must be pickled (also trashed ones and ones tied with the last returned time): "
               "a skipped live entry is an event that never happens in the resumed run")
        check_delete_events(unit, rep)   # the C half of the counter-overflow branch (R6.4)
        rep.ob("R6.6-iterates-all-entries", iterates, Loc(HEAP_PY, gs.lineno, f"{cls.name}.__getstate__"), "entry(index) for index = 0, 1, ... until NULL",
               "all entries must be read out: index from 0 in steps of one, every fetched entry appended, stop only at the NULL handler")


def _key_is_time(key: ast.AST, tree: ast.Module) -> bool:
    """the key function maps an element to its `.time`: lambda e: e.time, attrgetter('time'), or a name bound to one of these"""
    if isinstance(key, ast.Lambda):
        ps = [a.arg for a in key.args.args]
        return len(ps) == 1 and isinstance(key.body, ast.Attribute) and key.body.attr == "time" and isinstance(key.body.value, ast.Name) \
            and key.body.value.id == ps[0]
    if isinstance(key, ast.Call) and norm(key.func) in ("attrgetter", "operator.attrgetter") and len(key.args) == 1 \
            and isinstance(key.args[0], ast.Constant) and key.args[0].value == "time":
        return True
    if isinstance(key, ast.Name):
        for n in tree.body:
            if isinstance(n, (ast.Assign, ast.AnnAssign)) and isinstance((n.targets[0] if isinstance(n, ast.Assign) else n.target), ast.Name) \
                    and (n.targets[0] if isinstance(n, ast.Assign) else n.target).id == key.id and n.value is not None:
                return _key_is_time(n.value, tree)
            if isinstance(n, ast.FunctionDef) and n.name == key.id:
                b = body_without_docstring(n)
                ps = [a.arg for a in n.args.args]
                return len(b) == 1 and isinstance(b[0], ast.Return) and isinstance(b[0].value, ast.Attribute) and b[0].value.attr == "time" \
                    and isinstance(b[0].value.value, ast.Name) and len(ps) == 1 and b[0].value.value.id == ps[0]
    return False


def check_list_scheduler(src: Source, rep: Report) -> None:
    tree = src.parse(LIST_PY)
    prog = _prog(src)
    cl = [c for c in prog.classes_in(LIST_PY) if "push_event" in c.methods]
    if len(cl) != 1:
        raise AnalysisError("ListScheduler not found")
    M = {name: canon(prog, cl[0], m) for name, m in cl[0].methods.items()}
    get = M["get_succeeding_event"]
    mins = [n for n in ast.walk(get) if isinstance(n, ast.Call) and isinstance(n.func, ast.Name) and n.func.id in ("min", "sorted")]
    mins = list({norm(m): m for m in mins}.values())  # one expression, possibly propagated into several uses
    ok = False
    if len(mins) == 1 and mins[0].func.id == "min":
        key = [k.value for k in mins[0].keywords if k.arg == "key"]
        ok = len(key) == 1 and _key_is_time(key[0], tree) and self_attr(mins[0].args[0]) is not None
    rep.ob("R6.8-list-min-by-time", ok, Loc(LIST_PY, get.lineno, "ListScheduler.get_succeeding_event"), mins[0] if mins else "min",
           "the list scheduler must return the element with the minimal Time (Time.__lt__ is the exact order, R6.1)")
    tries = [n for n in ast.walk(get) if isinstance(n, ast.Try)]
    ok = any("ValueError" in norm(h.type or ast.Constant(value="")) and any(isinstance(x, ast.Raise) and "SchedulerError" in norm(x.exc)
                                                                              for x in ast.walk(h)) for t in tries for h in t.handlers)
    rep.ob("R6.5-empty-raises", ok, Loc(LIST_PY, get.lineno, "ListScheduler.get_succeeding_event"), "empty list -> SchedulerError",
           "asking an empty list scheduler must raise SchedulerError")
    # trash removes by identity of the handler
    el = [n for n in tree.body if isinstance(n, ast.ClassDef) and any(isinstance(m, ast.FunctionDef) and m.name == "__eq__" for m in n.body)]
    ok = False
    if el:
        eq = [m for m in el[0].body if isinstance(m, ast.FunctionDef) and m.name == "__eq__"][0]
        r = [n for n in ast.walk(eq) if isinstance(n, ast.Return)]
        ok = len(r) == 1 and isinstance(r[0].value, ast.Compare) and isinstance(r[0].value.ops[0], (ast.Is, ast.Eq)) \
            and "event_handler" in norm(r[0].value.left)
    ok_by_eq, el_line = ok, (el[0].lineno if el else 0)
    tr = M["trash_event"]
    rem = [n for n in ast.walk(tr) if isinstance(n, ast.Call) and isinstance(n.func, ast.Attribute) and n.func.attr == "remove"]
    h0 = param_names(tr)[0]
    ok_rem = len(rem) == 1 and norm(rem[0].args[0]) == h0
    if not ok_rem:
        # ... or an explicit scan: the first element whose handler IS the trashed handler is deleted, then the scan stops
        for lp in [n for n in ast.walk(tr) if isinstance(n, ast.For)]:
            names_ = [x.id for x in ast.walk(lp.target) if isinstance(x, ast.Name)]
            for g in [n for n in ast.walk(lp) if isinstance(n, ast.If)]:
                at = atoms(g.test)
                hit = any(a_ in (f"{e_}.event_handler is {h0}", f"{h0} is {e_}.event_handler", f"{e_}.event_handler == {h0}", f"{h0} == {e_}.event_handler")
                          for a_ in at for e_ in names_)
                deletes = any(isinstance(x, ast.Delete) and any(isinstance(t, ast.Subscript) and self_attr(t.value) for t in x.targets) for x in g.body) or \
                    any(isinstance(x, ast.Call) and isinstance(x.func, ast.Attribute) and x.func.attr in ("pop", "remove") and self_attr(x.func.value)
                        for st_ in g.body for x in ast.walk(st_))
                stops = any(isinstance(x, (ast.Break, ast.Return)) for x in g.body)
                if hit and deletes and stops and len(at) == 1:
                    ok_rem = True
                    ok_by_eq = True      # removal by identity of the handler is explicit here (no reliance on _Element.__eq__)
    rep.ob("R6.8-list-trash-by-handler", ok_by_eq, Loc(LIST_PY, el_line, "_Element.__eq__ / trash_event"), "remove by handler identity",
           "trash_event must remove exactly the element of the trashed handler")
    rep.ob("R6.8-list-trash-removes", ok_rem,
           Loc(LIST_PY, tr.lineno, "ListScheduler.trash_event"), rem[0] if rem else "trash_event", "trash must remove the element")


def check_delete_events(unit: CUnit, rep: Report) -> None:
    """R6.4c: delete_events removes every entry of the handler: after the gap is filled with the last entry, the same index is
    examined again (the moved-in entry may belong to the handler too); a non-matching index advances by exactly one."""
    body = inline_statement_calls(unit, unit.body("delete_events"))
    hparam = unit.params("delete_events")[1]
    loops = [n for n in body.walk() if n.kind in ("WhileStmt", "ForStmt")]
    target = None
    for lp in loops:
        for n in lp.walk():
            if n.kind == "IfStmt" and hparam in text(n.children[0]) and "event_handler" in text(n.children[0]):
                target = (lp, n)
                break
        if target:
            break
    loc = Loc(HEAP_C, body.line, "delete_events")
    if target is None:
        rep.ob("R6.4-delete-all-entries", None, loc, "removal loop", "loop with the handler test not found")
        return
    lp, test = target
    cond = strip(test.children[0])
    idx = None
    pointer_cursor = False
    for n in cond.walk():
        if n.kind == "ArraySubscriptExpr":
            idx = text(n.children[1])
    if idx is None:
        # the loop walks a pointer instead of an index: `cursor->event_handler == handler`
        for n in cond.walk():
            if n.kind == "MemberExpr" and n.children and strip(n.children[0]).kind == "DeclRefExpr":
                idx, pointer_cursor = strip(n.children[0]).props.get("ref"), True
    if idx is None:
        rep.ob("R6.4-delete-all-entries", None, loc, "removal loop", "cursor of the removal loop not recognised")
        return
    if lp.kind == "ForStmt":
        parts = list(lp.children)
        lbody = parts[-1]
        inc = parts[-2] if len(parts) >= 3 else None
    else:
        lbody, inc = lp.children[1], None

    # which branch of the test handles an entry of the handler: `==` -> the then-branch, `!=` -> the else-branch
    cmp_ = next((x for x in [cond] + list(cond.walk()) if x.kind == "BinaryOperator" and x.props.get("opcode") in ("==", "!=")), None)
    then_matches = cmp_ is None or cmp_.props.get("opcode") == "=="
    match_branch = test.children[1] if then_matches else (test.children[2] if len(test.children) > 2 else None)

    def incs(n: CNode) -> int:
        return sum(1 for x in n.walk() if x.kind == "UnaryOperator" and x.props.get("opcode") == "++" and text(x.children[0]) == idx) + \
            sum(1 for x in n.walk() if x.kind == "CompoundAssignOperator" and x.props.get("opcode") == "+=" and text(x.children[0]) == idx)

    def paths(n: CNode, matched: Optional[bool]):
        """yield (matched?, increments, terminated) for the statement n"""
        if n.kind == "CompoundStmt":
            states = [(matched, 0, False)]
            for c in n.children:
                nxt = []
                for (m, k, done) in states:
                    if done:
                        nxt.append((m, k, True))
                        continue
                    for (m2, k2, d2) in paths(c, m):
                        nxt.append((m2, k + k2, d2))
                states = nxt
            return states
        if n.kind == "IfStmt":
            is_test = n is test
            out = []
            for (m2, k2, d2) in paths(n.children[1], then_matches if is_test else matched):
                out.append((m2, k2, d2))
            if len(n.children) > 2:
                out += paths(n.children[2], (not then_matches) if is_test else matched)
            else:
                out.append(((not then_matches) if is_test else matched, 0, False))
            return out
        if n.kind == "ContinueStmt":
            return [(matched, 0, True)]
        return [(matched, incs(n), False)]

    result = paths(lbody, None)
    extra = incs(inc) if inc is not None else 0
    ok = True
    detail = []
    for m, k, done in result:
        total = k + extra
        detail.append(f"{'match' if m else 'no match'}: index advanced {total}x")
        if m and total != 0:
            ok = False
        if m is False and total != 1:
            ok = False
    # the gap is filled with the last entry and the heap shrinks by one: entries[idx] = entries[<.. length ..>], one decrement of length
    writes = []
    decs = 0
    if match_branch is not None:
        writes = [n for n in match_branch.walk() if n.kind == "BinaryOperator" and n.props.get("opcode") == "="
                  and ((strip(n.children[0]).kind == "ArraySubscriptExpr" and text(strip(n.children[0]).children[1]) == idx) or
                       (pointer_cursor and text(n.children[0]).replace("(", "").replace(")", "").replace(" ", "") in ("*" + idx, idx + "[0]")))
                  and "length" in text(n.children[1])]
        decs = sum(1 for x in match_branch.walk() if (x.kind == "UnaryOperator" and x.props.get("opcode") == "--" and "length" in text(x.children[0]))
                   or (x.kind == "CompoundAssignOperator" and x.props.get("opcode") == "-=" and "length" in text(x.children[0])
                       and text(x.children[1]) == "1")
                   or (x.kind == "BinaryOperator" and x.props.get("opcode") == "=" and "length" in text(x.children[0])
                       and text(x.children[1]) == f"({text(x.children[0])} - 1)"))
    rep.ob("R6.4-delete-all-entries", ok and len(writes) == 1 and decs == 1, Loc(HEAP_C, lp.line, "delete_events"), f"removal loop: {sorted(set(detail))}",
           "after an entry of the handler is overwritten by the last heap entry the same index must be examined again (the "
           "moved-in entry can belong to the handler as well), and a non-matching index must advance by one: otherwise a "
           "trashed entry survives the counter reset and becomes live again")
    # the heap property is rebuilt for every inner node afterwards
    rebuild = [n for n in body.walk() if n.kind == "ForStmt" and any(c.kind == "CallExpr" and text(c.children[0]) == "bubble_down" for c in n.walk())]
    okr = False
    if len(rebuild) == 1:
        parts = list(rebuild[0].children)
        init, cnd, inc2 = parts[0], parts[1], parts[2]
        okr = ("/ 2" in text(init.children[0].children[-1]) or ">> 1" in text(init.children[0].children[-1])) and (">= 1" in text(cnd) or "> 0" in text(cnd) or "!= 0" in text(cnd) or text(cnd).strip("()").startswith(("1 <=", "0 <", "0 !="))) and "--" in text(inc2)
    rep.ob("R6.4-delete-rebuilds-heap", okr, Loc(HEAP_C, rebuild[0].line if rebuild else body.line, "delete_events"),
           "for (index = length / 2; index >= 1; index--) bubble_down", "after deleting from arbitrary positions every inner node must be "
           "sifted down again (from length/2 down to 1)")


def analyse(src: Source) -> List[Report]:
    rep = Report(ID, src)
    rep.explain(
        "R6.1: the bubble-up condition of insert and the two child tests of bubble_down are extracted from the clang AST and "
        "evaluated on all 9 (quotient order, remainder order) cells; they must be the strict lexicographic 'less'; same "
        "table for Time.__lt__ used by the list scheduler. R6.2: zone-domain abstract interpretation of insert / root / "
        "delete_events / entry / bubble_down: assuming INV = (size=0,length=0) or (1<=length, length+1<=size) at entry, "
        "every heap->heap_entries[e] has 0 <= e <= size-1, no unsigned decrement underflows, and INV holds at every exit "
        "(so it holds for every history of calls, including growth by doubling). R6.3: the counter passed to insert is the "
        "handler's current minimal valid counter, trash_event increments exactly that, the callback answers current > "
        "stored, root discards exactly while it is true. R6.4: on OverflowError: delete_events, reset to 0, re-insert with "
        "0. R6.5: both schedulers raise SchedulerError when empty. R6.6: __getstate__ dumps all four fields of every "
        "entry, __setstate__ re-inserts with stored counters, the counter table survives. R6.7: cdef, heap.h and heap.c "
        "agree on signatures and the HeapEntry layout. R6.8 list scheduler: min by Time, trash by handler identity. Not "
        "decided: heap-order maintenance of the sift loops, agreement on concrete histories, allocation failure.")
    rep.assume("realloc / calloc succeed; unsigned arithmetic does not wrap on increment or doubling (length < 2^31)")
    unit = CUnit(src, HEAP_C)
    rep.unit("c_functions", len(unit.functions))
    check_c_comparisons(unit, rep)
    # Time.__lt__
    ttree = src.parse(TIME_FILE)
    tcls = [n for n in ttree.body if isinstance(n, ast.ClassDef) and n.name == "Time"]
    if not tcls:
        raise AnalysisError("class Time not found")
    try:
        table = time_comparison_table(tcls[0], "__lt__")
        for cell in CELLS:
            rep.ob("R6.1-time-lt", table[cell] == lex_expected(cell, "<"), Loc(TIME_FILE, tcls[0].lineno, "Time.__lt__"),
                   f"Time.__lt__ @ quotient{cell[0]} remainder{cell[1]}", "Time.__lt__ is not the strict lexicographic order")
    except NotInFragment as e:
        rep.ob("R6.1-time-lt", None, Loc(TIME_FILE, tcls[0].lineno, "Time.__lt__"), "Time.__lt__", str(e))
    rep.exhaustive = True
    obs, info = analyse_heap(unit)
    for o in obs:
        rep.ob(o.rule, o.ok, Loc(HEAP_C, o.line, o.fn), f"{o.fn}: {o.expr}",
               f"{o.why}; abstract state: {o.state}", sample=(o.rule == "R6.2-index-in-bounds" and o.fn == "bubble_down"))
    for u in info.get("unhandled", []):
        rep.ob("R6.2-construct-understood", None, Loc(HEAP_C, 0, ""), u, "construct not interpreted")
    rep.extra["heap_zone_functions"] = info["functions"]
    # entry(i) must return element i + 1 (skipping the artificial 0th item) exactly when i + 1 < length
    eb = unit.body("entry")
    ifs = [n for n in eb.walk() if n.kind == "IfStmt"]
    idx_param = unit.params("entry")[1]
    # locals with one initialiser and no other assignment stand for their initialiser
    inits: Dict[str, str] = {}
    for d in eb.walk():
        if d.kind == "VarDecl" and d.children:
            inits[d.props.get("name")] = text(d.children[-1])
    for a in eb.walk():
        if a.kind in ("BinaryOperator", "CompoundAssignOperator") and a.props.get("opcode", "").endswith("=") and a.props.get("opcode") not in ("==", "!=", "<=", ">=") \
                and strip(a.children[0]).kind == "DeclRefExpr":
            inits.pop(strip(a.children[0]).props.get("ref"), None)

    def rtext(n: CNode) -> str:
        t = text(n)
        for name, init in inits.items():
            if t == name:
                return init if init.startswith("(") else f"({init})" if " " in init else init
        return t
    want_idx = f"({idx_param} + 1)"
    ok = False
    if len(ifs) == 1:
        c = strip(ifs[0].children[0])
        then_subs = [n for n in ifs[0].children[1].walk() if n.kind == "ArraySubscriptExpr"]
        all_subs = [n for n in eb.walk() if n.kind == "ArraySubscriptExpr"]
        if c.kind == "BinaryOperator" and len(all_subs) == 1 and rtext(all_subs[0].children[1]) == want_idx:
            op, l, r = c.props.get("opcode"), rtext(c.children[0]), rtext(c.children[1])
            in_range_then = (op == "<" and l == want_idx and r.endswith("length")) or (op == ">" and r == want_idx and l.endswith("length"))
            out_of_range_then = (op == ">=" and l == want_idx and r.endswith("length")) or (op == "<=" and r == want_idx and l.endswith("length"))
            if in_range_then:
                ok = len(then_subs) == 1
            elif out_of_range_then:
                # guard: the out-of-range case returns first (no entry read in it), the entry is read afterwards / in the else branch
                ok = not then_subs and any(x.kind == "ReturnStmt" for x in ifs[0].children[1].walk())
    rep.ob("R6.6-entry-enumerates-live-slots", ok, Loc(HEAP_C, ifs[0].line if ifs else 0, "entry"),
           text(ifs[0].children[0]) if ifs else "entry",
           "entry(i) must return slot i + 1 (slot 0 is the artificial minus-infinity item) for exactly the i with "
           "i + 1 < length, otherwise pickling loses or invents heap entries")
    rep.expect_min("R6.2-index-in-bounds", 14)
    rep.expect_min("R6.2-invariant-restored", 8)
    rep.expect_min("R6.9-allocated-bytes-follow-the-heap", 2)
    check_cdef(src, unit, rep)
    check_heap_scheduler(src, rep, unit)
    check_list_scheduler(src, rep)
    rep.expect_min("R6.3-insert-current-counter", 1)
    rep.expect_min("R6.4-overflow-sequence", 1)
    rep.expect_min("R6.5-empty-raises", 2)
    rep.expect_min("R6.7-signature-agreement", 7)
    return [rep]


MUTANTS = [
    Edit("insert: growth test off by one", HEAP_C, "if (heap->length + 1 > heap->size) {", "if (heap->length > heap->size) {", "R6.2"),
    Edit("insert: initial capacity 1", HEAP_C, "heap->size = heap->size ? heap->size * 2 : 64;", "heap->size = heap->size ? heap->size * 2 : 1;", "R6.2"),
    Edit("insert: growth by one instead of doubling... shrink", HEAP_C, "heap->size = heap->size ? heap->size * 2 : 64;",
         "heap->size = heap->size ? heap->size : 64;", "R6.2"),
    Edit("bubble_down: first child guard dropped", HEAP_C, "if (child_position < heap->length &&\n", "if (1 &&\n", "R6.2"),
    Edit("root: pops the sentinel", HEAP_C, "while (heap->length > 1 &&", "while (heap->length > 0 &&", "R6.2"),
    Edit("entry: reads one past", HEAP_C, "return heap->heap_entries[index + 1];", "return heap->heap_entries[index + 2];", "R6.6"),
    Edit("insert: <= on quotient", HEAP_C, "while (time_quotient < heap->heap_entries[parent_position].time_quotient ||",
         "while (time_quotient <= heap->heap_entries[parent_position].time_quotient ||", "R6.1"),
    Edit("insert: equal-quotient guard dropped", HEAP_C,
         "(time_quotient == heap->heap_entries[parent_position].time_quotient\n               && time_remainder",
         "(1\n               && time_remainder", "R6.1"),
    Edit("bubble_down: remainder compared with quotient", HEAP_C,
         "&& heap->heap_entries[child_position].time_remainder\n                        < heap->heap_entries[compare_position].time_remainder",
         "&& heap->heap_entries[child_position].time_remainder\n                        <= heap->heap_entries[compare_position].time_remainder", "R6.1"),
    Edit("callback >=", HEAP_PY, "] > counter", "] >= counter", "R6.3"),
    Edit("overflow: no delete_events", HEAP_PY,
         "                _lib_delete_events(self._heap, self._event_handler_handles[event_handler])\n", "", "R6.4"),
    Edit("pickle drops the counter", HEAP_PY, "_from_handle(entry.event_handler),\n                                 entry.counter))",
         "_from_handle(entry.event_handler),\n                                 0))", "R6.6"),
    Edit("restore with fresh counters", HEAP_PY,
         r"(new_size = _lib_insert\(self\._heap, time_quotient, time_remainder,\s+self\._event_handler_handles\[event_handler\], )counter\)",
         r"\g<1>0)", "R6.6", regex=True),
    Edit("cdef field order", HEAP_BUILD, "    void *event_handler;\n    uint counter;\n", "    uint counter;\n    void *event_handler;\n", "R6.7"),
    Edit("push stores counter + 1", HEAP_PY, "self._minimal_valid_counter.setdefault(event_handler, 0))",
         "self._minimal_valid_counter.setdefault(event_handler, 0) + 1)", "R6.3"),
    Edit("trash increments by two", HEAP_PY, "self._minimal_valid_counter.get(event_handler, 0) + 1",
         "self._minimal_valid_counter.get(event_handler, 0) + 2", "R6.3"),
    Edit("list scheduler: max", LIST_PY, "smallest_element = min(self._times,", "smallest_element = max(self._times,", "R6.8"),
    Edit("delete_events: cache slot past the end", HEAP_C, "heap->heap_entries[heap->length] = heap->heap_entries[index];",
         "heap->heap_entries[heap->length + 1] = heap->heap_entries[index];", "R6.2"),
]
MUTANTS.append(Edit("pickle skips entries not later than the last returned event", HEAP_PY,
                    "            index += 1\n            heap_entries.append(",
                    "            index += 1\n            if Time(entry.time_quotient, entry.time_remainder) > self._last_returned_event[0]:\n                heap_entries.append(",
                    "R6.6"))
MUTANTS.append(Edit("pickle skips passed entries with continue", HEAP_PY,
                    "            index += 1\n            heap_entries.append(",
                    "            index += 1\n            if Time(entry.time_quotient, entry.time_remainder) <= self._last_returned_event[0]:\n                continue\n            heap_entries.append(",
                    "R6.6"))
MUTANTS.append(Edit("delete_events: moved-in entry not re-examined", HEAP_C,
                    "            heap->heap_entries[current_index] = heap->heap_entries[--(heap->length)];\n            continue;\n",
                    "            heap->heap_entries[current_index] = heap->heap_entries[--(heap->length)];\n", "R6.4"))
MUTANTS.append(Edit("delete_events: heap rebuilt from length/4", HEAP_C, "for (uint index = heap->length / 2; index >= 1; index--)",
                    "for (uint index = heap->length / 4; index >= 1; index--)", "R6.4"))
MUTANTS += [
    Patch("refactored heap.c (comparison helper, entries alias) + helper compares with <=", "refactorings/C06_R1.diff",
          [Edit("", HEAP_C, "first_quotient == second_quotient && first_remainder < second_remainder", "first_quotient == second_quotient && first_remainder <= second_remainder")], "R6.1"),
    Patch("refactored heap.c (comparison helper, entries alias) + child bound dropped", "refactorings/C06_R1.diff",
          [Edit("", HEAP_C, "if (second_child < heap->length &&", "if (")], "R6.2"),
]

TWINS = [
    Edit("C: shift as division", HEAP_C, "uint parent_position = position >> 1u;", "uint parent_position = position / 2;"),
    Edit("C: rename local", HEAP_C, "uint old_size = heap->size;\n", "uint old_size = heap->size; /* previous capacity */\n"),
    Edit("callback: flipped operands", HEAP_PY,
         "return self._minimal_valid_counter[_from_handle(event_handler_handle)] > counter",
         "return counter < self._minimal_valid_counter[_from_handle(event_handler_handle)]"),
    Edit("insert: reordered disjunction is NOT attempted; growth to 128", HEAP_C, "heap->size ? heap->size * 2 : 64;", "heap->size ? heap->size * 2 : 128;"),
]
