"""
C07 -- particles move continuously at recorded velocity; events only hand velocity over.

Decided: R7.1 slice-before-write typestate on every concrete handler (K1 clear/replace/in-place needs a time-slice since the
last store, K2 grant needs a time stamp that is the event time); R7.2 who may write a position; R7.3 nobody writes
identifier / charge; R7.4 velocity provenance (only moved, copied, zeroed, configured, or rotated by a norm-preserving
_get_new_velocity); R7.5 the candidate time is built as time_stamp + displacement through Time.__add__.
Not decided: monotone committed times, float equality of positions, 'exactly one moving chain' as a dynamic count.
"""
import ast
from typing import Dict, List, Optional, Tuple

from ..core import IdiomNotRecognised, AnalysisError, Loc, Report, Source, norm
from ..handlers import HandlerFacts, concrete_handlers, is_zero_vector, is_time_slice_routine, stores, time_slice_obligations
from ..protocol import HandlerProtocol, _is_copy_of
from ..pyfront import Program, body_without_docstring, param_names, self_attr
from ..selftest import Edit
from ..writers import all_field_writes

ID = "C07"


def _local_def(fn: ast.FunctionDef, name: str) -> Optional[ast.AST]:
    vals = [n.value for n in ast.walk(fn) if isinstance(n, ast.Assign) and len(n.targets) == 1
            and isinstance(n.targets[0], ast.Name) and n.targets[0].id == name]
    return vals[0] if len(vals) == 1 else None


def velocity_source(prog: Program, cls, fn: ast.FunctionDef, value: Optional[ast.AST], depth: int = 0) -> Optional[str]:
    """Classify the right-hand side of a leaf velocity write; None = not an accepted provenance."""
    if value is None or depth > 4:
        return None
    v = _is_copy_of(value)
    if isinstance(v, ast.Constant) and v.value is None:
        return "none"
    if isinstance(v, ast.Attribute) and v.attr == "velocity":
        return "unit-velocity"
    if is_zero_vector(v):
        return "zero-vector"
    if isinstance(v, (ast.ListComp, ast.List)):
        return None
    if isinstance(v, ast.Name):
        d = _local_def(fn, v.id)
        if d is not None:
            return velocity_source(prog, cls, fn, d, depth + 1)
        return None
    if self_attr(v) is not None:
        # configured initial velocity: zero vector with one component set to a positive constructor parameter
        attr = self_attr(v)
        r = prog.resolve_method(cls, "__init__")
        if r:
            init = r[1]
            zero = any(isinstance(n, ast.Assign) and self_attr(n.targets[0]) == attr and isinstance(n.value, ast.BinOp)
                       and isinstance(n.value.op, ast.Mult) and isinstance(n.value.left, ast.List)
                       and all(isinstance(e, ast.Constant) and e.value == 0 for e in n.value.left.elts)
                       for n in ast.walk(init))
            one = [n for n in ast.walk(init) if isinstance(n, ast.Assign) and isinstance(n.targets[0], ast.Subscript)
                   and self_attr(n.targets[0].value) == attr]
            if zero and len(one) == 1 and isinstance(one[0].value, ast.Name) and one[0].value.id in param_names(init):
                return "configured-initial-velocity"
        return None
    if isinstance(v, ast.Call) and isinstance(v.func, ast.Attribute) and isinstance(v.func.value, ast.Name) \
            and v.func.value.id == "self" and len(v.args) == 1:
        arg_kind = velocity_source(prog, cls, fn, v.args[0], depth + 1)
        if arg_kind == "unit-velocity":
            return f"rotated:{v.func.attr}"
    return None


def norm_preserving(fn: ast.FunctionDef, cls_init: Optional[ast.FunctionDef]) -> Tuple[Optional[bool], str]:
    """Is this _get_new_velocity implementation a one-hot relocation or a 2x2 rotation by one angle?"""
    ps = param_names(fn)
    if len(ps) != 1:
        return None, "unexpected signature"
    old = ps[0]
    body = [s for s in body_without_docstring(fn) if not isinstance(s, ast.Assert)]
    rets = [s for s in body if isinstance(s, ast.Return)]
    if len(rets) != 1:
        return None, "more than one return"
    rv = rets[0].value
    # (b) rotation
    if isinstance(rv, ast.List) and len(rv.elts) == 2:
        def term(e):  # old[i] * self.c  -> (i, attr)
            if isinstance(e, ast.BinOp) and isinstance(e.op, ast.Mult):
                for a, b in ((e.left, e.right), (e.right, e.left)):
                    if isinstance(a, ast.Subscript) and isinstance(a.value, ast.Name) and a.value.id == old \
                            and isinstance(a.slice, ast.Constant) and self_attr(b):
                        return a.slice.value, self_attr(b)
            return None
        e0, e1 = rv.elts
        if isinstance(e0, ast.BinOp) and isinstance(e1, ast.BinOp):
            t = [term(e0.left), term(e0.right), term(e1.left), term(e1.right)]
            if all(x is not None for x in t):
                (i00, c00), (i01, s01), (i10, s10), (i11, c11) = t
                shape = (i00, i01, i10, i11) == (0, 1, 0, 1) and c00 == c11 and s01 == s10 and c00 != s01 \
                    and {type(e0.op), type(e1.op)} == {ast.Sub, ast.Add}
                if not shape:
                    return False, "not of the form [x*c - y*s, x*s + y*c]"
                # c and s are cos and sin of the same angle
                if cls_init is None:
                    return None, "constructor not found"
                defs = {self_attr(n.targets[0]): n.value for n in ast.walk(cls_init) if isinstance(n, ast.Assign)
                        and self_attr(n.targets[0]) in (c00, s01)}
                cdef, sdef = defs.get(c00), defs.get(s01)
                ok = isinstance(cdef, ast.Call) and isinstance(sdef, ast.Call) and norm(cdef.func).endswith("cos") \
                    and norm(sdef.func).endswith("sin") and len(cdef.args) == 1 and len(sdef.args) == 1 \
                    and norm(cdef.args[0]) == norm(sdef.args[0])
                return ok, "coefficients must be cos and sin of the same angle"
        return False, "two-component result is not a rotation"
    # (a) one-hot relocation: new = zero vector; new[j] = old[i]; return new
    if isinstance(rv, ast.Name):
        d = _local_def(fn, rv.id)
        zero = d is not None and is_zero_vector(d)
        sets = [s for s in body if isinstance(s, ast.Assign) and isinstance(s.targets[0], ast.Subscript)
                and isinstance(s.targets[0].value, ast.Name) and s.targets[0].value.id == rv.id]
        other = [s for s in body if isinstance(s, ast.AugAssign) and norm(s.target).startswith(rv.id)]
        if zero and len(sets) == 1 and not other:
            val = sets[0].value
            ok = isinstance(val, ast.Subscript) and isinstance(val.value, ast.Name) and val.value.id == old
            return ok, "the single non-zero component must be a component of the old velocity, unscaled"
        return False, "not a one-hot relocation of one component"
    return None, "shape not recognised"


def analyse(src: Source) -> List[Report]:
    rep = Report(ID, src)
    rep.explain(
        "R7.1: for each of the concrete handler classes the concatenation send_event_time; send_out_state is walked (self "
        "helpers inlined through the MRO, asserts ignored) with must-facts STORED / TIME / SLICED: clearing, replacing or "
        "changing a velocity in place requires a time-slice of the stored state (or of that unit) on every path since the "
        "last store; granting a velocity together with a time stamp requires the stamp to be the handler's event time, the "
        "stamp of a time-sliced unit, or the constant the event time is initialised with. R7.2/R7.3: inventory of every "
        "store to position / identifier / charge in the package: only constructors, TreePhysicalState.set, the time-slice "
        "routine (identified by role) and the cell-boundary snap after a full time-slice write positions; nothing writes "
        "identifier or charge. R7.4: every value assigned to a leaf velocity is None, another unit's velocity (moved or "
        "copied), a zero vector, the configured initial velocity or a norm-preserving _get_new_velocity of a unit "
        "velocity (one-hot relocation or rotation by cos/sin of one angle); in-place arithmetic exists only in the "
        "non-leaf commit routine. R7.5: the candidate time is `<unit>.time_stamp + displacement` (Time.__add__). R7.6: every per-component "
        "periodic correction is applied with the index of the component its argument was computed from.")
    rep.assume("leaf collections iterated by a handler are non-empty (loops run at least once) for the register rule only")
    prog = Program(src)
    handlers = concrete_handlers(prog)
    rep.unit("handler_classes", len(handlers))
    new_velocity_impls = {}
    for h in handlers:
        hp = HandlerProtocol(prog, h, rep, ["R7.1", "R7.2"])
        hp.run()
        facts = hp.facts
        # R7.4 provenance at every leaf velocity write in the out-state closure (outside the commit routine)
        for ref in facts.out_closure:
            in_commit = ref.fn.name in hp.roles.part_of(hp.roles.commit_subtree)
            for stmt, field, recv, elementwise, value in stores(ref.fn):
                if field != "velocity":
                    continue
                loc = Loc(ref.file, stmt.lineno, f"{h.name}: {ref.qual}")
                if in_commit:
                    continue
                if not hp.roles.commit_subtree and prog.is_subclass(h, "LeavesEventHandler"):
                    # the routine that commits the induced velocities of composite objects was not identified: whether this write is
                    # a leaf velocity or an induced one cannot be told
                    rep.ob("R7.4-velocity-provenance", None, loc, stmt, "idiom not recognised: commit routine of the induced velocities not identified")
                    continue
                if elementwise or isinstance(stmt, ast.AugAssign):
                    rep.ob("R7.4-no-leaf-arithmetic", False, loc, stmt,
                           "in-place arithmetic on a leaf velocity: the speed of the chain is no longer the initial speed")
                    continue
                kind = velocity_source(prog, h, ref.fn, value)
                verdict_ = kind is not None
                if kind is None:
                    # a value that is (a copy of) a parameter of a helper: judged at the call sites of the helper in this handler
                    core_ = value
                    while isinstance(core_, ast.Call) and ((isinstance(core_.func, ast.Attribute) and core_.func.attr == "copy" and not core_.args) or
                                                           (isinstance(core_.func, ast.Name) and core_.func.id in ("copy", "list") and len(core_.args) == 1)):
                        core_ = core_.func.value if isinstance(core_.func, ast.Attribute) else core_.args[0]
                    ps_ = [a_.arg for a_ in ref.fn.args.args if a_.arg not in ("self", "cls")]
                    if isinstance(core_, ast.Name) and core_.id in ps_ and ref.fn.name not in ("send_out_state", "send_event_time"):
                        idx_ = ps_.index(core_.id)
                        sites_ = [(r2, c_) for r2 in facts.out_closure for c_ in ast.walk(r2.fn)
                                  if isinstance(c_, ast.Call) and isinstance(c_.func, ast.Attribute) and c_.func.attr == ref.fn.name
                                  and isinstance(c_.func.value, ast.Name) and c_.func.value.id == "self" and len(c_.args) > idx_]
                        kinds_ = [velocity_source(prog, h, r2.fn, c_.args[idx_]) for r2, c_ in sites_]
                        verdict_ = True if sites_ and all(k_ is not None for k_ in kinds_) else None
                        kind = kinds_[0] if verdict_ else None
                rep.ob("R7.4-velocity-provenance", verdict_, loc, stmt,
                       f"the value assigned to a velocity is not None, another unit's velocity, a zero vector, the "
                       f"configured initial velocity or a _get_new_velocity of a unit velocity: `{norm(value)}`")
                if kind and kind.startswith("rotated:"):
                    r = prog.resolve_method(h, kind.split(":", 1)[1])
                    if r:
                        new_velocity_impls[(r[0].name, r[1].name)] = (h, r)
        # R7.5 candidate time
        if facts.takes_in_state:
            for ref in facts.time_closure:
                for n in ast.walk(ref.fn):
                    if isinstance(n, ast.Assign) and self_attr(n.targets[0]) == "_event_time":
                        v = n.value
                        ok = isinstance(v, ast.BinOp) and isinstance(v.op, ast.Add) and _is_time_stamp(v.left, ref.fn)
                        rep.ob("R7.5-event-time-from-stamp", ok, Loc(ref.file, n.lineno, f"{h.name}: {ref.qual}"), n,
                               "the candidate event time must be `<unit of the in-state>.time_stamp + displacement` "
                               "(Time.__add__ keeps the resolution); it is built differently here")
    for (cname, fname), (h, (owner, fn)) in sorted(new_velocity_impls.items()):
        init = prog.resolve_method(h, "__init__")
        ok, why = norm_preserving(fn, owner.methods.get("__init__") or (init[1] if init else None))
        rep.ob("R7.4-norm-preserving", ok, Loc(owner.file, fn.lineno, f"{owner.name}.{fn.name}"), f"{owner.name}.{fn.name}",
               f"the new velocity of an end-of-chain event must have the speed of the old one by shape: {why}")
    base = prog.class_named("BasicEventHandler")
    slicers = [fn for fn in base.methods.values() if is_time_slice_routine(fn)]
    if len(slicers) != 1:
        raise IdiomNotRecognised(f"time-slice routine not identified uniquely by role ({[f.name for f in slicers]})")
    for rule, ok, node, msg in time_slice_obligations(slicers[0]):
        rep.ob(rule, ok, Loc(base.file, node.lineno, f"{base.name}.{slicers[0].name}"), node, msg)
    # ---- R7.2 / R7.3 who-may-write ---------------------------------------------------------------------------------
    writes = all_field_writes(prog)
    rep.unit("unit_field_writes", len(writes))
    npos = 0
    for w in writes:
        loc = Loc(w.mi.file, w.stmt.lineno, w.qual)
        if w.field in ("identifier", "charge"):
            ok = w.fn.name == "__init__" and norm(w.recv) == "self" and w.ci is not None and w.ci.name in ("Unit", "Particle")
            rep.ob("R7.3-immutable-identity", ok, loc, w.stmt,
                   f"`{w.field}` is written outside the constructors of Unit / Particle: identities and charges never change")
        elif w.field == "position":
            if w.fn.name == "__init__" and norm(w.recv) == "self" and w.ci and w.ci.name in ("Unit", "Particle"):
                kind = "constructor"
            elif w.mi.file.startswith("jellyfysh/input_output_handler/output_handler/") and w.provenance != "param":
                kind = "output-handler-atom"  # MDAnalysis atoms, not units (receiver not derived from the state parameter)
            elif w.ci is not None and prog.is_subclass(w.ci, "PhysicalState") and w.fn.name == "set":
                kind = "global-state-set"
            elif is_time_slice_routine(w.fn):
                kind = "time-slice"
            elif w.ci is not None and prog.is_subclass(w.ci, "EventHandler") and HandlerFacts(prog, w.ci).snaps_position \
                    and not w.elementwise is False:
                kind = "cell-boundary-snap"  # ordering is checked by R7.2-snap-after-slice
            else:
                kind = None
            npos += 1
            rep.ob("R7.2-position-writers", kind is not None, loc, w.stmt,
                   "a position is written outside the constructors, the global-state setter, the time-slice routine and "
                   "the cell-boundary snap: this moves a particle discontinuously")
    # committed event times never decrease only if the schedulers return the live minimum: order tables and the
    # lazy-deletion protocol (rules shared with C06)
    from ..cfront import CUnit
    # an in-state that shares its position list / Time object with the global state or with another handler's in-state is moved
    # by that handler's time-slicing: the extraction must hand out copies (shared with C13)
    from .c13 import check_extraction_copies
    check_extraction_copies(prog, rep)
    # "every position lies in the box" from the first configuration on: the random node creators wrap what they generate (shared with C12)
    from .c12 import check_creators, check_commit_routine
    # only one chain moves: the induced velocity of a composite object is committed exactly (weights, tolerant rest test), otherwise
    # an object whose point masses all rest keeps moving
    try:
        check_commit_routine(prog, rep)
    except IdiomNotRecognised as e_:
        rep.ob("R12.1-commit-routine", None, Loc("jellyfysh/event_handler/abstracts/abstracts.py", 0, "LeavesEventHandler"), "commit routine", str(e_))
    check_creators(prog, rep)
    from .c06 import HEAP_C, check_c_comparisons, check_heap_scheduler, check_list_scheduler
    unit = CUnit(src, HEAP_C)
    check_c_comparisons(unit, rep)
    check_heap_scheduler(src, rep, unit)
    check_list_scheduler(src, rep)
    from ..handler_dims import check_handler_dimensions
    check_handler_dimensions(prog, src, rep, "R7.7-handler-dimensions", None)
    from ..components import check_component_consistency
    check_component_consistency(prog, rep, "R7.6-component-consistency")
    rep.expect_min("R7.6-component-consistency", 4)
    rep.expect_min("R7.1-K1-slice-before-write", 12)
    rep.expect_min("R7.1-K2-grant-time", 8)
    rep.expect_min("R7.2-position-writers", 5)
    rep.expect_min("R7.2-snap-after-slice", 1)
    rep.expect_min("R7.3-immutable-identity", 3)
    rep.expect_min("R7.4-velocity-provenance", 10)
    rep.expect_min("R7.4-norm-preserving", 2)
    rep.expect_min("R7.5-event-time-from-stamp", 8)
    return [rep]


def _is_time_stamp(e: ast.AST, fn: ast.FunctionDef) -> bool:
    if isinstance(e, ast.Attribute) and e.attr == "time_stamp":
        return True
    if isinstance(e, ast.Name):
        d = _local_def(fn, e.id)
        return d is not None and _is_time_stamp(d, fn)
    return False


EH = "jellyfysh/event_handler/"
MUTANTS = [
    Edit("two-leaf handler: no time-slice in send_event_time", EH + "two_leaf_unit_event_handler.py",
         "        self._time_slice_all_units_in_state()\n", "", "R7.1"),
    Edit("bounding handler: time-slice moved after the exchange", EH + "two_leaf_unit_bounding_potential_event_handler.py",
         "        self._time_slice_all_units_in_state()\n        return self._event_time",
         "        return self._event_time", "R7.1"),
    Edit("time-slice routine forgets the stamp", EH + "abstracts/abstracts.py",
         "            unit.time_stamp.update(self._event_time)\n", "", "R7.2-slice-updates-stamp"),
    Edit("time-slice advances with the wrong component", EH + "abstracts/abstracts.py",
         "unit.position[d] + unit.velocity[d] * (self._event_time - unit.time_stamp)",
         "unit.position[d] + unit.velocity[0] * (self._event_time - unit.time_stamp)", "R7.2-slice-formula"),
    Edit("time-slice does not wrap", EH + "abstracts/abstracts.py",
         "unit.position[d] = setting.periodic_boundaries.correct_position_entry(\n"
         "                    unit.position[d] + unit.velocity[d] * (self._event_time - unit.time_stamp), d)",
         "unit.position[d] = unit.position[d] + unit.velocity[d] * (self._event_time - unit.time_stamp)",
         "R7.2-slice-wraps"),
    Edit("end of chain: new unit stamped with a stale unit stamp without slicing", EH + "abstracts/end_of_chain_event_handler.py",
         "        self._store_in_state(cnodes_with_active_units)\n        self._time_slice_all_units_in_state()\n",
         "        self._store_in_state(cnodes_with_active_units)\n", "R7.1"),
    Edit("second position writer", EH + "abstracts/abstracts.py",
         "        target_unit.velocity = active_unit.velocity\n",
         "        target_unit.velocity = active_unit.velocity\n        target_unit.position = list(active_unit.position)\n", "R7.2"),
    Edit("velocity doubled on hand-over", EH + "abstracts/abstracts.py",
         "        target_unit.velocity = active_unit.velocity\n",
         "        target_unit.velocity = [2 * c for c in active_unit.velocity]\n", "R7.4"),
    Edit("rotation with mismatched coefficient", EH + "single_independent_active_sequential_direction_end_of_chain_event_handler.py",
         "old_velocity[0] * self._sin_delta_phi + old_velocity[1] * self._cos_delta_phi",
         "old_velocity[0] * self._sin_delta_phi + old_velocity[1] * self._sin_delta_phi", "R7.4"),
    Edit("cos of a different angle", EH + "single_independent_active_sequential_direction_end_of_chain_event_handler.py",
         "self._cos_delta_phi = math.cos(delta_phi)", "self._cos_delta_phi = math.cos(2 * delta_phi)", "R7.4"),
    Edit("periodic direction scales the speed", EH + "single_independent_active_periodic_direction_end_of_chain_event_handler.py",
         "] = old_velocity[direction_of_motions[0]]", "] = 2 * old_velocity[direction_of_motions[0]]", "R7.4"),
    Edit("charge rewritten by a handler", EH + "abstracts/abstracts.py",
         "        active_unit.velocity = None\n", "        active_unit.velocity = None\n        active_unit.charge = target_unit.charge\n",
         "R7.3"),
    Edit("event time from float sum", EH + "two_leaf_unit_event_handler.py",
         "self._event_time = self._active_leaf_unit.time_stamp + time_displacement",
         "self._event_time = Time.from_float(self._active_leaf_unit.time_stamp.quotient + "
         "self._active_leaf_unit.time_stamp.remainder + time_displacement)", "R7.5"),
    Edit("cell boundary snap before the slice", EH + "cell_boundary_event_handler.py",
         r"        self\._time_slice_all_units_in_state\(\)\n(        # [^\n]*\n)?        self\._relevant_unit\.position\[self\._direction\] = self\._boundary\n",
         "        self._relevant_unit.position[self._direction] = self._boundary\n        self._time_slice_all_units_in_state()\n",
         "R7.2", regex=True),
    Edit("mode switch: leaves stamped with the constructor time", EH + "root_leaf_unit_active_switcher.py",
         "cnode.value.time_stamp = copy(active_leaf_unit.time_stamp)", "cnode.value.time_stamp = Time(0.0, 0.0)", "R7.1-K2"),
]
MUTANTS.append(Edit("cell boundary: image shift with the stale direction", EH + "cell_boundary_event_handler.py",
                    "separation = setting.periodic_boundaries.next_image(separation, direction)",
                    "separation = setting.periodic_boundaries.next_image(separation, self._direction)", "R7.6", nth=0))
MUTANTS.append(Edit("candidate time: inverse displacement added to the time stamp", EH + "two_leaf_unit_bounding_potential_event_handler.py",
                    "self._event_time = self._active_leaf_unit.time_stamp + time_displacement", "self._event_time = self._active_leaf_unit.time_stamp + 1.0 / time_displacement", "R7.7"))
MUTANTS.append(Edit("time slice with velocity squared", EH + "abstracts/abstracts.py",
                    "unit.position[d] + unit.velocity[d] * (self._event_time - unit.time_stamp)",
                    "unit.position[d] + unit.velocity[d] * unit.velocity[d] * (self._event_time - unit.time_stamp)", "R7"))
TWINS = [
    Edit("exchange velocity with locals", EH + "abstracts/abstracts.py",
         "        target_unit.velocity = active_unit.velocity\n        target_unit.time_stamp = active_unit.time_stamp\n",
         "        moved_velocity = active_unit.velocity\n        target_unit.velocity = moved_velocity\n"
         "        target_unit.time_stamp = active_unit.time_stamp\n"),
    Edit("drop asserts in exchange", EH + "abstracts/abstracts.py",
         "        assert active_unit.velocity is not None\n", ""),
    Edit("copy instead of list.copy", EH + "initial_chain_start_of_run_event_handler.py",
         "unit.velocity = self._initial_velocity.copy()", "unit.velocity = list(self._initial_velocity)"),
]
